"""Namespace oracles on one built image (independent reader vs what the edits imply):
Rock Ridge logical tree (C08), Joliet tree (C09), UDF tree (C10), El Torito (C11), hybrid (C12)."""
import io
import stat
import struct

from harness import pyspec, reader, sysimg, syslevel

LBS = 2048


def spec_state(b):
    """specification state of the run, or None when the outcomes disagree (C01's business)"""
    try:
        s, outs = pyspec.run(b.ops, getattr(b, 'reopen_points', ()))
    except Exception:
        return None
    if outs != b.outs:
        return None
    return s


def _walk(root, namefn):
    out = {}
    stack = [(root, '')]
    while stack:
        node, prefix = stack.pop()
        for c in node.children:
            p = prefix + '/' + namefn(c.name)
            out[p] = c
            if c.is_dir:
                stack.append((c, p))
    return out


# ---------------------------------------------------------------- C08

RR_RULES = ('rr-', 'ce-', 'cl-', 'pl-')


def expected_rr(s):
    """logical Rock Ridge tree {rr path: (kind, target)} from the ISO namespace of the specification"""
    iso = s.ns['iso']
    out = {}
    for p, e in iso.items():
        comps = [c for c in p.split('/') if c]
        rr_path = ''
        ok = True
        for i in range(len(comps)):
            q = '/' + '/'.join(comps[:i + 1])
            ent = iso.get(q)
            if ent is None or ent.get('rr') is None:
                ok = False
                break
            rr_path += '/' + ent['rr']
        if ok:
            out[rr_path] = (e['kind'], e.get('target'))
    return out


def oracle_c08(b, report, modes=None):
    rd = b.rd
    if b.rd_fatal is not None:
        report('reader-fatal:' + b.rd_fatal.rule, 'independent reader cannot decode the image: %s' % b.rd_fatal, None)
        return
    for m in rd.problems:
        if m.rule.startswith(RR_RULES):
            report('rule:' + m.rule, 'SUSP/RRIP well-formedness rule [%s] violated: %s' % (m.rule, m.detail), m.offset)
    if not b.cfg.rr:
        return
    if rd.rr_root is None:
        report('no-rr-tree', 'the image was made with Rock Ridge but an independent SUSP reader finds no Rock Ridge tree', None)
        return
    s = spec_state(b)
    if s is None:
        return
    want = expected_rr(s)
    got = _walk(rd.rr_root, lambda n: n.decode('utf-8', 'replace') if isinstance(n, bytes) else n)
    got = {p: n for p, n in got.items() if p.split('/')[1] != 'rr_moved'}
    # a user-made /RR_MOVED (Rock Ridge name rr_moved) IS the relocation directory: whether a reader shows it is not part of
    # the logical tree on either side
    want = {p: v for p, v in want.items() if p.split('/')[1] != 'rr_moved'}
    if set(want) != set(got):
        report('rr-tree', 'Rock Ridge logical tree differs from the one built: missing %s, unexpected %s'
               % (sorted(set(want) - set(got))[:3], sorted(set(got) - set(want))[:3]), None)
        return
    relocated = any(getattr(n, 'entry', None) is not None and n.entry is not n.iso for n in got.values() if n.is_dir)
    for p, (kind, target) in want.items():
        n = got[p]
        gk = 'dir' if n.is_dir else ('sym' if n.symlink is not None else 'file')
        if gk != kind:
            report('rr-type', 'Rock Ridge entry %s is a %s, a %s was added' % (p, gk, kind), None)
            continue
        if n.mode is not None:
            fmt = stat.S_IFMT(n.mode)
            wantfmt = {'dir': stat.S_IFDIR, 'file': stat.S_IFREG, 'sym': stat.S_IFLNK}[kind]
            if fmt != wantfmt:
                report('rr-mode-type', 'Rock Ridge entry %s: PX mode %o does not say %s' % (p, n.mode, kind), None)
            if modes and p in modes and stat.S_IMODE(n.mode) != stat.S_IMODE(modes[p]):
                report('rr-mode', 'Rock Ridge entry %s: PX mode %o, %o was given' % (p, n.mode, modes[p]), None)
        if kind == 'sym':
            t = n.symlink.decode('utf-8', 'replace') if isinstance(n.symlink, bytes) else n.symlink
            if t != target:
                pieces = target.split('/')
                cls = 'plain'
                if target == '/':
                    cls = 'root-only'
                elif any(q.startswith('.') and q not in ('.', '..') for q in pieces):
                    cls = 'piece-starting-with-dot'
                elif t is not None and target.startswith(t) and len(pieces) >= 20:
                    cls = 'truncated-many-components'
                report('rr-symlink-target:' + cls, 'symlink %s: an RRIP reader reassembles %r..., the target given was %r...'
                       % (p, (t or '')[:50], target[:50]), None)
    # a relocation directory in the root (made by the library or by the user) is counted by the physical link counts but is
    # not part of the logical tree: with one present the counts are not compared (Model/Reloc.v states what they are)
    moved = any(getattr(c, 'name', None) in (b'RR_MOVED', 'RR_MOVED') for c in getattr(rd.iso_root, 'children', []))
    if not relocated and not moved:
        for m in reader.check_rr_nlink(rd):
            report('rr-nlink', 'link count: %s' % m.detail, m.offset)


# ---------------------------------------------------------------- C09

def oracle_c09(b, report):
    rd = b.rd
    if b.rd_fatal is not None:
        report('reader-fatal:' + b.rd_fatal.rule, 'independent reader cannot decode the image: %s' % b.rd_fatal, None)
        return
    if not b.cfg.joliet:
        return
    if rd.joliet_root is None:
        report('no-joliet-tree', 'the image was made with Joliet but the reader finds no usable supplementary descriptor: %s'
               % [m.rule for m in rd.problems][:3], None)
        return
    for m in rd.problems:
        if 'joliet' in (m.detail or '') or m.rule in ('joliet-escape',):
            report('rule:' + m.rule, 'Joliet structure rule [%s] violated: %s' % (m.rule, m.detail), m.offset)
    svd = rd.svds[0]
    if svd.get('space_size') != rd.pvd['space_size']:
        report('joliet-space-size', 'supplementary descriptor declares %s sectors, the PVD %s' % (svd.get('space_size'), rd.pvd['space_size']), None)
    s = spec_state(b)
    if s is None:
        return
    want = s.ns['jol']
    got = _walk(rd.joliet_root, lambda n: n if isinstance(n, str) else n.decode('utf-16_be', 'replace'))
    gotn = {(p[:-2] if p.endswith(';1') else p): n for p, n in got.items()}
    if set(want) != set(gotn):
        report('joliet-tree', 'Joliet tree differs from the one built: missing %s, unexpected %s'
               % (sorted(set(want) - set(gotn))[:3], sorted(set(gotn) - set(want))[:3]), None)
        return
    iso = {}
    if rd.iso_root is not None:
        iso = _walk(rd.iso_root, lambda n: n.decode('latin-1') if isinstance(n, bytes) else n)
    for p, e in want.items():
        n = gotn[p]
        if (e['kind'] == 'dir') != n.is_dir:
            report('joliet-type', 'Joliet entry %s has the wrong type' % p, None)
        if e['kind'] == 'file' and e['blob'] not in (None, 0, -1) and not e.get('empty'):
            for q, e2 in s.ns['iso'].items():
                if e2['kind'] == 'file' and e2['blob'] == e['blob'] and q in iso:
                    if tuple(iso[q].extents) != tuple(n.extents):
                        report('joliet-extent', 'Joliet file %s points at %s, its ISO9660 link %s at %s'
                               % (p, n.extents[:2], q, iso[q].extents[:2]), None)
                    break


# ---------------------------------------------------------------- C10

UDF_RULES = ('udf-',)


def oracle_c10(b, report):
    rd = b.rd
    if b.rd_fatal is not None:
        report('reader-fatal:' + b.rd_fatal.rule, 'independent reader cannot decode the image: %s' % b.rd_fatal, None)
        return
    if not b.cfg.udf:
        return
    for m in rd.problems:
        if m.rule.startswith(UDF_RULES):
            report('rule:' + m.rule, 'ECMA-167/UDF rule [%s] violated: %s' % (m.rule, m.detail), m.offset)
    if rd.udf is None or rd.udf.get('root') is None:
        report('no-udf-tree', 'an ECMA-167 reader starting from the recognition sequence and the anchors does not reach the file set', None)
        return
    s = spec_state(b)
    if s is None:
        return
    want = s.ns['udf']
    got = _walk(rd.udf['root'], lambda n: n if isinstance(n, str) else n.decode('latin-1'))
    if set(want) != set(got):
        report('udf-tree', 'UDF tree differs from the one built: missing %s, unexpected %s'
               % (sorted(set(want) - set(got))[:3], sorted(set(got) - set(want))[:3]), None)
        return
    # every directory's parent entry leads to its parent (the root to itself); Logical Blocks Recorded = blocks the data occupies
    pstart = rd.udf['partition']['start'] if rd.udf.get('partition') else None
    stack = [rd.udf['root']]
    while stack and pstart is not None:
        d = stack.pop()
        if d.is_dir:
            stack.extend(d.children)
            par = d.parent if d.parent is not None else d
            want_icb = getattr(par, 'fe_sector', None)
            got_icb = getattr(d, 'parent_icb', None)
            if want_icb is not None and got_icb is not None and got_icb != want_icb - pstart:
                report('udf-parent-icb', 'the parent entry of UDF directory %s designates partition block %d, the File Entry of its parent is at block %d'
                       % (d.path() or '/', got_icb, want_icb - pstart), None)
                break
        if getattr(d, 'inline', None) is None and getattr(d, 'blocks_recorded', None) is not None and d.length is not None:
            need = (d.length + LBS - 1) // LBS
            if d.blocks_recorded != need and not (d.length == 0 and d.blocks_recorded in (0, 1)):
                report('udf-blocks-recorded', 'UDF %s %s records %d logical blocks, its %d bytes occupy %d'
                       % ('directory' if d.is_dir else 'file', d.path() or '/', d.blocks_recorded, d.length, need), None)
                break
    # integrity counts and partition length "cover exactly what they describe"
    integ, part = rd.udf.get('integrity'), rd.udf.get('partition')
    if integ and part:
        nfiles = sum(1 for e in want.values() if e['kind'] != 'dir')
        ndirs = 1 + sum(1 for e in want.values() if e['kind'] == 'dir')
        if integ['num_files'] != nfiles or integ['num_dirs'] != ndirs:
            report('udf-integrity-counts', 'logical volume integrity descriptor counts %d files / %d directories, the tree holds %d / %d'
                   % (integ['num_files'], integ['num_dirs'], nfiles, ndirs), None)
        if integ['size_table'] and integ['size_table'][0] != part['length']:
            report('udf-integrity-size', 'integrity size table says %s blocks, the partition descriptor %d' % (integ['size_table'], part['length']), None)
        space = rd.pvd['space_size']
        if part['start'] + part['length'] != space - 1:
            report('udf-partition-length', 'partition [%d, %d) does not end right before the trailing anchor of a %d-sector volume'
                   % (part['start'], part['start'] + part['length'], space), None)
    sizes = {op['blob']: op['size'] for op in b.ops if op['k'] == 'add_fp'}
    for p, e in want.items():
        n = got[p]
        if e['kind'] == 'dir':
            if not n.is_dir:
                report('udf-type', 'UDF entry %s should be a directory' % p, None)
        elif e['kind'] == 'sym':
            t = n.symlink
            t = t.decode('utf-8', 'replace') if isinstance(t, bytes) else t
            def posix(q):
                # 'a//b' and 'a/b/' name what 'a/b' names; a UDF path has no way (and no need) to record empty pieces
                return ('/' if q.startswith('/') else '') + '/'.join(x for x in q.split('/') if x)
            if t is None or posix(t) != posix(e['target']):
                report('udf-symlink-target', 'UDF symlink %s: reader recovers %r, target given %r' % (p, t, e['target']), None)
        elif e['blob'] not in (None, -1):
            want_bytes = syslevel.blob_content(e['blob'], sizes.get(e['blob'], 0)) if e['blob'] > 0 else b''
            try:
                data = reader.read_file(b.img, n)
            except reader.Malformed as m:
                report('udf-file-extent', 'UDF file %s: %s' % (p, m), None)
                continue
            if e['blob'] > 0 and data != want_bytes:
                report('udf-file-bytes', 'UDF file %s: %d bytes at the recorded extents differ from the %d bytes supplied'
                       % (p, len(data), len(want_bytes)), None)


# ---------------------------------------------------------------- C11

def bootinfo_expected(content, pvd_sector, file_sector):
    ln = len(content)
    rest = content[64:]
    rest += b'\x00' * ((-len(rest)) % 4)
    csum = 0
    for (w,) in struct.iter_unpack('<L', rest):
        csum = (csum + w) & 0xffffffff
    return struct.pack('<LLLL', pvd_sector, file_sector, ln, csum)


def oracle_c11(b, report):
    """expects ops to carry add_eltorito / add_eltorito_section with optional media/platform/load size/boot_info_table"""
    rd = b.rd
    if b.rd_fatal is not None:
        report('reader-fatal:' + b.rd_fatal.rule, 'independent reader cannot decode the image: %s' % b.rd_fatal, None)
        return
    s = spec_state(b)
    if s is None:
        return
    for m in rd.problems:
        if m.rule.startswith('eltorito-'):
            report('rule:' + m.rule, 'El Torito rule [%s] violated: %s' % (m.rule, m.detail), m.offset)
    if s.boot is None:
        if rd.eltorito is not None:
            report('eltorito-left-behind', 'El Torito was removed (or never added) but sector 17 still holds a boot record', None)
        return
    et = rd.eltorito
    if et is None:
        report('eltorito-missing', 'El Torito was added but an independent reader finds no boot record / catalog', None)
        return
    if not (et['validation']['checksum_ok'] and et['validation']['key_ok']):
        report('eltorito-validation', 'validation entry does not checksum to zero / key bytes wrong', None)
    entries = [et['initial']] + [e for sec in et['sections'] for e in sec['entries']]
    boot_ops = [op for op, o in zip(b.ops, b.outs) if o == 'ok' and op['k'] in ('add_eltorito', 'add_eltorito_section')]
    # a later rm_eltorito + add_eltorito restarts the list
    last_rm = max([i for i, (op, o) in enumerate(zip(b.ops, b.outs)) if op['k'] == 'rm_eltorito' and o == 'ok'] + [-1])
    boot_ops = [op for i, (op, o) in enumerate(zip(b.ops, b.outs)) if i > last_rm and o == 'ok' and
                op['k'] in ('add_eltorito', 'add_eltorito_section')]
    if len(entries) != len(boot_ops):
        report('eltorito-entry-count', 'the catalog chain holds %d entries, %d boot images were added' % (len(entries), len(boot_ops)), None)
        return
    iso = _walk(rd.iso_root, lambda n: n.decode('latin-1') if isinstance(n, bytes) else n) if rd.iso_root else {}
    sizes = {op['blob']: op['size'] for op in b.ops if op['k'] == 'add_fp'}
    blob_of_path = {op['iso']: op['blob'] for op in b.ops if op['k'] == 'add_fp' and 'iso' in op}
    MEDIA = {'noemul': 0, 'floppy': None, 'hdemul': 4}
    for e, op in zip(entries, boot_ops):
        bf = op['bootfile']
        blob = blob_of_path.get(bf)
        content = syslevel.blob_content(blob, sizes.get(blob, 0)) if blob else None
        node = iso.get(bf)
        if node is not None and node.extents and e['load_rba'] != node.extents[0][0]:
            report('eltorito-load-rba', 'boot entry for %s has load RBA %d, the file data starts at sector %d'
                   % (bf, e['load_rba'], node.extents[0][0]), None)
        start = e['load_rba'] * LBS
        if content is not None and not op.get('boot_info_table'):
            cmp_len = len(content)
            if node is None and b.reopen_points:
                # a boot file without any name that went through write + open: the format records only the number of 512-byte
                # sectors to load, so that is all that can be known of it afterwards
                # ... so that was all that could be asked before fix 9223b0e; a nameless boot file now keeps everything up to the
                # next file, i.e. all of its bytes
                pass
            if b.img[start:start + cmp_len] != content[:cmp_len]:
                report('eltorito-boot-bytes', 'the sector the boot entry for %s points at does not hold the boot file bytes' % bf, None)
        if e['boot_indicator'] != (0x88 if op.get('bootable', True) else 0):
            report('eltorito-boot-indicator', 'boot entry for %s has indicator 0x%02x, bootable=%s was requested'
                   % (bf, e['boot_indicator'], op.get('bootable', True)), None)
        if 'boot_load_size' in op and e['sector_count'] != op['boot_load_size']:
            report('eltorito-load-size', 'load size %d recorded, %d requested' % (e['sector_count'], op['boot_load_size']), None)
        if 'media_name' in op and MEDIA.get(op['media_name']) is not None and e['media_type'] != MEDIA[op['media_name']]:
            report('eltorito-media', 'media type %d recorded, %s requested' % (e['media_type'], op['media_name']), None)
        if op['k'] == 'add_eltorito' and 'platform_id' in op and et['validation']['platform_id'] != op['platform_id']:
            report('eltorito-platform', 'platform id %d recorded, %d requested' % (et['validation']['platform_id'], op['platform_id']), None)
        if op.get('boot_info_table') and content is not None and len(content) >= 64:
            stored = b.img[start:start + len(content)]
            want = content[:8] + bootinfo_expected(content, 16, e['load_rba']) + b'\x00' * 40 + content[64:]
            if stored[:24] != want[:24] or stored[64:] != want[64:]:
                report('eltorito-boot-info-table', 'boot info table of %s as stored: pvd/file sector/length/checksum %s, expected %s'
                       % (bf, struct.unpack('<LLLL', stored[8:24]), struct.unpack('<LLLL', want[8:24])), None)
            if b.iso2 is not None and bf in s.ns['iso']:
                try:
                    o = io.BytesIO()
                    b.iso2.get_file_from_iso_fp(o, iso_path=bf)
                    if o.getvalue()[:24] != want[:24] or o.getvalue()[64:] != want[64:] or len(o.getvalue()) != len(content):
                        report('eltorito-boot-info-readback', 'boot file %s read back through the API differs from the patched content' % bf, None)
                except Exception as ex:
                    report('eltorito-boot-info-readback', 'boot file %s cannot be read back: %s' % (bf, ex), None)
    # every ordinary file still reads its own bytes (a file is not mistaken for the catalog or a boot image)
    if b.iso2 is not None:
        booted = set(op['bootfile'] for op in boot_ops if op.get('boot_info_table'))
        for op, o in zip(b.ops, b.outs):
            if op['k'] != 'add_fp' or o != 'ok' or op.get('iso') in booted:
                continue
            for ns, key in (('iso', 'iso'), ('jol', 'jol')):
                if key not in op or op[key] not in s.ns[ns]:
                    continue
                try:
                    got = sysimg.api_read(b.iso2, ns, op[key])
                except Exception as ex:
                    report('file-unreadable:' + ns, 'on a bootable image %s:%s cannot be read: %s' % (ns, op[key], ex), None)
                    continue
                if got != syslevel.blob_content(op['blob'], op['size']):
                    report('file-content:' + ns, 'on a bootable image %s:%s reads %d bytes that are not the %d bytes supplied'
                           % (ns, op[key], len(got), op['size']), None)
    # the catalog as a file under its names
    cat = b.img[et['catalog_sector'] * LBS:et['catalog_sector'] * LBS + LBS]
    if b.iso2 is not None:
        for (ns, p) in s.boot['names']:
            if p not in s.ns[ns]:
                continue
            kw = {'iso': 'iso_path', 'jol': 'joliet_path', 'udf': 'udf_path'}[ns]
            try:
                o = io.BytesIO()
                b.iso2.get_file_from_iso_fp(o, **{kw: p})
                if o.getvalue() != cat:
                    report('eltorito-catalog-file', 'the boot catalog read as file %s:%s differs from the catalog sector' % (ns, p), None)
            except Exception as ex:
                report('eltorito-catalog-file', 'the boot catalog cannot be read as file %s:%s: %s' % (ns, p, ex), None)


# ---------------------------------------------------------------- C12

def mbr_decode(img):
    parts = []
    for i in range(4):
        e = img[446 + 16 * i:446 + 16 * (i + 1)]
        boot, h1, s1, c1, typ, h2, s2, c2, lba, n = struct.unpack('<BBBBBBBBLL', e)
        parts.append({'active': boot, 'type': typ, 'start_chs': (h1, s1, c1), 'end_head': h2, 'end_sect': s2 & 0x3f,
                      'end_cyl': ((s2 & 0xc0) << 2) | c2, 'lba': lba, 'count': n})
    return {'sig': img[510:512], 'rba': struct.unpack('<L', img[432:436])[0], 'parts': parts}


def oracle_c12(b, report, hy):
    """hy: kwargs given to add_isohybrid; b.plain_img: bytes of the same history without add_isohybrid"""
    rd = b.rd
    if b.rd_fatal is not None:
        report('reader-fatal:' + b.rd_fatal.rule, 'independent reader cannot decode the image: %s' % b.rd_fatal, None)
        return
    for m in rd.problems:
        if m.rule.startswith(('mbr-', 'gpt-', 'apm-')):
            if m.rule == 'gpt-crc' and 'partition array CRC32 mismatch' in m.detail and 'matches' in m.detail:
                report('gpt-parts-crc-over-used-entries-only', 'GPT PartitionEntryArrayCRC32 is computed over the used entries only, UEFI demands '
                       'NumberOfPartitionEntries x SizeOfPartitionEntry bytes: %s' % m.detail, m.offset)
                continue
            report('rule:' + m.rule, 'hybrid structure rule [%s] violated: %s' % (m.rule, m.detail), m.offset)
    # GPT: primary and backup mirror each other and delimit the El Torito EFI / Mac images
    gpt = rd.hybrid.get('gpt') if rd.hybrid else None
    if gpt and gpt.get('primary') and gpt.get('secondary'):
        pr, se = gpt['primary'], gpt['secondary']
        last_lba = len(b.img) // 512 - 1
        if pr['current_lba'] != 1 or pr['backup_lba'] != last_lba or se['current_lba'] != last_lba or se['backup_lba'] != 1:
            report('gpt-mirror-lbas', 'GPT headers do not mirror each other: primary current/backup %d/%d, backup current/backup %d/%d, last LBA of '
                   'the image %d' % (pr['current_lba'], pr['backup_lba'], se['current_lba'], se['backup_lba'], last_lba), None)
        pp = [(p['index'], p['first_lba'], p['last_lba'], p['type_guid']) for p in pr['partitions']]
        sp = [(p['index'], p['first_lba'], p['last_lba'], p['type_guid']) for p in se['partitions']]
        if pp != sp:
            report('gpt-mirror-partitions', 'primary and backup GPT partition arrays differ: %s vs %s'
                   % ([x[:3] for x in pp], [x[:3] for x in sp]), None)
        if (pr['first_usable_lba'], pr['last_usable_lba']) != (se['first_usable_lba'], se['last_usable_lba']):
            report('gpt-mirror-usable', 'primary and backup GPT usable ranges differ', None)
        if pr['disk_guid'] != se['disk_guid'] or [p['part_guid'] for p in pr['partitions']] != [p['part_guid'] for p in se['partitions']] \
                or pr['parts_crc'] != se['parts_crc']:
            report('gpt-mirror-guids', 'the backup GPT does not describe the same disk / partitions as the primary: disk GUID %s vs %s, '
                   'partition GUIDs %s, array CRC %08x vs %08x' % (pr['disk_guid'].hex()[:16], se['disk_guid'].hex()[:16],
                                                                  'equal' if [p['part_guid'] for p in pr['partitions']] ==
                                                                  [p['part_guid'] for p in se['partitions']] else 'differ',
                                                                  pr['parts_crc'], se['parts_crc']), None)
        et = rd.eltorito
        if et is not None:
            efis = [e for sec in et['sections'] if sec.get('platform_id') == 0xef for e in sec['entries']]
            for k, e in enumerate(efis[:2]):
                want = (e['load_rba'] * 4, e['load_rba'] * 4 + e['sector_count'] - 1)
                part = [p for p in pr['partitions'] if p['index'] == k + 1]
                if not part or (part[0]['first_lba'], part[0]['last_lba']) != want:
                    report('gpt-partition-extent:%s' % ('efi' if k == 0 else 'mac'), 'GPT partition %d is %s, the El Torito %s image occupies LBAs %s'
                           % (k + 1, (part[0]['first_lba'], part[0]['last_lba']) if part else None, 'EFI' if k == 0 else 'Mac', want), None)
                mp = rd.hybrid['mbr']['partitions'][k + 1]
                if (mp['lba_start'], mp['num_sectors']) != (want[0], e['sector_count']):
                    report('mbr-partition-extent:%s' % ('efi' if k == 0 else 'mac'), 'MBR entry %d is (%d, %d), the El Torito image is (%d, %d)'
                           % (k + 2, mp['lba_start'], mp['num_sectors'], want[0], e['sector_count']), None)
    apm = rd.hybrid.get('apm') if rd.hybrid else None
    if apm:
        if any(a['block_count'] == 0 for a in apm[1:]):
            report('apm-entries-empty', 'Apple partition map entries describe empty partitions (start/count 0): %s'
                   % [(a['name'], a['start_block'], a['block_count']) for a in apm], None)
    img = b.img
    heads = hy.get('geometry_heads', 64)
    sects = hy.get('geometry_sectors', 32)
    cyl = heads * sects * 512
    m = mbr_decode(img)
    if m['sig'] != b'\x55\xaa':
        report('mbr-signature', 'MBR signature is %r' % m['sig'], None)
    act = [p for p in m['parts'] if p['active'] == 0x80]
    if len(act) != 1:
        report('mbr-active-count', '%d active partitions (exactly one expected): %s' % (len(act), [(p['active'], p['type']) for p in m['parts']]), None)
    space = rd.pvd['space_size'] * LBS
    if len(img) % cyl != 0 or len(img) < space:
        report('hybrid-padding', 'image length %d is not the volume (%d bytes) padded to a multiple of the cylinder size %d' % (len(img), space, cyl), None)
    total = len(img) // 512
    cc = len(img) // cyl
    if act and cc <= 1024:
        p = act[0]
        off = hy.get('part_offset', 0)
        if p['lba'] + p['count'] != total or p['lba'] != off:
            report('mbr-partition-size', 'active partition covers sectors [%d, %d), the padded image has %d' % (p['lba'], p['lba'] + p['count'], total), None)
        if (p['end_cyl'], p['end_head'], p['end_sect']) != ((cc - 1) & 0x3ff, heads - 1, sects):
            report('mbr-geometry', 'active partition ends at C/H/S %s, the padded image of %d cylinders ends at %s'
                   % ((p['end_cyl'], p['end_head'], p['end_sect']), cc, ((cc - 1) & 0x3ff, heads - 1, sects)), None)
    et = rd.eltorito
    if et is not None and m['rba'] != 4 * et['initial']['load_rba']:
        report('mbr-boot-address', 'MBR boot file address %d, four times the boot file sector is %d' % (m['rba'], 4 * et['initial']['load_rba']), None)
    plain = getattr(b, 'plain_img', None)
    if plain is not None:
        if img[32768:len(plain)] != plain[32768:]:
            d = sysimg.first_diff(img[32768:len(plain)], plain[32768:])
            report('hybrid-changes-iso', 'beyond the system area the hybrid image differs from the plain image at byte %s (%s)'
                   % (None if d is None else d + 32768, sysimg.attribute(rd, (d or 0) + 32768)), None)
