"""C19 -- recorded timestamps denote the instant they were made from.  DESIGN.md section 8.19."""
import calendar
import json
import os
import subprocess
import sys
from concurrent.futures import ThreadPoolExecutor

from harness import common
from harness.common import z, zlist

MODULE = 'C19'
THEOREMS = ['C19_offset', 'C19_decode_dr', 'C19_decode_vd', 'C19_vd_zero_is_unspecified', 'C19_decode_udf',
            'C19_udf_original_refuted', 'C19_nonvacuous']
T_MAX = 4102444800

QUICK_ZONES = ['UTC', 'Asia/Kolkata', 'Asia/Kathmandu', 'Australia/Sydney', 'Australia/Lord_Howe',
               'Australia/Adelaide', 'Australia/Eucla', 'America/New_York', 'America/St_Johns',
               'America/Los_Angeles', 'America/Sao_Paulo', 'Europe/London', 'Europe/Berlin', 'Europe/Moscow',
               'Pacific/Kiritimati', 'Pacific/Chatham', 'Pacific/Apia', 'Pacific/Pago_Pago', 'Etc/GMT+12',
               'Etc/GMT-14', 'Asia/Tehran', 'Asia/Kabul', 'Asia/Yangon', 'Africa/Cairo', 'Africa/Casablanca',
               'Atlantic/Azores', 'Antarctica/Troll', 'Asia/Tokyo', 'Asia/Pyongyang', 'America/Caracas',
               '<+0530>-5:30', '<-0930>9:30', '<+1245>-12:45', '<+14>-14', '<-12>12',
               'XST-1XDT,M3.5.0,M10.5.0', 'YST11YDT,M10.1.0/2,M4.1.0/3', 'Pacific/Marquesas',
               'Asia/Colombo', 'America/Havana']


def all_zones():
    zs = []
    base = '/usr/share/zoneinfo'
    for root, dirs, files in os.walk(base):
        dirs.sort()
        if any(p in root for p in ('/posix', '/right')):
            continue
        for f in sorted(files):
            p = os.path.join(root, f)
            try:
                with open(p, 'rb') as fp:
                    if fp.read(4) != b'TZif':
                        continue
            except OSError:
                continue
            zs.append(os.path.relpath(p, base))
    return zs


# ------------------------------------------------------------------ worker (runs with PYTHONPATH=/repo)
def worker(zones, seed, per_zone):
    import random
    import time
    sys.path.insert(0, common.REPO)
    from pycdlib import dates, udf, rockridge
    out = []
    rng = random.Random(seed)
    fixed = []
    for y in (1970, 1971, 1999, 2000, 2001, 2024, 2038, 2039, 2098, 2099):
        b = calendar.timegm((y, 12, 31, 23, 59, 59))
        fixed += [b - 86400, b - 50400, b - 43200, b - 3600, b - 1, b, b + 1, b + 3600, b + 43200, b + 50400]
        lp = calendar.timegm((y, 2, 28, 23, 59, 59))
        fixed += [lp, lp + 1, lp + 86400, lp + 86401]
    fixed = [t for t in fixed if 0 <= t < T_MAX] + [0, 1, T_MAX - 1, 1000000000, 2147483647, 2147483648]
    for zone in zones:
        os.environ['TZ'] = zone
        time.tzset()

        def off_at(t):
            lt = time.localtime(t)
            return calendar.timegm(lt[:6]) - t, lt
        instants = list(fixed)
        # DST transitions: scan by 14 days, bisect to the second
        prev_t, (prev_off, _) = 0, off_at(0)
        t = 0
        trans = []
        step = 14 * 86400
        while t < T_MAX and len(trans) < 400:
            t2 = min(t + step, T_MAX - 1)
            o2, _ = off_at(t2)
            if o2 != prev_off:
                lo, hi = t, t2
                while hi - lo > 1:
                    mid = (lo + hi) // 2
                    if off_at(mid)[0] == prev_off:
                        lo = mid
                    else:
                        hi = mid
                trans.append(hi)
                prev_off = o2
            if t2 == T_MAX - 1:
                break
            t = t2
        rng.shuffle(trans)
        for tr in trans[:60]:
            instants += [tr - 1, tr, tr + 1, tr - 3600, tr + 3600]
        while len(instants) < per_zone:
            instants.append(rng.randrange(0, T_MAX))
        for t in instants:
            if not (0 <= t < T_MAX):
                continue
            off, lt = off_at(t)
            rec = {'zone': zone, 't': t, 'off': off, 'gmtoff_ok': getattr(lt, 'tm_gmtoff', off) == off}
            if off % 900 != 0 or not (-48 <= off // 900 <= 56):
                rec['skip'] = True
                out.append(rec)
                continue
            try:
                d = dates.DirectoryRecordDate()
                d.new(float(t))
                rec['dr'] = list(d.record())
                d2 = dates.DirectoryRecordDate()
                d2.parse(d.record())
                rec['dr_rt'] = list(d2.record())
                v = dates.VolumeDescriptorDate()
                v.new(float(t))
                rec['vd'] = list(v.record())
                v2 = dates.VolumeDescriptorDate()
                v2.parse(v.record())
                rec['vd_rt'] = list(v2.record())
                u = udf.UDFTimestamp()
                u.new(float(t))
                rec['udf'] = list(u.record())
                u2 = udf.UDFTimestamp()
                u2.parse(u.record())
                rec['udf_rt'] = list(u2.record())
                tf = rockridge.RRTFRecord()
                tf.new(0x0e, float(t))
                rec['tf'] = list(tf.record())
            except Exception as e:  # noqa
                rec['exc'] = repr(e)
            out.append(rec)
    return out


def s8(b):
    return b - 256 if b >= 128 else b


def decode_dr(b):
    return calendar.timegm((b[0] + 1900, b[1], b[2], b[3], b[4], b[5])) - 900 * s8(b[6])


def decode_vd(b):
    s = bytes(b[:14]).decode('ascii')
    return calendar.timegm((int(s[0:4]), int(s[4:6]), int(s[6:8]), int(s[8:10]), int(s[10:12]), int(s[12:14]))) \
        - 900 * s8(b[16])


def decode_udf(b):
    tz = ((b[1] & 0x0f) << 8) | b[0]
    if tz & 0x800:
        tz -= 0x1000
    year = b[2] | (b[3] << 8)
    return calendar.timegm((year, b[4], b[5], b[6], b[7], b[8])) - 60 * tz


def offclass(off):
    return 'zero-offset' if off == 0 else 'nonzero-offset'


def run(ctx):
    common.proof_stage(ctx, MODULE, THEOREMS, extra_targets=['theories/Model/DatesCases.vo'])
    zones = QUICK_ZONES if ctx.tier == 'quick' else sorted(set(all_zones() + QUICK_ZONES))
    per_zone = 300 if ctx.tier == 'quick' else 420
    nproc = 8 if ctx.tier == 'quick' else 16
    chunks = [zones[i::nproc] for i in range(nproc)]
    chunks = [c for c in chunks if c]

    def spawn(ix):
        env = dict(os.environ)
        env['PYTHONPATH'] = common.REPO + ':' + common.VERIF
        p = subprocess.run([common.PY, '-m', 'harness.props.c19', '--worker', json.dumps(chunks[ix]),
                            str(ctx.seed * 1000 + ix), str(per_zone)], stdout=subprocess.PIPE,
                           stderr=subprocess.PIPE, env=env, cwd=common.VERIF, timeout=3000)
        if p.returncode != 0:
            raise RuntimeError('C19 worker failed: ' + p.stderr.decode()[-2000:])
        return json.loads(p.stdout.decode())
    recs = []
    with ThreadPoolExecutor(max_workers=nproc) as ex:
        for r in ex.map(spawn, range(len(chunks))):
            recs += r
    cases = []
    skipped = 0
    for r in recs:
        ctx.count('zone_instants')
        if r.get('skip'):
            skipped += 1
            continue
        t, off = r['t'], r['off']
        q = off // 900
        nontrivial = off != 0
        ctx.case((t, off), nontrivial)
        ctx.count('q=%+d' % q)
        if not r['gmtoff_ok']:
            ctx.violation('harness:localtime-hypothesis', 'localtime(t) is not gmtime(t+off) for zone %s t=%d'
                          % (r['zone'], t), r, concrete=False)
        if 'exc' in r:
            ctx.violation('date:exception:' + r['exc'].split('(')[0], 'C19: creating/recording a timestamp raised %s '
                          '(TZ=%s, t=%d)' % (r['exc'], r['zone'], t), r)
            continue
        # the property, evaluated on the implementation's bytes by an independent decoder
        for cls, dec in (('dr', decode_dr), ('vd', decode_vd), ('udf', decode_udf)):
            if cls == 'vd' and t == 0:
                # VolumeDescriptorDate.new(0.0) is documented to mean "date not specified"
                if bytes(r['vd']) != b'0' * 16 + b'\x00':
                    ctx.violation('date:vd:zero-sentinel', 'C19: VolumeDescriptorDate.new(0.0) is not the '
                                  'documented unspecified date', r)
                continue
            try:
                got = dec(r[cls])
            except Exception as e:
                got = repr(e)
            if got != t:
                ctx.violation('date:%s:decode:%s' % (cls, offclass(off)),
                              'C19: %s timestamp made from t=%d under TZ=%s (offset %+d s) decodes to %s'
                              % (cls, t, r['zone'], off, got), r)
            if r[cls + '_rt'] != r[cls]:
                ctx.violation('date:%s:reparse' % cls, 'C19: parse then record changes the %s timestamp bytes '
                              '(TZ=%s, t=%d)' % (cls, r['zone'], t), r)
        tf = r['tf']
        if not (tf[:5] == [ord('T'), ord('F'), 26, 1, 0x0e] and tf[5:12] == r['dr'] and tf[12:19] == r['dr']
                and tf[19:26] == r['dr']):
            ctx.violation('date:tf:payload', 'C19: Rock Ridge TF entry does not carry the 7-byte dates (TZ=%s, t=%d)'
                          % (r['zone'], t), r)
        cases.append(r)
    ctx.count('skipped_offset_not_multiple_of_15min', skipped)
    for r in cases[:2] + [c for c in cases if c['off'] % 3600 != 0][:2]:
        ctx.sample({k: r[k] for k in ('zone', 't', 'off', 'dr', 'udf')})
    # model vs implementation
    shard = 1500
    chs = [cases[i:i + shard] for i in range(0, len(cases), shard)]

    def text(cs):
        lines = ['From Coq Require Import ZArith List.', 'From PV.Model Require Import Dates DatesCases.',
                 'Import ListNotations.', 'Local Open Scope Z_scope.', 'Definition cases : list dcase := [']
        lines.append(';\n'.join('{| d_t := %s; d_off := %s; d_dr := %s; d_vd := %s; d_udf := %s |}'
                                % (z(r['t']), z(r['off']), zlist(r['dr']), zlist(r['vd']), zlist(r['udf']))
                                for r in cs))
        lines.append('].')
        lines.append('Eval vm_compute in bad_dcases cases.')
        return '\n'.join(lines) + '\n'

    def do(ix):
        rc, out = common.coqc_text('C19cases_%d' % ix, text(chs[ix]), timeout=900)
        return ix, rc, out
    dis = 0
    with ThreadPoolExecutor(max_workers=8) as ex:
        for ix, rc, out in ex.map(do, range(len(chs))):
            bad = common.parse_coq_list_of_nat(out) if rc == 0 else None
            if bad is None:
                ctx.broken.append({'name': 'correspondence:DatesCases', 'summary': 'model evaluation failed: ' + out[-500:]})
                continue
            ctx.cov['traces_validated_against_impl'] += len(chs[ix]) - len(bad)
            for b in bad[:3]:
                dis += 1
                ctx.broken.append({'name': 'correspondence:Dates', 'summary':
                                   'model and implementation record() bytes differ', 'case': chs[ix][b]})
            dis += max(0, len(bad) - 3)
    ctx.cov['correspondences']['Dates.{dr,vd,udf} record bytes vs pycdlib'] = {'cases': len(cases), 'disagreements': dis}
    ctx.cov['zones'] = len(zones)
    ctx.cov['rule'] = ('(zone, instant) pairs: %d TZ settings x ~%d instants each (year ends, leap days, every DST '
                       'transition of the zone found by bisection +-1s/+-1h, random); non-trivial = zone offset '
                       '!= 0 at that instant; distinct by (t, offset)' % (len(zones), per_zone))
    ctx.cov['trusted_base'] = [
        'Coq 8.16.1 kernel, vm_compute (47487-day calendar sweep, 105-offset sweep, witnesses)',
        'translator: utils.gmtoffset_from_tm is the generated Gen.GenFun.gmtoffset_from_tm',
        'hand model Model/Dates.v of the date classes new/record/parse, tied by byte comparison on this run',
        'libc localtime modelled as gmtime(t + off); validated per instant (tm_gmtoff == timegm(localtime)-t)',
        'harness/props/c19.py independent decoders (calendar.timegm)']
    ctx.assumptions = ['instants 1970-01-01..2099-12-31; offsets multiples of 15 min in -12h..+14h '
                       '(others are outside the property and counted as skipped)',
                       'float seconds are whole numbers (sub-second parts are not recorded by the library)']


if __name__ == '__main__':
    if len(sys.argv) > 1 and sys.argv[1] == '--worker':
        res = worker(json.loads(sys.argv[2]), int(sys.argv[3]), int(sys.argv[4]))
        sys.stdout.write(json.dumps(res))
