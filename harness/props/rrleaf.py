"""Tie of Model/RREntries.v + Model/RRWalk.v (byte-level model of the Rock Ridge System Use entry
codecs and of the walker/recorder of rockridge.py) to /repo: the System Use areas of every record
of generated Rock Ridge images (directory-record part and continuation-area part) are walked and
re-recorded by the model in Coq (check_su_area), and parsed by the model's rr_parse with the
inferred version and the bytes record_dr_entries() gives afterwards compared (check_parse_case)."""
from harness import common
from harness.common import z, zlist

AREAS = {}       # bytes -> (is_first_dir_record_of_root, kind)


def collect(b):
    """System Use areas of the writing object of a built image"""
    iso = getattr(b, 'iso', None)
    if iso is None or len(AREAS) > 6000:
        return
    try:
        root = iso.pvd.root_directory_record()
    except Exception:
        return
    stack = [root]
    seen = set()
    while stack:
        d = stack.pop()
        if id(d) in seen:
            continue
        seen.add(id(d))
        for k, c in enumerate(d.children):
            rr = c.rock_ridge
            if rr is not None:
                try:
                    a = rr.record_dr_entries()
                    if a:
                        AREAS.setdefault(bytes(a), (d is root and k == 0, 'dr'))
                    ce = rr.record_ce_entries()
                    if ce:
                        AREAS.setdefault(bytes(ce), (False, 'ce'))
                except Exception:
                    pass
            if c.isdir and k >= 2:
                stack.append(c)


def flush(ctx):
    if not AREAS:
        return
    from pycdlib import rockridge
    limit = 250 if ctx.tier == 'quick' else 3000
    items = sorted(AREAS.items(), key=lambda kv: (len(kv[0]), kv[0]))
    step = max(1, len(items) // limit)
    items = items[::step][:limit]
    texts = [zlist(a) for a, _ in items]
    cases = [{'kind': v[1], 'first': v[0], 'bytes': a[:80].hex()} for a, v in items]
    for a, v in items:
        ctx.case(('su', v[1], len(a), a[:2]), True)
    bad, err = common.coq_bad_cases('rrsu', ['From PV.Model Require Import RREntries RRWalk.'], [], 'list Z', texts, 'bad_su_areas 0', shard=50)
    name = 'RRWalk.walk_su + re-record vs System Use areas recorded by pycdlib'
    if bad is None:
        ctx.broken.append({'name': 'correspondence:' + name, 'summary': 'model evaluation failed: ' + err})
    else:
        ctx.cov['traces_validated_against_impl'] += len(texts) - len(bad)
        ctx.cov['correspondences'][name] = {'cases': len(texts), 'disagreements': len(bad)}
        for i in bad[:2]:
            ctx.broken.append({'name': 'correspondence:' + name, 'summary': 'a System Use area written by pycdlib is not reproduced by the model '
                                                                             '(%d of %d areas)' % (len(bad), len(texts)), 'case': cases[i]})
    # the parser: model vs RockRidge.parse on the directory-record parts
    texts2, cases2 = [], []
    code = {'1.09': 109, '1.10': 110, '1.12': 112}
    for a, v in items:
        if v[1] != 'dr':
            continue
        rr = rockridge.RockRidge()
        try:
            rr.parse(a, v[0], 0, False, b'X')
            vc = code.get(rr.rr_version, 0)
            out = rr.record_dr_entries()
        except Exception:
            vc, out = 0, b''
        texts2.append('(%s, %s, (%s, %s))' % (zlist(a), 'true' if v[0] else 'false', z(vc), zlist(out)))
        cases2.append({'first': v[0], 'bytes': a[:80].hex(), 'version': vc})
    bad, err = common.coq_bad_cases('rrparse', ['From PV.Model Require Import RREntries RRWalk.'], [], '(list Z * bool * (Z * list Z))', texts2,
                                    'bad_parse_cases 0', shard=50)
    name = 'RRWalk.rr_parse/record_entries vs RockRidge.parse/record_dr_entries'
    if bad is None:
        ctx.broken.append({'name': 'correspondence:' + name, 'summary': 'model evaluation failed: ' + err})
    else:
        ctx.cov['traces_validated_against_impl'] += len(texts2) - len(bad)
        ctx.cov['correspondences'][name] = {'cases': len(texts2), 'disagreements': len(bad)}
        for i in bad[:2]:
            ctx.broken.append({'name': 'correspondence:' + name, 'summary': 'the Rock Ridge parser model and pycdlib disagree (%d of %d areas)'
                                                                             % (len(bad), len(texts2)), 'case': cases2[i]})
    AREAS.clear()
