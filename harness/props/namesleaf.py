"""Leaf-level tie of Model/LongNames.v to rockridge.py and to Python's UTF-16 codec: the methods
RockRidge._new_symlink / _add_name are driven directly (fresh RockRidge object with a CE record, as
RockRidge.new() does on its second pass) for targets / names of every length around the record and
component boundaries, the SL / NM records are recorded, parsed back and reassembled by pycdlib, and
everything is compared with the model inside Coq.  The property oracle (reassembled target == given
target, joined name == given name) is evaluated on the implementation side for every case."""
from harness import common


def L(b):
    return '[' + ';'.join(str(x) for x in b) + ']'


def sl_case(target, curr_dr_len):
    from pycdlib import rockridge as R
    rr = R.RockRidge()
    rr.dr_entries.ce_record = R.RRCERecord()
    rr.dr_entries.ce_record.new()
    rr._new_symlink(target, curr_dr_len)
    recs = rr.dr_entries.sl_records + rr.ce_entries.sl_records
    r1 = 254 - curr_dr_len - 5 if curr_dr_len + 8 < 254 else 250
    parsed, byts = [], []
    for sl in recs:
        b = sl.record()
        byts.append(b)
        p = R.RRSLRecord()
        p.parse(b)
        parsed.append(p)
    rr2 = R.RockRidge()
    rr2._initialized = True
    rr2.ce_entries.sl_records = parsed
    rb = rr2.symlink_path()
    prs = '[' + ';'.join('(%d,[%s])' % (p.flags, ';'.join('(%d,%s)' % (c.flags, L(c.data)) for c in p.symlink_components))
                         for p in parsed) + ']'
    return '(((%d,%s),%s),(%s,[%s]))' % (r1, L(target), prs, L(rb), ';'.join(L(b) for b in byts)), rb


def nm_case(name, curr_dr_len):
    from pycdlib import rockridge as R
    rr = R.RockRidge()
    rr.dr_entries.ce_record = R.RRCERecord()
    rr.dr_entries.ce_record.new()
    rr._add_name(name, curr_dr_len)
    recs = rr.dr_entries.nm_records + rr.ce_entries.nm_records
    room = max(254 - curr_dr_len - 5, 0)
    joined = b''.join(n.posix_name for n in recs)
    flags_ok = all((n.posix_name_flags & 1) == (0 if i == len(recs) - 1 else 1) for i, n in enumerate(recs))
    return '((%d,%s),[%s])' % (room, L(name), ';'.join('(%d,%s)' % (n.posix_name_flags, L(n.posix_name)) for n in recs)), \
        joined == name and flags_ok


def target_class(t):
    pieces = t.split(b'/')
    if t == b'/':
        return 'root-only'
    if any(p.startswith(b'.') and p not in (b'.', b'..') for p in pieces):
        return 'piece-starting-with-dot'
    return 'plain'


def rand_piece(rng):
    k = rng.random()
    if k < 0.1:
        return b''
    if k < 0.2:
        return b'.'
    if k < 0.3:
        return b'..'
    n = rng.choice([1, 1, 2, 3, 5, 10, 40, 100, 127, 128, 129, 130, 131, 247, 248, 249, 250, 251, 300])
    alphabet = b'ab.' if rng.random() < 0.3 else b'xyz'
    s = bytes(rng.choice(alphabet) for _ in range(n))
    if rng.random() < 0.15:
        s = b'.' + s
    return s


def rand_target(rng):
    n = rng.choice([1, 1, 2, 2, 3, 4, 6, 10, 40])
    t = b'/'.join(rand_piece(rng) for _ in range(n))
    if rng.random() < 0.3:
        t = b'/' + t
    return t


def _eval(ctx, name, prefix, typ, texts, fn):
    defs = ['Definition flag1 {A} (bad : list A -> list A) (c : A) : nat := match bad [c] with [] => 0%nat | _ => 1%nat end.']
    res, err = common.coq_map_cases(prefix, ['From PV.Model Require Import LongNames.'], defs, typ, texts,
                                    'map (flag1 %s)' % fn, shard=120)
    if res is None:
        ctx.broken.append({'name': 'correspondence:' + name, 'summary': 'model evaluation failed: ' + err})
        return
    bad = [i for i, r in enumerate(res) if r]
    ctx.cov['traces_validated_against_impl'] += len(texts) - len(bad)
    ctx.cov['correspondences'][name] = {'cases': len(texts), 'disagreements': len(bad)}
    for i in bad[:2]:
        ctx.broken.append({'name': 'correspondence:' + name,
                           'summary': 'rockridge.py and Model/LongNames.v disagree (%d of %d cases)' % (len(bad), len(texts)),
                           'coq_case': texts[i][:1200]})


def leaf_correspondence(ctx, pid='C08', symlinks=True, names=True, utf16=False):
    rng = ctx.rng
    quick = ctx.tier == 'quick'
    if symlinks:
        cases = []
        fixed = [(b'a/.b', 241), (b'/', 100), (b'a' * 129 + b'/.bbb/' + b'c' * 100, 113), (b'/'.join([b'a'] * 40), 85)]
        work = list(fixed)
        # every first-component length around the boundaries, for several record fill levels
        for d in (85, 113, 120, 124, 200, 240, 245, 246, 250):
            r1 = 254 - d - 5 if d + 8 < 254 else 250
            for L1 in range(max(1, r1 - 6), r1 + 4):
                work.append((b'a' * L1 + b'/b', d))
        for _ in range(150 if quick else 2500):
            t = rand_target(rng)
            while t == b'':
                t = rand_target(rng)
            work.append((t, rng.choice([85, 113, 100, 200, 230, 240, 241, 242, 243, 244, 245, 246, 247, 250, 254, rng.randrange(34, 255)])))
        texts = []
        for t, d in work:
            try:
                txt, rb = sl_case(t, d)
            except Exception as e:
                ctx.violation('%s:symlink:exception:%s' % (pid.lower(), type(e).__name__),
                              '%s: RockRidge._new_symlink / record / parse raises %s for a %d-byte target' % (pid, type(e).__name__, len(t)),
                              {'target': t.decode('latin-1'), 'curr_dr_len': d})
                continue
            texts.append(txt)
            ctx.case(('sl', t, d), len(t) > 3)
            ctx.count('sl:' + target_class(t))
            if rb != t:
                no_ce = False
                ctx.violation('%s:symlink-target-not-recovered:%s' % (pid.lower(), target_class(t)),
                              '%s: a symlink target of %d bytes (class %s, %d bytes already in the record) is recorded so that '
                              'reassembly gives %r... instead of %r...' % (pid, len(t), target_class(t), d, rb[:40], t[:40]),
                              {'target': t.decode('latin-1'), 'curr_dr_len': d, 'read_back': rb.decode('latin-1')})
        _eval(ctx, 'LongNames.sl_records/sl_reassemble vs RockRidge._new_symlink + RRSLRecord.record/parse + symlink_path',
              'c08sl', 'sl_case', texts, 'bad_sl_cases')
    if names:
        texts = []
        for i in range(150 if quick else 2000):
            n = rng.choice([0, 1, 2, 5, 100, 200, 249, 250, 251, 300, 499, 500, 501, 750, 1000, rng.randrange(0, 1200)])
            name = bytes(rng.randrange(1, 256) for _ in range(n))
            d = rng.choice([43, 100, 200, 248, 249, 250, 254, 260, rng.randrange(34, 255)])
            txt, ok = nm_case(name, d)
            texts.append(txt)
            ctx.case(('nm', name, d), n > 0)
            if not ok:
                ctx.violation('%s:name-not-recovered' % pid.lower(), '%s: a Rock Ridge name of %d bytes is split into NM entries whose '
                              'concatenation / CONTINUE flags do not give the name back' % (pid, n), {'name_len': n, 'curr_dr_len': d})
        _eval(ctx, 'LongNames.nm_split vs RockRidge._add_name', 'c08nm', '((Z * list Z) * list (Z * list Z))', texts, 'bad_nm_cases')
    if utf16:
        texts = []
        fixed = [[0x4e2d] * 22, [0xD7FF, 0xE000, 0xFFFF, 0x10000, 0x10FFFF, 0, 127, 128, 2047, 2048]]
        for k in range(150 if quick else 3000):
            n = rng.choice([0, 1, 2, 5, 22, 32, 33, 64, 65])
            cps = []
            for _ in range(n):
                r = rng.random()
                if r < 0.3:
                    c = rng.randrange(0, 128)
                elif r < 0.5:
                    c = rng.randrange(128, 2048)
                elif r < 0.8:
                    c = rng.randrange(2048, 65536)
                    while 0xD800 <= c <= 0xDFFF:
                        c = rng.randrange(2048, 65536)
                else:
                    c = rng.randrange(65536, 0x110000)
                cps.append(c)
            fixed.append(cps)
        for cps in fixed:
            s = ''.join(chr(c) for c in cps)
            texts.append('(%s,(%s,%d))' % (L(cps), L(s.encode('utf-16_be')), len(s.encode('utf-8'))))
            ctx.case(('utf16', tuple(cps)), len(cps) > 0)
        _eval(ctx, "LongNames.utf16be_enc/utf8_len vs str.encode('utf-16_be') / len(encode('utf-8'))", 'c09u16',
              '(list Z * (list Z * Z))', texts, 'bad_utf16_cases')
