"""Tie of Model/Account.v (plain-ISO9660 space accounting state machine: per-edit deltas of
add_fp / add_directory / rm_file / rm_directory against the from-scratch extent assignment) to
/repo: random edit histories, valid and invalid, are run on the real library; after EVERY operation
the accepted flag, pvd.space_size, path_tbl_size, path_table_num_extents, the sum of directory
lengths, the number of inodes and the end of the extents that _reshuffle_extents assigns are
recorded, and Coq evaluates Account.run_probe / run_flags / run_ends on the same operations."""
import importlib.util
import os

from harness import common

_spec = importlib.util.spec_from_file_location('account_traces', os.path.join(common.VERIF, 'tools', 'account_traces.py'))

DEFS = [
    'Fixpoint zl_eqb (a b : list Z) : bool := match a, b with [], [] => true | x :: a, y :: b => (x =? y) && zl_eqb a b | _, _ => false end.',
    'Fixpoint zll_eqb (a b : list (list Z)) : bool := match a, b with [], [] => true | x :: a, y :: b => zl_eqb x y && zll_eqb a b | _, _ => false end.',
    'Fixpoint bl_eqb (a b : list bool) : bool := match a, b with [], [] => true | x :: a, y :: b => Bool.eqb x y && bl_eqb a b | _, _ => false end.',
    'Definition acc_ok (c : list op * list (list Z) * list bool * list Z) : bool := '
    "let '(ops, probes, flags, ends) := c in "
    'zll_eqb (run_probe ops) probes && bl_eqb (run_flags ops) flags && zl_eqb (map snd (run_ends ops)) ends && '
    'forallb (fun p => fst p =? snd p) (run_ends ops).',
    'Fixpoint acc_bad (k : nat) (cs : list (list op * list (list Z) * list bool * list Z)) : list nat := '
    'match cs with [] => [] | c :: r => if acc_ok c then acc_bad (S k) r else k :: acc_bad (S k) r end.',
]


def correspondence(ctx):
    at = importlib.util.module_from_spec(_spec)
    _spec.loader.exec_module(at)
    quick = ctx.tier == 'quick'
    specs = ['scenario', 'ptr_scenario'] + ['%d:%d' % (ctx.rng.randrange(1, 10 ** 6), n)
                                            for n in ([25, 30, 40, 60, 60, 90, 120, 150] * (1 if quick else 10))]
    texts, cases = [], []
    nops = nacc = 0
    for sp in specs:
        run = at.Runner()
        if sp == 'scenario':
            at.scenario(run)
        elif sp == 'ptr_scenario':
            at.ptr_scenario(run)
        else:
            seed, n = sp.split(':')
            at.random_history(run, int(seed), int(n))
        texts.append('([%s], [%s], [%s], %s)' % ('; '.join(run.ops), '; '.join(at.coq_bytes(p) for p in run.probes),
                                                 '; '.join('true' if f else 'false' for f in run.flags), at.coq_bytes(run.ends)))
        cases.append({'spec': sp, 'ops': run.ops, 'probes': run.probes, 'flags': run.flags, 'ends': run.ends})
        nops += len(run.ops)
        nacc += sum(run.flags)
        for o, f in zip(run.ops, run.flags):
            ctx.case(('acc', o.split(' ')[0], f, len(run.ops) // 20), True)
        slack = [(i, p[0], e) for i, (p, e) in enumerate(zip(run.probes, run.ends)) if p[0] != e]
        if slack:
            i, sp_, e = slack[0]
            ctx.violation('c04:account:space-vs-layout-end', 'after operation %d (%s) of a plain ISO9660 history pvd.space_size is %d '
                          'but the extents assigned by _reshuffle_extents end at %d' % (i, run.ops[i], sp_, e),
                          {'ops': run.ops[:i + 1], 'space': sp_, 'end': e})
    ctx.count('account:histories', len(specs))
    ctx.count('account:operations', nops)
    ctx.count('account:accepted', nacc)
    name = 'Account.run_probe/run_flags/run_ends vs pycdlib after every edit of a plain ISO9660 history'
    bad, err = common.coq_bad_cases('account', ['From PV.Model Require Import Account.'], DEFS,
                                    'list op * list (list Z) * list bool * list Z', texts, 'acc_bad 0', shard=4)
    if bad is None:
        ctx.broken.append({'name': 'correspondence:' + name, 'summary': 'model evaluation failed: ' + err})
        ctx.cov['correspondences'][name] = {'cases': len(cases), 'disagreements': 'evaluation failed'}
        return None
    ctx.cov['traces_validated_against_impl'] += len(cases) - len(bad)
    ctx.cov['correspondences'][name] = {'cases': len(cases), 'operations': nops, 'accepted': nacc, 'disagreements': len(bad)}
    for i in bad[:3]:
        ctx.broken.append({'name': 'correspondence:' + name,
                           'summary': 'the space accounting model and pycdlib disagree on history %s (%d operations)'
                                      % (cases[i]['spec'], len(cases[i]['ops'])), 'case': cases[i]})
    return bad
