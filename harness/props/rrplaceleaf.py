"""Tie of Model/RRPlace.v (which System Use entries RockRidge.new creates and whether each goes into the directory
record or into the continuation area, for every name / symlink target / version / XA / relocation flag) to /repo: a
boundary grid of RockRidge.new calls; the bytes of record_dr_entries() and record_ce_entries() and the returned record
length are compared with the model evaluated by Coq."""
import importlib.util
import os

from harness import common

_spec = importlib.util.spec_from_file_location('rrplace_cases', os.path.join(common.VERIF, 'tools', 'rrplace_cases.py'))


def leaf_correspondence(ctx):
    mod = importlib.util.module_from_spec(_spec)
    _spec.loader.exec_module(mod)
    cs = mod.cases()
    if ctx.tier == 'quick':
        step = max(1, len(cs) // 500)
        keep = cs[ctx.rng.randrange(step)::step]
        # the two cases that carry the known symlink findings and the root records are always in
        keep += [c for c in cs if c[4] in (b'/' * 13, b'/.b')][:6] + [c for c in cs if c[1]][:6]
        dense = [c for c in cs if (c[2] or b'')[:1] == b'q']
        cs = keep + ctx.rng.sample(dense, min(len(dense), 400))
    texts, kept = [], []
    for c in cs:
        try:
            texts.append(mod.render(c))
            kept.append(c)
        except Exception as e:      # the case tool asserts the library's own consistency (CE length = bytes recorded, ...)
            ctx.broken.append({'name': 'correspondence:RRPlace.place vs RockRidge.new', 'summary': 'RockRidge.new is inconsistent with itself: %s: %s'
                                                                                                   % (type(e).__name__, str(e)[:200]),
                               'case': {'version': c[0], 'first': c[1], 'name_len': len(c[2] or b''), 'mode': c[3],
                                        'target': (c[4] or b'')[:60].decode('latin-1'), 'flags': list(c[5]), 'skip': c[6], 'curr_dr_len': c[7]}})
            if len(ctx.broken) > 5:
                break
    cs = kept
    for c in cs:
        ctx.case(('rrplace', c[0], c[1], len(c[2] or b''), len(c[4] or b''), c[5], c[6], c[7]), True)
    bad, err = common.coq_bad_cases('rrplace', ['From PV.Model Require Import RRPlace.'], [], '(place_tuple * list Z * list Z * Z)', texts,
                                    'bad_place_cases 0', shard=120)
    name = 'RRPlace.place vs RockRidge.new (record_dr_entries / record_ce_entries / returned length)'
    if bad is None:
        ctx.broken.append({'name': 'correspondence:' + name, 'summary': 'model evaluation failed: ' + err})
        ctx.cov['correspondences'][name] = {'cases': len(cs), 'disagreements': 'evaluation failed'}
        return
    ctx.cov['traces_validated_against_impl'] += len(cs) - len(bad)
    ctx.cov['correspondences'][name] = {'cases': len(cs), 'disagreements': len(bad)}
    for i in bad[:3]:
        c = cs[i]
        ctx.broken.append({'name': 'correspondence:' + name, 'summary': 'the entry placement model and RockRidge.new disagree (%d of %d cases)'
                                                                         % (len(bad), len(cs)),
                           'case': {'version': c[0], 'first': c[1], 'name_len': len(c[2] or b''), 'mode': c[3],
                                    'target': (c[4] or b'')[:60].decode('latin-1'), 'flags': list(c[5]), 'skip': c[6], 'curr_dr_len': c[7]}})
