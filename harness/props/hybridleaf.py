"""Tie of Model/Hybrid.v (byte-level model of isohybrid.py: MBR, geometry/padding, GPT header and
partition entries, whole GPT.record()) to /repo: IsoHybrid / GPT objects are built directly with
boundary-dense parameters and their record() bytes compared with the model evaluated by Coq."""
import random as _random
import uuid as _uuid

from harness import common
from harness.common import z, zlist


def _eval(ctx, name, prefix, typ, texts, fn, cases, shard=100):
    bad, err = common.coq_bad_cases(prefix, ['From PV.Model Require Import Hybrid.'], [], typ, texts, fn, shard=shard)
    if bad is None:
        ctx.broken.append({'name': 'correspondence:' + name, 'summary': 'model evaluation failed: ' + err})
        ctx.cov['correspondences'][name] = {'cases': len(texts), 'disagreements': 'evaluation failed'}
        return
    ctx.cov['traces_validated_against_impl'] += len(texts) - len(bad)
    ctx.cov['correspondences'][name] = {'cases': len(texts), 'disagreements': len(bad)}
    for i in bad[:2]:
        ctx.broken.append({'name': 'correspondence:' + name, 'summary': 'Model/Hybrid.v and isohybrid.py disagree (%d of %d cases)'
                                                                         % (len(bad), len(texts)), 'case': cases[i]})


def leaf_correspondence(ctx):
    from pycdlib import isohybrid
    rng = ctx.rng
    quick = ctx.tier == 'quick'
    # ---- MBR
    texts, cases = [], []
    for _ in range(150 if quick else 2500):
        efi = rng.random() < 0.3
        mac = efi and rng.random() < 0.4
        pe = rng.choice([1, 1, 2, 3, 4, 0, 5])
        mbr_id = rng.randrange(1 << 32)
        po = rng.choice([0, 0, 16, 63, rng.randrange(0, 5000)])
        gs = rng.choice([32, 63, 1, 17, 0, 64, rng.randrange(1, 64)])
        gh = rng.choice([64, 255, 256, 1, 0, 257, rng.randrange(1, 257)])
        pt = 0 if mac else rng.choice([0x17, 0, 0x83, 0xef])
        if rng.random() < 0.05:
            pt = 0x17           # refused with mac
        rba = rng.choice([0, 26, rng.randrange(1 << 28)])
        efi_lba, efi_count, mac_lba, mac_count = (rng.randrange(1 << 20) for _ in range(4))
        cyl = max(gs, 1) * max(gh, 1) * 512
        iso_size = rng.choice([cyl * rng.randrange(1, 1100), cyl * rng.choice([1023, 1024, 1025]) + rng.choice([-2048, 0, 2048]),
                               2048 * rng.randrange(20, 1 << 20), 2048 * rng.randrange(20, 4000)])
        iso_size = max(iso_size, 2048 * 20)
        h = isohybrid.IsoHybrid()
        try:
            h.new(efi, mac, pe, mbr_id, po, gs, gh, pt)
            h.update_rba(rba)
            if efi:
                h.efi_lba, h.efi_count = efi_lba, efi_count
            if mac:
                h.mac_lba, h.mac_count = mac_lba, mac_count
            exp = h.record(iso_size)[:512]
            code = h.mbr
        except Exception:
            exp, code = b'', b''
        texts.append('((%s, %s, %s, %s, %s, %s, %s, %s, %s, %s, %s, %s, %s, %s, %s), %s)' % (
            z(int(efi)), z(int(mac)), z(pe), z(mbr_id), z(po), z(gs), z(gh), z(pt), z(rba), z(efi_lba), z(efi_count), z(mac_lba),
            z(mac_count), zlist(code), z(iso_size), zlist(exp)))
        cases.append({'efi': efi, 'mac': mac, 'part_entry': pe, 'part_offset': po, 'sectors': gs, 'heads': gh, 'part_type': pt,
                      'iso_size': iso_size, 'refused': not exp})
        ctx.case(('mbr', efi, mac, pe, gs, gh, bool(exp), iso_size // cyl > 1024), True)
    _eval(ctx, 'Hybrid.ih_record_mbr vs IsoHybrid.new/record', 'hybmbr', '(mbr_tuple * list Z)', texts, 'bad_mbr_cases 0', cases)
    # ---- padding
    texts, cases = [], []
    for _ in range(400 if quick else 6000):
        gs = rng.choice([32, 63, rng.randrange(1, 64)])
        gh = rng.choice([64, 255, 256, rng.randrange(1, 257)])
        cyl = gs * gh * 512
        iso_size = rng.choice([cyl * rng.randrange(1, 1100) + rng.choice([0, 2048, -2048, 512]), 2048 * rng.randrange(1, 1 << 21)])
        iso_size = max(iso_size, 2048)
        h = isohybrid.IsoHybrid()
        h.new(False, False, 1, 1, 0, gs, gh, 0x17)
        n = len(h.record_padding(iso_size))
        texts.append('(%s, %s, %s, %s)' % (z(iso_size), z(gh), z(gs), z(n)))
        cases.append({'iso_size': iso_size, 'heads': gh, 'sectors': gs, 'padding': n})
        ctx.case(('pad', gs, gh, iso_size % cyl == 0, iso_size // cyl >= 1024), True)
    _eval(ctx, 'translated _calc_cc padding vs IsoHybrid.record_padding', 'hybpad', '(Z * Z * Z * Z)', texts, 'bad_padding_cases 0', cases, shard=400)
    # ---- GPT header / partition entries
    texts, cases = [], []
    for _ in range(120 if quick else 2000):
        g = isohybrid.GPTHeader()
        cur, bak = rng.randrange(1 << 40), rng.randrange(1 << 40)
        g.new(rng.random() < 0.5)
        g.current_lba, g.backup_lba = cur, bak
        g.first_usable_lba, g.last_usable_lba = rng.randrange(1 << 30), rng.randrange(1 << 40)
        g.partition_entries_lba = rng.randrange(1 << 40)
        crc = rng.randrange(1 << 32)
        exp = g.record(crc)
        texts.append('((%s, %s, %s, %s, %s, %s, %s, %s, %s), %s)' % (
            z(g.current_lba), z(g.backup_lba), z(g.first_usable_lba), z(g.last_usable_lba), zlist(g.disk_guid.bytes),
            z(g.partition_entries_lba), z(g.num_parts), z(g.size_of_partition_entries), z(crc), zlist(exp)))
        cases.append({'current': cur, 'backup': bak})
        ctx.case(('gpthdr', cur % 7, bak % 7), True)
    _eval(ctx, 'Hybrid.ghdr_record (+ reader-side CRC verification) vs GPTHeader.record', 'hybgpt', '(ghdr_tuple * list Z)', texts,
          'bad_gpt_header_cases 0', cases, shard=60)
    texts, cases = [], []
    for i in range(120 if quick else 2000):
        p = isohybrid.GPTPartHeader()
        p.new(rng.random() < 0.6, rng.choice(['ISOHybrid ISO', 'ISOHybrid', 'x', '', 'A' * 36, 'EFI é']))
        p.first_lba, p.last_lba = rng.randrange(1 << 40), rng.randrange(1 << 40)
        try:
            exp = p.record()
        except Exception:
            exp = b''
        texts.append('((%s, %s, %s, %s, %s, %s), %s)' % (zlist(p.part_type_guid), zlist(p.part_guid.bytes), z(p.first_lba),
                                                         z(p.last_lba), zlist(p.attributes), zlist(p.name.encode('utf-16_le')), zlist(exp)))
        cases.append({'name': p.name, 'first': p.first_lba})
        ctx.case(('gptpart', p.name, i % 5), True)
    _eval(ctx, 'Hybrid.gpart_record vs GPTPartHeader.record', 'hybpart', '(gpart_tuple * list Z)', texts, 'bad_gpt_part_cases 0', cases, shard=60)
