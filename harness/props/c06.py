"""C06 -- lazy metadata is transparent: bytes depend only on the edits.  DESIGN.md section 8.6."""
from harness import common, reader, sysimg, syslevel, sysprops

MODULE = 'C06'
THEOREMS = ['C06_bytes_depend_only_on_edits', 'C06_final_image_is_from_scratch', 'C06_every_write_consistent',
            'C06_flag_hypothesis_necessary', 'C06_nonvacuous']
RECIPES = ['exact_fill', 'ptable_boundary', 'ce_gap_exact', 'deep_tree', 'udf_fid_cross', 'ce_second_block_release', 'symlink_ce_release', 'reloc_churn']
UNMARKED = ('set_hidden',)       # edits that neither flag nor influence the derived metadata
ACTS = ('force', 'get_record', 'list', 'walk', 'write', 'query_all')


def random_schedule(rng, n, density):
    sch = {}
    for i in range(n + 1):
        if rng.random() < density:
            sch[i] = [rng.choice(ACTS) for _ in range(rng.randrange(1, 3))]
    return sch


def flag_trace_case(cfg, ops, sizes, schedule, always):
    """run on the implementation, returning (coq acts, impl flags) -- refused edits are not acts"""
    iso = cfg.new(always_consistent=True) if always else cfg.new()
    acts, flags = [], []
    try:
        for i, op in enumerate(ops + [None]):
            for a in schedule.get(i, ()):
                sysimg.do_schedule(iso, a, cfg)
                acts.append({'force': 'Force bool', 'get_record': 'Query bool', 'list': 'Query bool', 'walk': 'Query bool',
                             'write': 'Write bool', 'query_all': 'Query bool'}[a])
                flags.append(bool(iso._needs_reshuffle))
            if op is None:
                break
            o = syslevel.apply_op(iso, op, sizes)
            if o != 'ok':
                continue
            acts.append('Edit bool %s' % ('false' if op['k'] in UNMARKED else 'true'))
            flags.append(bool(iso._needs_reshuffle))
    finally:
        iso.close()
    return acts, flags


DEFS = ['From PV.Properties Require Import C06.', 'From PV.Model Require Import Lazy.',
        'Fixpoint lbeq (a b : list bool) : bool := match a, b with [] , [] => true | x :: r, y :: s => Bool.eqb x y && lbeq r s | _, _ => false end.',
        'Fixpoint bad_from (k : nat) (cs : list (bool * list (act bool) * list bool)) : list nat := match cs with [] => [] '
        '| (m, a, f) :: r => if lbeq (flag_trace m a) f then bad_from (S k) r else k :: bad_from (S k) r end.']


def with_readds(rng, cfg, ops, sizes):
    """remove-then-re-add of the same top-level name, followed by an edit addressed by Rock Ridge path:
    exercises lookup caches that queries may have filled"""
    out = []
    nb = max([o.get('blob', 0) for o in ops] + [0]) + 100
    live_rr = {}
    for op in ops:
        out.append(op)
        if op['k'] == 'add_fp' and 'iso' in op and op['iso'].count('/') == 1 and 'rr' in op:
            live_rr[op['iso']] = op['rr']
        if op['k'] in ('rm_file', 'rm_link') and op.get('ns') == 'iso' and op['path'] in live_rr and rng.random() < 0.7:
            nb += 1
            sizes[nb] = 100
            rrn = live_rr[op['path']]
            out.append({'k': 'add_fp', 'blob': nb, 'size': 100, 'iso': op['path'], 'rr': rrn})
            out.append({'k': 'set_hidden', 'ns': 'rr', 'path': '/' + rrn, 'hidden': True})
    return out


def same_bytes_oracle(ctx, label, cfg, ops, sizes, n_sched, forced=None):
    """the property, directly: k schedules and both modes give byte-identical images"""
    rng = ctx.rng
    base = sysimg.build(cfg, ops, sizes)
    if base.fail is not None:
        return None            # not C06's business (C01)
    base.iso.close()
    for j in range(n_sched):
        always = (j % 2 == 1)
        sch = random_schedule(rng, len(ops), 0.25 if j else 0.0) if j != 1 else {}
        if forced is not None and j >= 2:
            sch = dict(forced) if j == 2 else dict(list(sch.items()) + list(forced.items()))
        kw = dict(new_kwargs={'always_consistent': True}) if always else {}
        v = sysimg.build(cfg, ops, sizes, schedule=sch, **kw)
        desc = '%s mode, schedule %s' % ('always-consistent' if always else 'lazy',
                                         ','.join('%d:%s' % (i, '+'.join(a)) for i, a in sorted(sch.items())) or 'none')
        if v.fail is not None:
            return ('schedule-fails:%s' % v.fail[1].split(':')[0],
                    'the history masters fine lazily but fails under %s: %s' % (desc, v.fail[1]), sch, always)
        v.iso.close()
        if v.outs != base.outs:
            k = next(i for i, (a, b2) in enumerate(zip(v.outs, base.outs)) if a != b2)
            return ('outcome-differs:' + ops[k]['k'], 'edit %d (%s) is %s lazily and %s under %s'
                    % (k, ops[k]['k'], base.outs[k], v.outs[k], desc), sch, always)
        if v.img != base.img:
            d = sysimg.first_diff(v.img, base.img)
            sysimg.decode(base)
            return ('bytes-differ:' + sysimg.attribute(base.rd, d),
                    'the image differs at byte %d (%s) between the plain lazy run and %s'
                    % (d, sysimg.attribute(base.rd, d), desc), sch, always)
    return False


def boot_hybrid_history(rng, cfg):
    """edits whose derived data is filled in by the recomputation only: El Torito entries (load RBA, boot info table) and the
    isohybrid MBR / GPT / APM (boot file location, partition extents)"""
    ops, sizes = [], {}

    def add(path, size, rrn, **extra):
        k = len(sizes) + 1
        sizes[k] = size
        op = dict(k='add_fp', blob=k, size=size, iso=path, **extra)
        if cfg.rr:
            op['rr'] = rrn
        ops.append(op)
    for i in range(rng.randrange(0, 3)):
        add('/A%d.;1' % i, rng.choice([0, 1, 2048, 5000]), 'a%d' % i)
    add('/ISOLINUX.BIN;1', rng.choice([0x44, 2048, 6000]), 'isolinux.bin', isolinux=True)
    for i in range(rng.randrange(0, 2)):
        add('/B%d.;1' % i, rng.choice([1, 3000, 70000]), 'b%d' % i)
    et = dict(k='add_eltorito', bootfile='/ISOLINUX.BIN;1', catalog='/BOOT.CAT;1', boot_load_size=4)
    if cfg.rr:
        et['rr'] = 'boot.cat'
    if rng.random() < 0.4:
        et['boot_info_table'] = True
    ops.append(et)
    efi = rng.random() < 0.5
    mac = efi and rng.random() < 0.4
    if efi:
        add('/EFI.IMG;1', rng.choice([2048, 9000]), 'efi.img')
        ops.append(dict(k='add_eltorito_section', bootfile='/EFI.IMG;1', efi=True))
    if mac:
        add('/MAC.IMG;1', rng.choice([2048, 9000]), 'mac.img')
        ops.append(dict(k='add_eltorito_section', bootfile='/MAC.IMG;1', efi=True))
    kw = {'mbr_id': 0x1234}
    if efi:
        kw['efi'] = True
    if mac:
        kw['mac'] = True
    ops.append(dict(k='add_isohybrid', kw=kw))
    for i in range(rng.randrange(0, 3)):
        add('/Z%d.;1' % i, rng.choice([1, 2048, 4097]), 'z%d' % i)
    if rng.random() < 0.2:
        ops.append(dict(k='rm_isohybrid'))
        ops.append(dict(k='add_isohybrid', kw=kw))
    return ops, sizes


def report_oracle(cfg, ops, sizes):
    """after force_consistency, locations/lengths reported by record queries equal those in the next image"""
    b = sysimg.build(cfg, ops, sizes)
    if b.fail is not None:
        return None
    iso = b.iso
    try:
        iso.force_consistency()
        rep = {}
        for ns, kw in (('iso', 'iso_path'), ('jol', 'joliet_path')):
            if ns == 'jol' and not iso.has_joliet():
                continue
            for dirname, dirlist, filelist in iso.walk(**{kw: '/'}):
                for name in list(dirlist) + list(filelist):
                    p = dirname.rstrip('/') + '/' + name
                    rec = iso.get_record(**{kw: p})
                    rep[(ns, p)] = (rec.extent_location(), rec.get_data_length(), rec.is_dir())
        img, _ = sysimg.master(iso)
    finally:
        iso.close()
    try:
        rd = reader.read_image(img, check=False)
    except reader.Malformed:
        return None
    for ns, root in (('iso', rd.iso_root), ('jol', rd.joliet_root)):
        if root is None:
            continue
        stack = [(root, '')]
        while stack:
            node, prefix = stack.pop()
            for c in node.children:
                nm = c.name if isinstance(c.name, str) else (c.name.decode('utf-16_be') if ns == 'jol' else c.name.decode('latin-1'))
                p = prefix + '/' + nm
                if c.is_dir:
                    stack.append((c, p))
                if (ns, p) not in rep:
                    continue
                ext, ln, isdir = rep[(ns, p)]
                if c.rr is not None and (c.rr.cl is not None or c.rr.symlink is not None):
                    continue
                dext = c.extents[0][0] if c.extents else None
                dlen = sum(n for _, n in c.extents) if not c.is_dir else c.length
                if ln and (ext != dext or ln != dlen):
                    return ('report-differs', '%s %s: get_record after force_consistency reported extent %s length %s, '
                            'the image written next has extent %s length %s' % (ns, p, ext, ln, dext, dlen))
    return False


def run(ctx):
    common.proof_stage(ctx, MODULE, THEOREMS)
    common.setup_impl_path()
    quick = ctx.tier == 'quick'
    rng = ctx.rng
    hist = list(sysprops.histories(ctx, 70 if quick else 1200, RECIPES, dict(allow_refusals=False, long_rr=0.08,
                                                                              link_bias=0.15),
                                   nops=(5, 30) if quick else (10, 80), recipe_cfgs=2 if quick else 12))
    # (1) flag trace: model vs PyCdlib._needs_reshuffle
    cases, texts = [], []
    hist = [(label, cfg, with_readds(rng, cfg, ops, sizes) if cfg.rr else ops, sizes) for (label, cfg, ops, sizes) in hist]
    sizes_of = {id(ops): sizes for (_, _, ops, sizes) in hist}
    for label, cfg, ops, sizes in hist:
        for always in (False, True):
            sch = random_schedule(rng, len(ops), 0.3)
            try:
                acts, flags = flag_trace_case(cfg, ops, sizes, sch, always)
            except Exception as e:
                continue      # an exception escaping a schedule action: found by (2)
            cases.append((cfg, ops, sch, always, acts, flags))
            texts.append('(%s, [%s], [%s])' % ('true' if always else 'false', '; '.join(acts),
                                              '; '.join('true' if f else 'false' for f in flags)))
            ctx.case((cfg.key(), repr(ops), repr(sch), always), len(acts) >= 4)
    bad, err = common.coq_bad_cases('c06flags', DEFS, [], '(bool * list (act bool) * list bool)', texts, 'bad_from 0', shard=200)
    name = 'Lazy.flags vs PyCdlib._needs_reshuffle after every call'
    if bad is None:
        ctx.broken.append({'name': 'correspondence:' + name, 'summary': 'model evaluation failed: ' + err})
    else:
        ctx.cov['traces_validated_against_impl'] += len(cases) - len(bad)
        ctx.cov['correspondences'][name] = {'cases': len(cases), 'disagreements': len(bad)}
        for i in bad[:3]:
            cfg, ops, sch, always, acts, flags = cases[i]
            # directed search for a concrete failing input: make the metadata clean right before each edit in turn
            for k in range(len(ops)):
                r = same_bytes_oracle(ctx, 'directed', cfg, ops, sizes_of[id(ops)], 3, forced={k: ['force']})
                if r:
                    from harness import sysrun
                    ctx.violation('c06:%s:%s:%s' % (r[0], sysrun.cfg_features(cfg), sysprops.shape_sig(ops)),
                                  'C06: %s; config %s (directed search after the flag trace disagreed)' % (r[1], cfg.key()),
                                  {'config': cfg.key(), 'ops': ops, 'sizes': {str(a): b for a, b in sizes_of[id(ops)].items()},
                                   'schedule': {str(a): b for a, b in r[2].items()}, 'always_consistent': r[3], 'signature': r[0]})
                    break
            ctx.broken.append({'name': 'correspondence:' + name,
                               'summary': 'the stale flag of the implementation does not follow the model (config %s, %s mode)'
                               % (cfg.key(), 'always-consistent' if always else 'lazy'),
                               'case': {'config': cfg.key(), 'ops': ops, 'schedule': {str(k): v for k, v in sch.items()},
                                        'acts': acts, 'impl_flags': flags}})
    # (2) the property itself: bytes under schedules; (3) reports after force_consistency
    nshr = 0
    for label, cfg, ops, sizes in hist:
        for op in ops:
            ctx.count('op:' + op['k'])
        ctx.count('hist:' + label)
        r = same_bytes_oracle(ctx, label, cfg, ops, sizes, 4 if quick else 12)
        if r:
            sig, text, sch, always = r
            small = ops
            if nshr < 5:
                nshr += 1

                def fails(c):
                    rr = same_bytes_oracle(ctx, label, cfg, c, sizes, 6)
                    return bool(rr) and rr[0] == sig
                small = sysprops.shrink(cfg, ops, sizes, fails)
            from harness import sysrun
            ctx.violation('c06:%s:%s:%s' % (sig, sysrun.cfg_features(cfg), sysprops.shape_sig(small)),
                          'C06: %s; config %s, history %s' % (text, cfg.key(), sysprops.shape_sig(small, 40)),
                          {'config': cfg.key(), 'ops': small, 'sizes': {str(k): v for k, v in sizes.items()},
                           'schedule': {str(k): v for k, v in sch.items()}, 'always_consistent': always, 'signature': sig})
        r = report_oracle(cfg, ops, sizes)
        if r:
            from harness import sysrun
            ctx.violation('c06:%s:%s' % (r[0], sysrun.cfg_features(cfg)), 'C06: %s; config %s' % (r[1], cfg.key()),
                          {'config': cfg.key(), 'ops': ops, 'sizes': {str(k): v for k, v in sizes.items()}, 'signature': r[0]})
    # (4) boot and hybrid edits under schedules (their derived data exists only after a recomputation)
    from harness import syslevel, sysrun
    cfgs = [c for c in syslevel.covering_configs(rng, 12) if not c.udf]
    for i in range(16 if quick else 250):
        cfg = cfgs[i % len(cfgs)]
        ops, sizes = boot_hybrid_history(rng, cfg)
        for op in ops:
            ctx.count('op:' + op['k'])
        ctx.case(('boot-hybrid', cfg.key(), repr(ops)), True)
        # a query right before every edit in turn, then random schedules
        r = None
        for kq in range(len(ops) + 1):
            r = same_bytes_oracle(ctx, 'boot-hybrid', cfg, ops, sizes, 3, forced={kq: [rng.choice(['get_record', 'force', 'list', 'walk'])]})
            if r:
                break
        r = r or same_bytes_oracle(ctx, 'boot-hybrid', cfg, ops, sizes, 4 if quick else 8)
        if r:
            sig, text, sch, always = r
            ctx.violation('c06:%s:%s:%s' % (sig, sysrun.cfg_features(cfg), sysprops.shape_sig(ops)),
                          'C06: %s; config %s, history %s' % (text, cfg.key(), sysprops.shape_sig(ops, 40)),
                          {'config': cfg.key(), 'ops': ops, 'sizes': {str(k): v for k, v in sizes.items()},
                           'schedule': {str(k): v for k, v in sch.items()}, 'always_consistent': always, 'signature': sig})
    # (5) a directory removed and re-created under the same name in ONE namespace, with look-ups through that namespace in between
    for i in range(12 if quick else 120):
        cfg = cfgs2[i % len(cfgs2)] if (cfgs2 := [c for c in syslevel.all_configs() if c.udf or c.joliet]) else None
        spaces = ([('udf', 'udf')] if cfg.udf else []) + ([('jol', 'jol')] if cfg.joliet else [])
        ns, key = spaces[i % len(spaces)]
        ops = [{'k': 'add_dir', key: '/docs'}, {'k': 'add_fp', 'blob': 1, 'size': 10, key: '/docs/old.txt'},
               {'k': 'add_fp', 'blob': 2, 'size': 20, key: '/keep.txt'},
               {'k': 'rm_link', 'ns': ns, 'path': '/docs/old.txt'}, {'k': 'rm_dir', key: '/docs'},
               {'k': 'add_dir', key: '/docs'}, {'k': 'add_fp', 'blob': 3, 'size': 30, key: '/docs/new.txt'},
               {'k': 'add_dir', key: '/docs/sub'}, {'k': 'add_fp', 'blob': 4, 'size': 5, key: '/docs/sub/deep.txt'}]
        sizes = {1: 10, 2: 20, 3: 30, 4: 5}
        ctx.case(('readd-dir', cfg.key(), ns), True)
        r = None
        for kq in range(len(ops) + 1):
            r = same_bytes_oracle(ctx, 'readd-dir', cfg, ops, sizes, 3, forced={kq: ['query_all']})
            if r:
                break
        if r:
            sig, text, sch, always = r
            ctx.violation('c06:%s:%s:%s' % (sig, sysrun.cfg_features(cfg), sysprops.shape_sig(ops)),
                          'C06: %s; config %s, history %s' % (text, cfg.key(), sysprops.shape_sig(ops, 40)),
                          {'config': cfg.key(), 'ops': ops, 'sizes': {str(k): v for k, v in sizes.items()},
                           'schedule': {str(k): v for k, v in sch.items()}, 'always_consistent': always, 'signature': sig})
    ctx.cov['rule'] = ('every history is mastered under 4 (thorough: 12) schedules: lazy and always-consistent mode, with '
                       'force_consistency / get_record / list_children / walk / extra write_fp inserted at random points; images '
                       'compared byte for byte; the stale flag after EVERY call compared with the model; record queries after '
                       'force_consistency compared with the extents decoded from the image written next')
    ctx.cov['trusted_base'] = ['Coq 8.16.1 kernel, vm_compute', 'Model/Lazy.v (hand model of the deferred-recomputation discipline), tied '
                               'by the flag-trace run; the theorem is parametric in the mutation, recomputation and mastering functions',
                               'harness/reader.py']
    ctx.assumptions = ['hypothesis of the theorem, validated per call: an accepted edit either sets _needs_reshuffle (or recomputes at '
                       'once in always-consistent mode) or does not influence the derived metadata (set_hidden/clear_hidden)',
                       '_reshuffle_extents is a function of the object graph (its idempotence is checked by the k-schedule byte comparison)']


def replay(ctx, rep):
    common.setup_impl_path()
    case = rep['case']
    cfg = [c for c in syslevel.all_configs() if c.key() == case['config']][0]
    sizes = {int(k): v for k, v in case.get('sizes', {}).items()}
    r = same_bytes_oracle(ctx, 'replay', cfg, case['ops'], sizes, 12) or report_oracle(cfg, case['ops'], sizes)
    print('replay verdict:', ('STILL FAILS: %s' % (r[1],)) if r else 'passes now')
    return 1 if r else 0
