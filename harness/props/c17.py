"""C17 -- in-place modification touches only what it must and stays a valid image.  DESIGN.md section 8.17."""
import io

from harness import common, reader, sysimg, syslevel, sysprops, sysrun
from harness.props import packleaf, inplaceleaf

MODULE = 'C17'
LBS = 2048
RECIPES = ['exact_fill', 'exact_fill_root', 'exact_fill_plus', 'fat_dir_churn', 'big_records', 'multi_name_file']


def segments_of(rd, target_keys):
    """byte ranges that may change: the file's data, its records / file entries, the volume descriptors"""
    allowed = []
    for (o, ln, kind, keys) in rd.segments:
        if kind == 'vd' or kind.startswith('udf-') and kind in ('udf-lvid', 'udf-integrity'):
            allowed.append((o, o + max(ln, LBS), kind))
    return allowed


def names_of_file(b, iso_path):
    """all (ns, path) names linked to the same content as iso_path, from the specification"""
    from harness import nsoracles
    s = nsoracles.spec_state(b)
    if s is None:
        return None
    e = s.ns['iso'].get(iso_path)
    if e is None or e['kind'] != 'file' or e['blob'] in (None, 0, -1) or e.get('empty'):
        return None
    out = []
    for n in ('iso', 'jol', 'udf'):
        for p, x in s.ns[n].items():
            if x['kind'] == 'file' and x['blob'] == e['blob']:
                out.append((n, p))
    return out, e['blob']


def node_of(rd, ns, path):
    root = {'iso': rd.iso_root, 'jol': rd.joliet_root, 'udf': rd.udf['root'] if rd.udf and rd.udf.get('root') else None}[ns]
    if root is None:
        return None
    cur = root
    for comp in [c for c in path.split('/') if c]:
        nxt = None
        for c in cur.children:
            nm = c.name if isinstance(c.name, str) else (c.name.decode('utf-16_be') if ns == 'jol' else c.name.decode('latin-1'))
            if nm == comp or (ns == 'jol' and nm == comp + ';1') or (ns == 'jol' and nm.split(';')[0] == comp):
                nxt = c
                break
        if nxt is None:
            return None
        cur = nxt
    return cur


def modify_oracle(b, report, rng):
    rd = b.rd
    if rd is None or b.rd_fatal is not None:
        return
    from harness import nsoracles
    s = nsoracles.spec_state(b)
    if s is None:
        return
    cands = [p for p, e in s.ns['iso'].items() if e['kind'] == 'file' and e['blob'] not in (None, 0, -1) and not e.get('empty')]
    # boot files are candidates too (fix: modify_file_in_place skips the El Torito entry among the linked records)
    rng.shuffle(cands)
    sizes = {op['blob']: op['size'] for op in b.ops if op['k'] == 'add_fp'}
    for iso_path in cands[:3]:
        nm = names_of_file(b, iso_path)
        if nm is None:
            continue
        names, blob = nm
        old = sizes.get(blob, 0)
        nsec = (old + LBS - 1) // LBS
        choices = [x for x in (old, old - 1, old + 1, (nsec - 1) * LBS + 1, nsec * LBS, max(1, old // 2)) if x >= 1 and (x + LBS - 1) // LBS == nsec]
        bad_choices = [x for x in (nsec * LBS + 1, (nsec - 1) * LBS, 0) if (x + LBS - 1) // LBS != nsec and x >= 0]
        before = bytes(b.img)
        # --- refusals leave the file byte-identical
        for new_len in bad_choices[:2]:
            fp = io.BytesIO(before)
            iso = syslevel.__dict__['reopen'](before) if False else None
            import pycdlib
            iso = pycdlib.PyCdlib()
            iso.open_fp(fp)
            try:
                try:
                    iso.modify_file_in_place(io.BytesIO(b'R' * new_len), new_len, iso_path)
                    report('refusal-missing', 'modify_file_in_place accepted a replacement of %d bytes for a file of %d bytes (different sector count)'
                           % (new_len, old), None)
                except pycdlib.pycdlibexception.PyCdlibInvalidInput:
                    pass
                except Exception as e:
                    report('refusal-wrong-exception:' + type(e).__name__, 'modify_file_in_place with a different sector count raised %s' % type(e).__name__, None)
                if fp.getvalue() != before:
                    report('refusal-not-clean', 'a refused modify_file_in_place changed the image file', None)
            finally:
                iso.close()
        # --- a directory is refused
        dirs = [p for p, e in s.ns['iso'].items() if e['kind'] == 'dir']
        if dirs:
            import pycdlib
            fp = io.BytesIO(before)
            iso = pycdlib.PyCdlib()
            iso.open_fp(fp)
            try:
                try:
                    iso.modify_file_in_place(io.BytesIO(b'D' * 2048), 2048, dirs[0])
                    report('refusal-missing:directory', 'modify_file_in_place accepted a directory as target', None)
                except pycdlib.pycdlibexception.PyCdlibInvalidInput:
                    pass
                except Exception as e:
                    report('refusal-wrong-exception:' + type(e).__name__, 'modify_file_in_place on a directory raised %s' % type(e).__name__, None)
                if fp.getvalue() != before:
                    report('refusal-not-clean', 'a refused modify_file_in_place (directory target) changed the image file', None)
            finally:
                iso.close()
        if not choices:
            continue
        new_len = rng.choice(choices)
        new_data = bytes((7 * i + blob) % 251 for i in range(new_len))
        import pycdlib
        fp = io.BytesIO(before)
        iso = pycdlib.PyCdlib()
        iso.open_fp(fp)
        try:
            try:
                payload = io.BytesIO(new_data)
                payload.seek(rng.choice([0, 0, len(new_data), len(new_data) // 2]))     # the payload is read from its beginning
                iso.modify_file_in_place(payload, new_len, iso_path)
            except Exception as e:
                report('modify-fails:' + type(e).__name__, 'modify_file_in_place(%s, %d -> %d bytes, same sector count) raised %s: %s'
                       % (iso_path, old, new_len, type(e).__name__, str(e)[:80]), None)
                continue
        finally:
            iso.close()
        after = fp.getvalue()
        if len(after) != len(before):
            report('length-changed', 'the image file length changed from %d to %d' % (len(before), len(after)), None)
            continue
        # allowed footprint from the reader's view of the ORIGINAL image
        allowed = [(o, o + LBS) for (o, ln, kind, keys) in rd.segments if kind == 'vd']
        for (ns, p) in names:
            n = node_of(rd, ns, p)
            if n is None:
                continue
            for (sec, ln) in n.extents:
                if sec is not None:
                    allowed.append((sec * LBS, sec * LBS + (ln + LBS - 1) // LBS * LBS))
            if ns in ('iso', 'jol') and n.dr_offset is not None:
                allowed.append((n.dr_offset, n.dr_offset + n.dr_len))
            if ns == 'udf' and n.fe_sector is not None:
                allowed.append((n.fe_sector * LBS, n.fe_sector * LBS + LBS))
        i = 0
        nbytes = len(before)
        # changed ranges
        chunk = 4096
        changed = []
        for off in range(0, nbytes, chunk):
            if before[off:off + chunk] != after[off:off + chunk]:
                for k in range(off, min(off + chunk, nbytes)):
                    if before[k] != after[k]:
                        changed.append(k)
        outside = [k for k in changed if not any(a <= k < e for a, e in allowed)]
        if outside:
            report('footprint:' + sysimg.attribute(rd, outside[0]),
                   'modify_file_in_place(%s) changed %d bytes outside the file\'s sectors, its records / file entries and the volume '
                   'descriptors, first at byte %d (%s)' % (iso_path, len(outside), outside[0], sysimg.attribute(rd, outside[0])), outside[0])
            continue
        # the result is a valid image in which every name has the new content and everything else is unchanged
        try:
            rd2 = reader.read_image(after, check=False)
        except reader.Malformed as m:
            report('result-invalid:' + m.rule, 'after the modification the image is not decodable: %s' % m, None)
            continue
        new_rules = set(m.rule for m in rd2.problems) - set(m.rule for m in rd.problems)
        if new_rules:
            report('result-invalid:' + sorted(new_rules)[0], 'after the modification the image breaks rule(s) %s' % sorted(new_rules), None)
            continue
        # every name as an independent reader sees it: new length, new bytes
        for (ns, p) in names:
            n2 = node_of(rd2, ns, p)
            if n2 is None:
                report('name-lost:' + ns, 'after modify_file_in_place(%s) an independent reader no longer finds %s:%s' % (iso_path, ns, p), None)
                continue
            try:
                got = reader.read_file(after, n2)
            except reader.Malformed as m:
                report('name-not-updated:' + ns, 'after the modification %s:%s is not readable: %s' % (ns, p, m), None)
                continue
            if n2.length != new_len or got != new_data:
                report('name-not-updated:' + ns, 'after modify_file_in_place(%s) the on-disc record of %s:%s says %d bytes (new length %d)%s'
                       % (iso_path, ns, p, n2.length, new_len, '' if n2.length != new_len else ', different content'), None)
        try:
            iso2 = syslevel.reopen(after)
        except Exception as e:
            report('result-unopenable:' + type(e).__name__, 'the modified image cannot be opened: %s' % e, None)
            continue
        try:
            for (ns, p) in names:
                try:
                    got = sysimg.api_read(iso2, ns, p)
                except Exception as e:
                    report('name-unreadable:' + ns, 'after the modification %s:%s cannot be read: %s' % (ns, p, e), None)
                    continue
                if got != new_data:
                    report('name-not-updated:' + ns, 'after modify_file_in_place(%s) the name %s:%s reads %d bytes (expected the new %d bytes)%s'
                           % (iso_path, ns, p, len(got), new_len, '' if len(got) != new_len else ', different content'), None)
            others = [(n, p) for n in ('iso', 'jol', 'udf') for p, e in s.ns[n].items()
                      if e['kind'] == 'file' and (n, p) not in names and e['blob'] not in (None, -1)]
            for (ns, p) in others[:12]:
                e = s.ns[ns][p]
                want = syslevel.blob_content(e['blob'], sizes.get(e['blob'], 0)) if e['blob'] > 0 else b''
                try:
                    got = sysimg.api_read(iso2, ns, p)
                except Exception:
                    continue
                if got != want:
                    report('other-file-changed:' + ns, 'after modify_file_in_place(%s) the unrelated file %s:%s reads differently' % (iso_path, ns, p), None)
        finally:
            iso2.close()
        return


def run(ctx):
    common.proof_stage(ctx, MODULE, common.theorems_of(MODULE))
    common.setup_impl_path()
    inplaceleaf.correspondence(ctx)
    packleaf.leaf_correspondence(ctx)
    quick = ctx.tier == 'quick'
    rng = ctx.rng

    def oracle(b, report):
        modify_oracle(b, report, rng)
    sysprops.run_oracle(ctx, 'C17', sysprops.histories(ctx, 100 if quick else 1800, RECIPES,
                                                       dict(allow_refusals=False, link_bias=0.3, fat_dir=0.3, empty_bias=0.05, allow_boot=True),
                                                       nops=(5, 35) if quick else (10, 90), recipe_cfgs=5 if quick else 40),
                        oracle, need_reopen=False, max_shrink=3)
    ctx.cov['rule'] = ('images with deep / multi-sector / exactly-filled directories, hard links in ISO9660 and Joliet, UDF, XA, Rock Ridge names; up to 3 '
                       'files per image replaced in place with lengths {same, +-1, sector boundaries, half}; byte diff of the backing file attributed by the '
                       'independent reader; all names re-read; unrelated files re-read; replacements with another sector count and directory targets must '
                       'be refused leaving the file byte-identical')
    ctx.cov['trusted_base'] = ['Coq 8.16.1 kernel, vm_compute', 'Model/Pack.v tied by leaf run', 'translator (ceiling_div)', 'harness/reader.py segment map']
    ctx.assumptions = ['boot files with a boot info table are modified like any other file (the table is not re-patched by modify_file_in_place)']


def replay(ctx, rep):
    import random
    rng = random.Random(0)
    return sysprops.replay(ctx, rep, lambda b, r: modify_oracle(b, r, rng), need_reopen=False)
