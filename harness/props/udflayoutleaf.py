"""Tie of Model/UdfLayout.v (where PyCdlib puts every structure of a whole UDF directory tree -- File Entries, identifier
areas, file data -- and what every pointer between them says: FID ICBs, parent FIDs, short_ads, tag locations, unique ids,
partition length, the integrity descriptor's counters) to /repo: random and boundary HISTORIES (adds, removals, re-adds,
hard links, identifier areas crossing block boundaries, deep trees, empty files, files of several GiB -- nothing is written)
are run on a real PyCdlib object made with new(udf='2.60'); after force_consistency() every extent and pointer is read off
the object graph and Coq evaluates udf_layout on the same history (bad_udflayout_cases).
Property side, on the same observations: the allocation descriptors of distinct contents must not overlap and must lie
inside the partition."""
import importlib.util
import os

from harness import common

_spec = importlib.util.spec_from_file_location('udf_layout_cases', os.path.join(common.VERIF, 'tools', 'udf_layout_cases.py'))
NAME = 'UdfLayout.udf_layout vs the object graph after force_consistency() (extents, ICBs, tag locations, descriptors, counters)'
M_PIECE = 0xfffff800


def descriptor_oracle(ctx, case):
    """file node: [0, extent, tag_location, unique_id, info_len, log_block_recorded, inode.new_extent_loc, (lbn, len)*]"""
    ops, _iso, glob, nodes = case
    part_start, part_length = glob[0], glob[1]
    by_inode = {}
    for n in nodes:
        if n[0] != 0:
            continue
        ads = [(part_start + n[7 + 2 * i], -(-n[8 + 2 * i] // 2048)) for i in range((len(n) - 7) // 2) if n[8 + 2 * i] > 0]
        by_inode.setdefault(n[6], (n[4], ads))
    rng = sorted((a, b, ino, ln) for ino, (ln, ads) in by_inode.items() for a, b in ads)
    big = any(ln > M_PIECE for ln, _ in by_inode.values())
    bad = None
    for (a1, b1, i1, _l1), (a2, _b2, i2, _l2) in zip(rng, rng[1:]):
        if i1 != i2 and a1 + b1 > a2:
            bad = 'the allocation descriptors of the content at extent %d reach extent %d, into the data of the content at extent %d' % (i1, a1 + b1, a2)
            break
    if bad is None and rng and max(a + b for a, b, _, _ in rng) > part_start + part_length:
        bad = 'allocation descriptors end at extent %d, beyond the partition end %d' % (max(a + b for a, b, _, _ in rng), part_start + part_length)
    if bad:
        sig = 'c10:udflayout:descriptors-overlap' + (':file-over-0xfffff800' if big else '')
        ctx.violation(sig, 'C10: %s (history of %d operations%s)' % (bad, len(ops), ', with a file longer than 0xfffff800 bytes' if big else ''),
                      {'ops': [repr(o) for o in ops][:60], 'part_start': part_start, 'part_length': part_length})


def correspondence(ctx):
    mod = importlib.util.module_from_spec(_spec)
    _spec.loader.exec_module(mod)
    quick = ctx.tier == 'quick'
    seed = ctx.rng.randrange(1, 10 ** 4)
    cs = common.safe_cases(ctx, NAME, lambda: mod.cases(seed, 30 if quick else 400))
    if cs is None:
        return
    nops = sum(len(c[0]) for c in cs)
    for c in cs:
        ctx.case(('udflayout', len(c[0]) // 8, len(c[3]) // 8, bool(c[1][1])), True)
        descriptor_oracle(ctx, c)
    ctx.count('udflayout:histories', len(cs))
    ctx.count('udflayout:operations', nops)
    ctx.count('udflayout:nodes', sum(len(c[3]) for c in cs))
    texts = [mod.render(c) for c in cs]
    bad, err = common.coq_bad_cases('udflayout', ['From PV.Model Require Import UdfLayout.'], [], 'udflayout_case', texts,
                                    'bad_udflayout_cases 0', shard=5 if quick else 25, workers=8 if quick else 15, timeout=1500)
    if bad is None:
        ctx.broken.append({'name': 'correspondence:' + NAME, 'summary': 'model evaluation failed: ' + err})
        ctx.cov['correspondences'][NAME] = {'cases': len(cs), 'disagreements': 'evaluation failed'}
        return
    ctx.cov['traces_validated_against_impl'] += len(cs) - len(bad)
    ctx.cov['correspondences'][NAME] = {'cases': len(cs), 'operations': nops, 'disagreements': len(bad)}
    for i in bad[:3]:
        ctx.broken.append({'name': 'correspondence:' + NAME,
                           'summary': 'the UDF layout model and pycdlib disagree on a history (%d of %d histories)' % (len(bad), len(cs)),
                           'case': {'ops': [repr(o) for o in cs[i][0]][:80], 'globals': cs[i][2]}})
