"""Tie of Model/HybridHist.v (isohybrid over edit histories: the AccountBoot El Torito state machine plus
add_isohybrid / rm_isohybrid / write_fp, with the hybrid object updated only by the extent assignment of a write, so that
values kept from an earlier assignment are exercised) to /repo: random histories are run on the real library, NOTHING but
write_fp reshuffles; after every write of a hybrid image the bytes are decoded (MBR partition table, boot file rba, mbr id,
EFI / Mac MBR slots, both GPT headers and arrays, APM) and Coq evaluates the model on the same history
(bad_hybridhist_cases).  The tool's own checks on the library (header CRCs, backup header last sector) and every write_fp
that raises after a history of accepted calls are reported as property violations."""
import importlib.util
import os
import sys

from harness import common

_spec = importlib.util.spec_from_file_location('hybrid_hist_cases', os.path.join(common.VERIF, 'tools', 'hybrid_hist_cases.py'))
NAME = 'HybridHist.check_case vs pycdlib on isohybrid edit histories (only write_fp assigns extents)'


def correspondence(ctx):
    os.environ.setdefault('VERIF_REPO', common.REPO)
    mod = importlib.util.module_from_spec(_spec)

    def load_and_run():
        _spec.loader.exec_module(mod)
        return mod.directed_cases() + mod.cases(seed, 24 if quick else 300)   # the corpus of minimised histories runs first
    quick = ctx.tier == 'quick'
    seed = ctx.rng.randrange(1, 10 ** 5)
    cs = common.safe_cases(ctx, NAME, load_and_run)
    if cs is None:
        return
    nsteps = nwrites = nhyb = nraised = 0
    for c in cs:
        nsteps += len(c['steps'])
        for op, code, view in c['steps']:
            ctx.case(('hybridhist', op[0], code, bool(view)), True)
            if op[0] == 'Write':
                nwrites += 1
                nhyb += bool(view)
                nraised += code != 1
        for pr in c['problems'][:2]:
            ctx.violation('c12:hybridhist:' + str(pr).split('(')[0].strip()[:60].replace(' ', '-'),
                          'C12: %s (history %s)' % (str(pr)[:300], c['label']),
                          {'label': c['label'], 'steps': [repr(x[:2]) for x in c['steps']][:80], 'problem': str(pr)[:600]})
        for note in c['notes']:
            if note.startswith('write_fp raised') and c['wrecked'] is None:
                exc = note.split()[2].rstrip(':')
                # the hybridization in effect at the FIRST write that raised
                offs = []
                for op, code, _ in c['steps']:
                    if op[0] == 'AddHybrid' and code == 1:
                        offs = [op[3]]
                    elif op[0] == 'RmHybrid' or (op[0] == 'RmEltorito' and code == 1):
                        offs = []
                    elif op[0] == 'Write' and code != 1:
                        break
                if exc == 'error' and "'L' format" in note and offs and offs[-1] > 0:
                    # the accepted partition offset lies beyond the cylinder-padded image: negative partition size
                    ctx.violation('c12:write-fails:partition-offset-beyond-padded-image',
                                  'C12/C14: %s (history %s, part_offset %d)' % (note[:200], c['label'], offs[-1]),
                                  {'label': c['label'], 'steps': [repr(x[:2]) for x in c['steps']][:80], 'note': note[:600]})
                    break
                ctx.violation('c12:hybridhist:write-raised:' + exc,
                              'C12/C14: after a history of accepted calls write_fp raised: %s (history %s)' % (note[:300], c['label']),
                              {'label': c['label'], 'steps': [repr(x[:2]) for x in c['steps']][:80], 'note': note[:600]})
                break
            if note.startswith('c12:gpt-backup-overwrites-volume-tail'):
                ctx.violation('c12:gpt-backup-overwrites-volume-tail', 'C12: %s (history %s)' % (note, c['label']),
                              {'label': c['label'], 'steps': [repr(x[:2]) for x in c['steps']][:80]})
    ctx.count('hybridhist:histories', len(cs))
    ctx.count('hybridhist:steps', nsteps)
    ctx.count('hybridhist:writes', nwrites)
    ctx.count('hybridhist:hybrid-images-decoded', nhyb)
    ctx.count('hybridhist:writes-raised', nraised)
    texts = [common.safe_render(ctx, NAME, mod.render, c) for c in cs]
    if any(t is None for t in texts):
        return
    bad, err = common.coq_bad_cases('hybhist', ['From PV.Model Require Import AccountBoot Hybrid HybridHist.'], [], 'hcase', texts,
                                    'bad_hybridhist_cases 0', shard=4 if quick else 20, workers=8 if quick else 15, timeout=1500)
    if bad is None:
        ctx.broken.append({'name': 'correspondence:' + NAME, 'summary': 'model evaluation failed: ' + err})
        ctx.cov['correspondences'][NAME] = {'cases': len(cs), 'disagreements': 'evaluation failed'}
        return
    ctx.cov['traces_validated_against_impl'] += len(cs) - len(bad)
    ctx.cov['correspondences'][NAME] = {'cases': len(cs), 'steps': nsteps, 'writes': nwrites, 'hybrid_images_decoded': nhyb,
                                        'disagreements': len(bad)}
    for i in bad[:3]:
        c = cs[i]
        ctx.broken.append({'name': 'correspondence:' + NAME,
                           'summary': 'the isohybrid history model and pycdlib disagree on a history (%d of %d histories)' % (len(bad), len(cs)),
                           'case': {'label': c['label'], 'steps': [repr(x[:2]) for x in c['steps']][:80]}})
