"""C20 -- tools round trip: extracting a built image reproduces the source tree.  DESIGN.md section 8.20."""
import importlib.machinery
import importlib.util
import os
import shutil
import subprocess
import tempfile

from harness import common, reader
from harness.common import z
from harness.props import c18

MODULE = 'C20'
LEVEL = 'proof'
GENISO = os.path.join(common.REPO, 'tools', 'pycdlib-genisoimage')
EXTRACT = os.path.join(common.REPO, 'tools', 'pycdlib-extract-files')


def load_tool():
    loader = importlib.machinery.SourceFileLoader('genisoimage_mod', GENISO)
    spec = importlib.util.spec_from_loader('genisoimage_mod', loader)
    mod = importlib.util.module_from_spec(spec)
    loader.exec_module(mod)
    return mod


def run_tool(args, cwd):
    env = dict(os.environ, PYTHONPATH=common.REPO, PYTHONHASHSEED='0')
    p = subprocess.run([common.PY] + args, cwd=cwd, env=env, stdout=subprocess.PIPE, stderr=subprocess.STDOUT, timeout=300)
    return p.returncode, p.stdout.decode('utf-8', 'replace')


def gen_tree(rng, root, feature):
    """writes a source tree under root; returns {relpath: ('dir',) | ('file', bytes) | ('sym', target)}"""
    tree = {}

    def mk(rel, kind, val=None):
        full = os.path.join(root, rel)
        if kind == 'dir':
            os.makedirs(full, exist_ok=True)
            tree[rel] = ('dir',)
        elif kind == 'file':
            os.makedirs(os.path.dirname(full), exist_ok=True)
            with open(full, 'wb') as fp:
                fp.write(val)
            tree[rel] = ('file', val)
        else:
            os.makedirs(os.path.dirname(full), exist_ok=True)
            os.symlink(val, full)
            tree[rel] = ('sym', val)
    names = ['readme.txt', 'Makefile', 'data.bin', 'notes.md', 'a', 'b.c', 'index.html', 'LICENSE', 'x.tar.gz', 'photo.jpeg']
    dirs = ['']
    for d in range(rng.randrange(1, 5)):
        par = rng.choice(dirs)
        dn = os.path.join(par, rng.choice(['src', 'docs', 'lib', 'include', 'test', 'deep']) + str(d))
        mk(dn, 'dir')
        dirs.append(dn)
    for i in range(rng.randrange(3, 12)):
        d = rng.choice(dirs)
        nm = '%d-%s' % (i, rng.choice(names))
        size = rng.choice([0, 1, 5, 100, 2048, 2049, 5000])
        mk(os.path.join(d, nm), 'file', bytes((i * 31 + k * 7) % 256 for k in range(size)))
    if feature == 'hide-exclude':
        for d in dirs[:3]:
            mk(os.path.join(d, 'skipme.tmp'), 'file', b'excluded-' + d.encode())
            mk(os.path.join(d, 'secret-%d.bin' % len(d)), 'file', b'hidden from ISO9660/RR ' + d.encode())
            mk(os.path.join(d, 'jonly-%d.doc' % len(d)), 'file', b'hidden from Joliet ' + d.encode())
        mk('listed-out.bak', 'file', b'excluded by list')
        mk('listed-hide.key', 'file', b'hidden by list')
        # identical contents among hidden and visible files (only matters with -scan-for-duplicates)
        same = b'identical content shared by a hidden and a visible file' * 3
        mk('a-visible-copy.txt', 'file', same)
        mk('secret-copy.bin', 'file', same)
        mk('z-visible-copy.txt', 'file', same)
        mk('jonly-copy.doc', 'file', same)
    if feature == 'mangle-collision':
        d = rng.choice(dirs)
        for nm in ('ab.c', 'AB.C', 'Ab.c', 'longfilename1.txt', 'longfilename2.txt', 'longfilename3.txt', 'x.y.z', 'x_y.z'):
            mk(os.path.join(d, nm), 'file', nm.encode() * 3)
        mk(os.path.join(d, 'Some Directory'), 'dir')
        mk(os.path.join(d, 'SOME_DIRECTORY'), 'dir')
        mk(os.path.join(d, 'some directory'), 'dir')
    elif feature == 'symlinks':
        d = rng.choice(dirs)
        mk(os.path.join(d, 'link-to-file'), 'sym', 'readme.txt')
        mk(os.path.join(d, 'link-up'), 'sym', '../x/y')
        mk(os.path.join(d, 'link-abs'), 'sym', '/etc/hosts')
    elif feature == 'unicode':
        d = rng.choice(dirs)
        for nm in ('Ünïcödé.txt', '日本語.txt', 'emoji-\U0001F600.bin', 'straße.TXT', 'ı.dat'):
            mk(os.path.join(d, nm), 'file', nm.encode('utf-8'))
    elif feature == 'duplicates':
        d = rng.choice(dirs)
        blob = bytes((k * 13) % 256 for k in range(40000))
        mk(os.path.join(d, 'dup1.bin'), 'file', blob)
        mk(os.path.join(d, 'dup2.bin'), 'file', blob)
        # same size, differ only in the first block (files larger than the tool's 32 KiB hashing block)
        mk(os.path.join(d, 'near1.bin'), 'file', b'A' + blob[1:])
        mk(os.path.join(d, 'near2.bin'), 'file', blob[:-1] + b'Z')
        mk(os.path.join(d, 'pad1.img'), 'file', b'\\x01' + b'\\x00' * 69999)
        mk(os.path.join(d, 'pad2.img'), 'file', b'\\x02' + b'\\x00' * 69999)
        # two different 8-byte contents with the same murmur3 value (Coq: C20_dedup_hash_collision_refuted)
        mk(os.path.join(d, 'coll1.bin'), 'file', bytes([233, 35, 139, 112, 249, 200, 239, 179]))
        mk(os.path.join(d, 'coll2.bin'), 'file', bytes([191, 191, 183, 191, 104, 220, 177, 41]))
    elif feature == 'deep':
        p = ''
        for k in range(10):
            p = os.path.join(p, 'level%d' % k)
            mk(p, 'dir')
        mk(os.path.join(p, 'bottom.txt'), 'file', b'bottom')
    elif feature == 'longnames':
        d = rng.choice(dirs)
        mk(os.path.join(d, 'n' * 70 + '.txt'), 'file', b'seventy')
        mk(os.path.join(d, 'n' * 64 + 'A.txt'), 'file', b'sixty-four-A')
        mk(os.path.join(d, 'n' * 64 + 'B.txt'), 'file', b'sixty-four-B')
        mk(os.path.join(d, 'm' * 120), 'dir')
    return tree


def read_tree(root):
    out = {}
    for dp, dn, fn in os.walk(root):
        for n in list(dn):
            full = os.path.join(dp, n)
            rel = os.path.relpath(full, root)
            if os.path.islink(full):
                out[rel] = ('sym', os.readlink(full))
                dn.remove(n)
            else:
                out[rel] = ('dir',)
        for n in fn:
            full = os.path.join(dp, n)
            rel = os.path.relpath(full, root)
            if os.path.islink(full):
                out[rel] = ('sym', os.readlink(full))
            else:
                with open(full, 'rb') as fp:
                    out[rel] = ('file', fp.read())
    return out


OPTION_SETS = [
    (['-r'], ['rockridge']), (['-R'], ['rockridge']), (['-J', '-r'], ['rockridge', 'joliet']), (['-udf'], ['udf']),
    (['-r', '-J', '-udf'], ['rockridge', 'joliet', 'udf']), (['-J'], ['joliet']), (['-r', '-iso-level', '3'], ['rockridge']),
    (['-r', '-iso-level', '4'], ['rockridge']), (['-r', '-scan-for-duplicates'], ['rockridge']), (['-J', '-udf', '-scan-for-duplicates'], ['joliet', 'udf']),
    (['-r', '-iso-level', '2', '-J'], ['rockridge', 'joliet']),
]


def hash_leaf(ctx, tool):
    """translated mm3hash and Tools.hash_blocks vs the tool's mm3hash / mm3hashfromfile"""
    rng = ctx.rng
    rows = []
    scratch = tempfile.mkdtemp(prefix='verif-c20h-', dir='/var/tmp')
    try:
        for i in range(60 if ctx.tier == 'quick' else 600):
            n = rng.choice([0, 1, 2, 3, 4, 5, 7, 8, 9, 15, 16, 17, 100, rng.randrange(0, 300)])
            key = bytes(rng.randrange(256) for _ in range(n))
            seed = rng.choice([0, 1, 0xffffffff, rng.randrange(1 << 32), -5 & 0xffffffff])
            rows.append('([%s], %s, %s)' % (common.zlist(key), z(seed), z(tool.mm3hash(key, seed))))
            ctx.case(('mm3', key, seed), True)
        # single-block files go through Coq (Tools.hash_blocks over the translated mm3hash)
        for (fill, n1, tail) in ((0, 0, []), (0, 5, [1, 2, 3]), (7, 100, []), (255, 300, [4, 4])):
            data = bytes([fill]) * n1 + bytes(tail)
            path = os.path.join(scratch, 'f.bin')
            with open(path, 'wb') as fp:
                fp.write(data)
            want = tool.mm3hashfromfile(path)
            rows.append('(FILE [(repeat %d%%Z %d%%nat ++ %s)], 0%%Z, %s)' % (fill, n1, common.zlist(bytes(tail)), z(want)))
            ctx.case(('mm3file', fill, n1, tuple(tail)), True)
        # multi-block files: the chaining discipline of Tools.hash_blocks (seed of block k+1 = hash of block k, 32 KiB blocks, a final
        # short -- possibly empty -- block) is compared with mm3hashfromfile using the tool's own mm3hash per block; evaluating 32768-element
        # blocks inside Coq costs minutes (list indexing is linear), so this part of the tie runs outside Coq
        for (size, where) in ((32768, 0), (32768 * 2, 5), (32768 * 2 + 7, 40000), (70000, 0), (70000, 69999), (32767, 3), (32769, 32768), (131072, 100)):
            base = bytearray((k * 13 + 5) % 256 for k in range(size))
            other = bytearray(base)
            other[where] ^= 0x5a
            vals = []
            for data in (bytes(base), bytes(other)):
                path = os.path.join(scratch, 'g.bin')
                with open(path, 'wb') as fp:
                    fp.write(data)
                got = tool.mm3hashfromfile(path)
                seed, off = 0, 0
                while True:
                    chunk = data[off:off + 32768]
                    off += 32768
                    seed = tool.mm3hash(chunk, seed)
                    if len(chunk) < 32768:
                        break
                vals.append(got)
                ctx.case(('mm3chain', size, where, len(vals)), True)
                if got != seed:
                    ctx.violation('c20:hash-chain', 'C20: mm3hashfromfile of a %d-byte file is not the chained hash of its 32 KiB blocks (Tools.hash_blocks): '
                                  '%d vs %d' % (size, got, seed), {'size': size})
            if vals[0] == vals[1]:
                ctx.violation('c20:hash-ignores-block', 'C20: two %d-byte files differing at byte %d get the same mm3hashfromfile value: the block that '
                              'holds the difference does not influence the hash' % (size, where), {'size': size, 'where': where})
    finally:
        shutil.rmtree(scratch, ignore_errors=True)
    texts = []
    for r in rows:
        if r.startswith('(FILE '):
            texts.append('(true, ' + r[len('(FILE '):])
        else:
            texts.append('(false, ' + r[1:])
    defs = ['Definition ok (c : bool * list (list Z) * Z * Z) : bool := let \'(isfile, bl, seed, want) := c in '
            'if isfile then hash_blocks bl =? want else mm3hash (hd [] bl) seed =? want.',
            'Fixpoint bad_from (k : nat) (cs : list (bool * list (list Z) * Z * Z)) : list nat := match cs with [] => [] | c :: r => '
            'if ok c then bad_from (S k) r else k :: bad_from (S k) r end.']
    bad, err = common.coq_bad_cases('c20hash', ['From PV.Gen Require Import GenConst GenFun.', 'From PV.Model Require Import Tools.'], defs,
                                    '(bool * list (list Z) * Z * Z)', texts, 'bad_from 0', shard=100)
    name = 'translated mm3hash / Tools.hash_blocks vs the tool\'s mm3hash / mm3hashfromfile'
    if bad is None:
        ctx.broken.append({'name': 'correspondence:' + name, 'summary': 'evaluation failed: ' + err})
        return
    ctx.cov['traces_validated_against_impl'] += len(texts) - len(bad)
    ctx.cov['correspondences'][name] = {'cases': len(texts), 'disagreements': len(bad)}
    for i in bad[:2]:
        ctx.broken.append({'name': 'correspondence:' + name, 'summary': 'the tool\'s hashing and the model disagree (%d of %d cases)' % (len(bad), len(texts)),
                           'coq_case': texts[i][:400]})


def names_leaf(ctx, tool):
    """Tools.assign_all vs build_iso_path on sequences of source names in one directory"""
    rng = ctx.rng
    rows = []
    pool = ['ab.c', 'AB.C', 'Ab.c', 'longfilename1.txt', 'longfilename2.txt', 'longfilename3.txt', 'x.y.z', 'x_y.z', 'readme', 'README',
            'Some Directory', 'SOME_DIRECTORY', 'a', 'A', 'data.tar.gz', 'data_tar.gz', 'file.toolongext', 'émoji.txt', 'EMOJI.TXT', '12345678.abc', '123456789.abc']
    import pycdlib
    for i in range(80 if ctx.tier == 'quick' else 800):
        lvl = rng.choice([1, 2, 3])
        seq = [(rng.choice(pool), rng.random() < 0.25) for _ in range(rng.randrange(2, 9))]
        dl = tool.DirLevel('/', '/', '/')
        items, got = [], []
        for nm, isdir in seq:
            if isdir:
                fm = pycdlib.utils.mangle_dir_for_iso9660(nm, lvl)
                ext = ''
            else:
                fn, ext = pycdlib.utils.mangle_file_for_iso9660(nm, lvl)
                fm = fn if ext == '' else '.'.join([fn, ext])
            p = tool.build_iso_path(dl, nm, lvl, isdir)
            got.append(None if p is None else p[1:])
            items.append((isdir, fm, ext))
        coq_items = '; '.join('(%s, %s, %s)' % ('true' if d else 'false', common.zlist([ord(c) for c in fm]), common.zlist([ord(c) for c in e]))
                              for d, fm, e in items)
        coq_got = '; '.join('None' if g is None else '(Some %s)' % common.zlist([ord(c) for c in g]) for g in got)
        rows.append('([%s], [%s])' % (coq_items, coq_got))
        ctx.case(('names', tuple(seq), lvl), True)
        # the property on the implementation side: distinct, legal
        names = [g for g in got if g is not None]
        if len(set(names)) != len(names):
            ctx.violation('c20:iso-names-not-distinct', 'C20: build_iso_path handed out the same ISO9660 name twice in one directory: %s from %s' % (names, seq),
                          {'seq': seq, 'level': lvl})
        for (nm, isdir), g in zip(seq, got):
            if g is None:
                continue
            ok = c18.legal_dir(g, lvl) if isdir else c18.legal_file(g, lvl)
            if not ok:
                numbered = any(ch.isdigit() for ch in g[5:8])
                ctx.violation('c20:iso-name-illegal:%s' % ('collision-numbered' if numbered else 'plain'),
                              'C20: build_iso_path derives the illegal level-%d identifier %r for source name %r (sequence %s)' % (lvl, g, nm, [s for s, _ in seq]),
                              {'seq': seq, 'level': lvl, 'name': g})
    defs = ['Fixpoint oeq (a b : list (option (list Z))) : bool := match a, b with [], [] => true | Some x :: r, Some y :: s => zlist_eqb x y && oeq r s '
            '| None :: r, None :: s => oeq r s | _, _ => false end.',
            'Fixpoint bad_from (k : nat) (cs : list (list (bool * list Z * list Z) * list (option (list Z)))) : list nat := match cs with [] => [] '
            '| (items, got) :: r => if oeq (fst (assign_all items [])) got then bad_from (S k) r else k :: bad_from (S k) r end.']
    bad, err = common.coq_bad_cases('c20names', ['From PV.Model Require Import Tools.'], defs,
                                    '(list (bool * list Z * list Z) * list (option (list Z)))', rows, 'bad_from 0', shard=200)
    name = 'Tools.assign_all vs build_iso_path (collision numbering)'
    if bad is None:
        ctx.broken.append({'name': 'correspondence:' + name, 'summary': 'evaluation failed: ' + err})
        return
    ctx.cov['traces_validated_against_impl'] += len(rows) - len(bad)
    ctx.cov['correspondences'][name] = {'cases': len(rows), 'disagreements': len(bad)}
    for i in bad[:2]:
        ctx.broken.append({'name': 'correspondence:' + name, 'summary': 'build_iso_path and Model/Tools.v disagree (%d of %d)' % (len(bad), len(rows)),
                           'coq_case': rows[i][:500]})


def one_case(rec, work, src, iso, tree, feat, opts, views):
    excluded, hidden_iso, hidden_jol = set(), set(), set()
    if feat == 'hide-exclude':
        import fnmatch
        with open(os.path.join(work, 'excl.lst'), 'w') as fp:
            fp.write('*.bak\n')
        with open(os.path.join(work, 'hide.lst'), 'w') as fp:
            fp.write('*.key\n')
        opts = list(opts) + (['-scan-for-duplicates'] if len(tree) % 2 and '-scan-for-duplicates' not in opts else []) + ['-m', '*.tmp', '-exclude-list', os.path.join(work, 'excl.lst'), '-hide', 'secret-*',
                             '-hide-list', os.path.join(work, 'hide.lst'), '-hide-joliet', 'jonly-*']
        for k, v in tree.items():
            base = os.path.basename(k)
            if v[0] != 'file':
                continue
            if fnmatch.fnmatch(base, '*.tmp') or fnmatch.fnmatch(base, '*.bak'):
                excluded.add(k)
            elif fnmatch.fnmatch(base, 'secret-*') or fnmatch.fnmatch(base, '*.key'):
                hidden_iso.add(k)
            elif fnmatch.fnmatch(base, 'jonly-*'):
                hidden_jol.add(k)
    rc, out = run_tool([GENISO, '-quiet', '-o', iso] + opts + [src], work)
    if rc != 0 or not os.path.exists(iso):
        last = out.strip().splitlines()[-1] if out.strip() else str(rc)
        exc = last.split(':')[0].split('.')[-1][:40]
        rec.violation('c20:genisoimage-fails:%s:%s' % (feat, exc),
                      'C20: pycdlib-genisoimage %s fails on a source tree with feature "%s": %s' % (' '.join(opts), feat, out[-300:]),
                      {'feature': feat, 'opts': opts, 'tree': sorted(tree)[:40]})
        return
    for view in views:
        ex = os.path.join(work, 'ex_' + view)
        os.makedirs(ex)
        rc, out = run_tool([EXTRACT, '-path-type', view, '-extract-to', ex, iso], work)
        if rc != 0:
            last = out.strip().splitlines()[-1] if out.strip() else str(rc)
            rec.violation('c20:extract-fails:%s:%s:%s' % (view, feat if feat in ('symlinks',) else 'any', last.split(':')[0].split('.')[-1][:40]),
                          'C20: pycdlib-extract-files -path-type %s fails on an image built with %s from a tree with feature "%s": %s'
                          % (view, ' '.join(opts), feat, last[:200]), {'feature': feat, 'opts': opts, 'view': view})
            continue
        got = read_tree(ex)
        want = {k: v for k, v in tree.items() if k not in excluded}
        if view == 'rockridge':
            want = {k: v for k, v in want.items() if k not in hidden_iso}
        if view == 'joliet' and '-J' in opts:
            want = {k: v for k, v in want.items() if k not in hidden_jol}
        if view == 'joliet':
            if '-r' in opts or '-R' in opts or '-udf' in opts:
                want = {k: (v if v[0] != 'sym' else None) for k, v in want.items()}
            else:
                want = {k: v for k, v in want.items() if v[0] != 'sym'}      # "Symlink ignored" without RR/UDF
        if view == 'rockridge':
            got = {k: v for k, v in got.items() if k.split(os.sep)[0] != 'rr_moved'}
        missing = sorted(k for k in want if k not in got)
        extra = sorted(k for k in got if k not in want)
        wrong = sorted(k for k in want if k in got and want[k] is not None and got[k] != want[k])
        if missing or extra or wrong:
            kind = 'content' if wrong and not (missing or extra) else 'paths'
            if wrong and feat == 'duplicates':
                kind = 'content:duplicate-linking'
            what = []
            if missing:
                what.append('missing %s' % missing[:3])
            if extra:
                what.append('unexpected %s' % extra[:3])
            if wrong:
                what.append('different content/target %s' % wrong[:3])
            if feat == 'symlinks' and '-R' in opts and '-r' not in opts and '-udf' not in opts and all(tree[k][0] == 'sym' for k in missing) and not extra and not wrong:
                kind = 'symlinks-dropped-with-R-alone'
            rec.violation('c20:roundtrip:%s:%s:%s' % (view, feat, kind),
                          'C20: building with %s and extracting the %s view does not reproduce the source tree (feature "%s"): %s'
                          % (' '.join(opts), view, feat, '; '.join(what)), {'feature': feat, 'opts': opts, 'view': view,
                                                                            'missing': missing[:10], 'extra': extra[:10], 'wrong': wrong[:10]})
    # plain ISO9660 view: every source file exactly once under a legal, distinct identifier; extensions as requested
    try:
        with open(iso, 'rb') as fp:
            img = fp.read()
        rd = reader.read_image(img, check=False)
        lvl = int(opts[opts.index('-iso-level') + 1]) if '-iso-level' in opts else 1
        nfiles = len([1 for k, v in tree.items() if v[0] in ('file',) and k not in excluded and k not in hidden_iso]) + (len([1 for v in tree.values() if v[0] == 'sym'])
                                                                          if ('-r' in opts or '-udf' in opts) else 0)
        cnt = 0
        st = [rd.iso_root]
        while st:
            d = st.pop()
            seen = set()
            for c in d.children:
                nm = c.name.decode('latin-1')
                if nm in seen:
                    rec.violation('c20:iso-duplicate-identifier', 'C20: the image holds identifier %r twice in one directory (%s, %s)' % (nm, feat, opts), {'feature': feat, 'opts': opts})
                seen.add(nm)
                if c.is_dir:
                    st.append(c)
                    if lvl < 4 and nm != 'RR_MOVED' and not c18.legal_dir(nm, lvl):
                        rec.violation('c20:iso-identifier-illegal:dir', 'C20: illegal level-%d directory identifier %r in the image' % (lvl, nm), {'feature': feat, 'opts': opts})
                elif not (c.rr is not None and c.rr.cl is not None):
                    cnt += 1
                    if lvl < 4 and not c18.legal_file(nm, lvl):
                        rec.violation('c20:iso-identifier-illegal:file', 'C20: illegal level-%d file identifier %r in the image' % (lvl, nm), {'feature': feat, 'opts': opts})
        if cnt != nfiles and feat not in ('symlinks',):
            rec.violation('c20:iso-view-count:%s' % feat, 'C20: the ISO9660 view holds %d files, the source tree %d (%s, %s)' % (cnt, nfiles, feat, ' '.join(opts)),
                          {'feature': feat, 'opts': opts})
        has = {'rockridge': rd.rr_root is not None, 'joliet': rd.joliet_root is not None, 'udf': rd.udf is not None and rd.udf.get('root') is not None}
        want_ext = {'rockridge': '-r' in opts or '-R' in opts, 'joliet': '-J' in opts, 'udf': '-udf' in opts}
        if has != want_ext:
            rec.violation('c20:extensions', 'C20: options %s produced extensions %s' % (' '.join(opts), has), {'opts': opts})
    except reader.Malformed as m:
        rec.violation('c20:image-invalid:' + m.rule, 'C20: the image built by the tool is not decodable: %s' % m, {'feature': feat, 'opts': opts})


def run(ctx):
    common.proof_stage(ctx, MODULE, common.theorems_of(MODULE))
    common.setup_impl_path()
    tool = load_tool()
    hash_leaf(ctx, tool)
    names_leaf(ctx, tool)
    rng = ctx.rng
    quick = ctx.tier == 'quick'
    features = ['plain', 'mangle-collision', 'symlinks', 'unicode', 'duplicates', 'deep', 'longnames', 'hide-exclude']
    scratch = tempfile.mkdtemp(prefix='verif-c20-', dir='/var/tmp')
    import random
    from concurrent.futures import ThreadPoolExecutor

    class Rec:
        """collects what one tool case wants to tell the context (the context itself is not thread-safe)"""
        def __init__(self):
            self.v = []

        def violation(self, sig, text, extra):
            self.v.append((sig, text, extra))

    def do_case(job):
        n, feat, opts, views, seed = job
        rec = Rec()
        case_rng = random.Random(seed)
        work = os.path.join(scratch, 'w%d' % n)
        src = os.path.join(work, 'src')
        os.makedirs(src)
        tree = gen_tree(case_rng, src, feat)
        iso = os.path.join(work, 'out.iso')
        try:
            one_case(rec, work, src, iso, tree, feat, opts, views)
        finally:
            shutil.rmtree(work, ignore_errors=True)
        return rec.v
    try:
        jobs = []
        n = 0
        for rnd in range(1 if quick else 30):
            for feat in features:
                sets = [o for o in OPTION_SETS if feat != 'deep' or '-r' in o[0] or '-R' in o[0] or '4' in o[0]]
                for opts, views in rng.sample(sets, 3 if quick else 5):
                    n += 1
                    jobs.append((n, feat, opts, views, rng.randrange(1 << 30)))
                    ctx.case(('tree', feat, tuple(opts), rnd), True)
                    ctx.count('feature:' + feat)
                    ctx.count('opts:' + ' '.join(opts))
        with ThreadPoolExecutor(max_workers=10) as ex:
            for vs in ex.map(do_case, jobs):
                for sig, text, extra in vs:
                    ctx.violation(sig, text, extra)
        ctx.count('tool-runs', n)
    finally:
        shutil.rmtree(scratch, ignore_errors=True)
    ctx.cov['rule'] = ('generated source trees (plain, names colliding after mangling, symlinks, Unicode, identical / near-identical / hash-colliding contents, '
                       'depth 10, names longer than 64) x option sets (-r, -R, -J, -udf, combinations, -iso-level 1-4, -scan-for-duplicates); the real tools run as '
                       'subprocesses; extracted tree compared with the source per view; ISO9660 view decoded by the independent reader')
    ctx.cov['trusted_base'] = ['Coq 8.16.1 kernel, vm_compute', 'translator (mm3hash) validated on every run', 'Model/Tools.v tied by leaf runs against build_iso_path / '
                               'mm3hashfromfile', 'harness/reader.py']
    ctx.assumptions = ['argument parsing, os.walk order and extraction I/O are covered by the sampled round trip only (level: proof, partial)']
