"""Tie of Model/VolDesc.v (byte-level model of headervd.py: PVD / Joliet SVD / ISO9660:1999 enhanced VD, set terminator,
boot record, 17-byte dates) and Model/UdfVds.v (UDF recognition sequence, anchors, volume descriptor sequence,
integrity and file set descriptors) to /repo: the descriptor sectors of every generated image are decoded and
re-recorded by the models in Coq (check_vd_bytes / check_vds_bytes)."""
import struct

from harness import common
from harness.common import z, zlist

VD = {}      # (kind, bytes)
VDS = {}     # (kind, location, bytes)
UDF_KIND = {2: 0, 1: 1, 4: 2, 5: 3, 6: 4, 7: 5, 8: 6, 9: 7, 256: 8}


def collect(b):
    img = b.img
    if img is None:
        return
    if len(VD) < 1500:
        sec = 16
        while (sec + 1) * 2048 <= len(img) and sec < 40:
            s = bytes(img[sec * 2048:(sec + 1) * 2048])
            if s[1:6] != b'CD001':
                break
            t = s[0]
            if t == 1:
                VD.setdefault((0, s), None)
            elif t == 2:
                VD.setdefault((2 if s[6] == 2 else 1, s), None)
            elif t == 0:
                VD.setdefault((4, s), None)
            elif t == 255:
                VD.setdefault((3, s), None)
                break
            sec += 1
    rd = getattr(b, 'rd', None)
    if rd is not None and getattr(rd, 'udf', None) and len(VDS) < 2500:
        # recognition sequence right after the ISO9660 descriptors, anchors, and every tagged sector of the two sequences
        for sec in range(16, min(64, len(img) // 2048)):
            s = bytes(img[sec * 2048:(sec + 1) * 2048])
            if s[1:6] == b'BEA01':
                VDS.setdefault((9, sec, s), None)
            elif s[1:6] in (b'NSR02', b'NSR03'):
                VDS.setdefault((10, sec, s), None)
            elif s[1:6] == b'TEA01':
                VDS.setdefault((11, sec, s), None)
        nsec = len(img) // 2048
        for sec in list(range(32, min(80, nsec))) + [256, nsec - 257, nsec - 1]:
            if sec < 0 or (sec + 1) * 2048 > len(img):
                continue
            s = bytes(img[sec * 2048:(sec + 1) * 2048])
            ident, = struct.unpack_from('<H', s, 0)
            loc, = struct.unpack_from('<L', s, 12)
            if ident in UDF_KIND and ident != 256 and loc == sec:
                VDS.setdefault((UDF_KIND[ident], sec, s[:512]), None)
        part = rd.udf.get('partition') if isinstance(rd.udf, dict) else None
        if part:
            ps = part['start']
            for rel in range(0, 4):
                sec = ps + rel
                if (sec + 1) * 2048 > len(img):
                    break
                s = bytes(img[sec * 2048:(sec + 1) * 2048])
                ident, = struct.unpack_from('<H', s, 0)
                loc, = struct.unpack_from('<L', s, 12)
                if ident == 256 and loc == rel:
                    VDS.setdefault((8, 0 if rel == 0 else rel, s[:512]), None)


def _eval(ctx, name, prefix, imports, typ, texts, fn, cases, shard):
    bad, err = common.coq_bad_cases(prefix, imports, [], typ, texts, fn, shard=shard)
    if bad is None:
        ctx.broken.append({'name': 'correspondence:' + name, 'summary': 'model evaluation failed: ' + err})
        ctx.cov['correspondences'][name] = {'cases': len(texts), 'disagreements': 'evaluation failed'}
        return
    ctx.cov['traces_validated_against_impl'] += len(texts) - len(bad)
    ctx.cov['correspondences'][name] = {'cases': len(texts), 'disagreements': len(bad)}
    for i in bad[:2]:
        ctx.broken.append({'name': 'correspondence:' + name, 'summary': 'a descriptor sector written by pycdlib is not reproduced by the model '
                                                                         '(%d of %d)' % (len(bad), len(texts)), 'case': cases[i]})


def flush_vd(ctx):
    if not VD:
        return
    items = sorted(VD)[:120 if ctx.tier == 'quick' else 1200]
    texts = ['(%s, %s)' % (z(k), zlist(s)) for k, s in items]
    cases = [{'kind': k, 'bytes': s[:48].hex()} for k, s in items]
    for k, s in items:
        ctx.case(('vd', k, s[:200]), True)
    _eval(ctx, 'VolDesc.parse_vd + re-record vs volume descriptor sectors of written images', 'vdimg',
          ['From PV.Model Require Import VolDesc.'], '(Z * list Z)', texts, 'bad_vd_bytes_cases 0', cases, 10)
    VD.clear()


def flush_vds(ctx):
    if not VDS:
        return
    items = sorted(VDS)[:150 if ctx.tier == 'quick' else 1500]
    texts = ['(%s, %s, %s)' % (z(k), z(loc), zlist(s)) for k, loc, s in items]
    cases = [{'kind': k, 'location': loc, 'bytes': s[:48].hex()} for k, loc, s in items]
    for k, loc, s in items:
        ctx.case(('vds', k, s[:200]), True)
    _eval(ctx, 'UdfVds parse + re-record + verify_tag vs UDF volume-level descriptors of written images', 'vdsimg',
          ['From PV.Model Require Import Udf UdfVds.'], '(Z * Z * list Z)', texts, 'bad_vds_cases 0', cases, 15)
    VDS.clear()
