"""Tie of Model/ParseRR.v (what open reconstructs from a Rock Ridge image: the System Use entries of every record incl. its
continuation area, the continuation-block table, the version) to /repo: Rock Ridge histories (1.09/1.10/1.12, names beyond 250
bytes, identifiers of 186-193 characters whose RR entry goes to the continuation area, long symlink targets, several
continuation blocks with gaps) are built and written by the real library, opened with a NEW object; the parsed graph
(per record: name, mode, links, target, CE triple, which entries are in the record / the continuation area;
pvd.rr_ce_blocks with extents and entries; the version) is read off, then 1-4 further edits are applied to BOTH the
never-closed original and the reopened object (accepted flags, space sizes, images); Coq evaluates the model on the same
history (bad_parserr_cases)."""
import importlib.util
import os

from harness import common

_spec = importlib.util.spec_from_file_location('parse_rr_cases', os.path.join(common.VERIF, 'tools', 'parse_rr_cases.py'))
NAME = 'ParseRR.parse_rr vs the Rock Ridge object graph of images opened by pycdlib (and edits after reopen)'


def correspondence(ctx):
    os.environ.setdefault('VERIF_REPO', common.REPO)
    os.environ.setdefault('PYCDLIB_TREE', common.REPO)
    mod = importlib.util.module_from_spec(_spec)
    _spec.loader.exec_module(mod)
    quick = ctx.tier == 'quick'
    seed = ctx.rng.randrange(1, 10 ** 4)
    cs = common.safe_cases(ctx, NAME, lambda: mod.cases(seed, 10 if quick else 100))
    if cs is None:
        return
    texts = []
    for c in cs:
        t = common.safe_render(ctx, NAME, mod.render, c)
        if t is None:
            continue
        texts.append(t)
        ctx.case(('parserr', len(t) // 20000), True)
    if quick:
        texts = sorted(texts, key=len)[:8]
    ctx.count('parserr:images', len(texts))
    bad, err = common.coq_bad_cases('parserr', ['From PV.Model Require Import RREntries AccountRR MasterRR ParseRR ParseRRSpec.'], [], 'prr_case', texts,
                                    'bad_parserr_cases 0', shard=1 if quick else 5, workers=8 if quick else 15, timeout=1800)
    if bad is None:
        ctx.broken.append({'name': 'correspondence:' + NAME, 'summary': 'model evaluation failed: ' + err})
        ctx.cov['correspondences'][NAME] = {'cases': len(texts), 'disagreements': 'evaluation failed'}
        return
    ctx.cov['traces_validated_against_impl'] += len(texts) - len(bad)
    ctx.cov['correspondences'][NAME] = {'cases': len(texts), 'disagreements': len(bad)}
    for i in bad[:3]:
        ctx.broken.append({'name': 'correspondence:' + NAME,
                           'summary': 'the Rock Ridge parse model and the object opened by pycdlib disagree (%d of %d images)' % (len(bad), len(texts)),
                           'case': {'index': i, 'coq_case_head': texts[i][:500]}})
