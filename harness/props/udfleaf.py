"""Tie of Model/Udf.v (byte-level model of udf.py: UDFTag, short/long allocation descriptors, ICB
tag, File Identifier Descriptor, File Entry allocation-descriptor splitting) to /repo: objects are
built directly with boundary-dense parameters and their record() bytes compared with the model;
real descriptors cut out of generated UDF images are decoded and re-encoded by the model."""
import io

from harness import common
from harness.common import z, zlist


def _eval(ctx, name, prefix, typ, texts, fn, cases, shard=100):
    bad, err = common.coq_bad_cases(prefix, ['From PV.Model Require Import Udf.'], [], typ, texts, fn, shard=shard)
    if bad is None:
        ctx.broken.append({'name': 'correspondence:' + name, 'summary': 'model evaluation failed: ' + err})
        ctx.cov['correspondences'][name] = {'cases': len(texts), 'disagreements': 'evaluation failed'}
        return
    ctx.cov['traces_validated_against_impl'] += len(texts) - len(bad)
    ctx.cov['correspondences'][name] = {'cases': len(texts), 'disagreements': len(bad)}
    for i in bad[:2]:
        ctx.broken.append({'name': 'correspondence:' + name, 'summary': 'Model/Udf.v and udf.py disagree (%d of %d cases)'
                                                                         % (len(bad), len(texts)), 'case': cases[i]})


def leaf_correspondence(ctx):
    from pycdlib import udf
    rng = ctx.rng
    quick = ctx.tier == 'quick'
    # ---- tags
    texts, cases = [], []
    for _ in range(150 if quick else 2500):
        ident = rng.choice([1, 2, 5, 6, 7, 8, 9, 256, 257, 261, rng.randrange(65536)])
        serial = rng.choice([0, 1, rng.randrange(65536)])
        loc = rng.choice([0, 32, 257, rng.randrange(1 << 32)])
        body = bytes(rng.randrange(256) for _ in range(rng.choice([0, 1, 8, 22, 160, 496, 2032, rng.randrange(0, 300)])))
        t = udf.UDFTag()
        try:
            t.new(ident, serial)
            t.tag_location = loc
            exp = t.record(body)
        except Exception:
            exp = b''
        texts.append('(%s, %s, %s, %s, %s)' % (z(ident), z(serial), z(loc), zlist(body), zlist(exp)))
        cases.append({'ident': ident, 'serial': serial, 'location': loc, 'body_len': len(body)})
        ctx.case(('udftag', ident, len(body)), True)
    _eval(ctx, 'Udf.tag_record vs UDFTag.new/record', 'udftag', '(Z * Z * Z * list Z * list Z)', texts, 'bad_tag_cases 0', cases)
    # ---- file identifier descriptors
    texts, cases = [], []
    names = ['a', 'ab', 'abc', 'abcd', 'abcde', 'x' * 200, 'x' * 253, 'x' * 254, 'x' * 255, 'é', 'éa', '日本', '日' * 100, '日' * 127, '日' * 128,
             'f.txt', '']
    for i in range(150 if quick else 2500):
        nm = rng.choice(names) if rng.random() < 0.7 else ''.join(rng.choice('abcXYZ09._-é日') for _ in range(rng.randrange(1, 40)))
        isdir = rng.random() < 0.4
        isparent = rng.random() < 0.15
        tl, nl, il = rng.randrange(1 << 20), rng.randrange(1 << 20), rng.randrange(1 << 20)
        f = udf.UDFFileIdentifierDescriptor()
        enc, fi = 8, b''
        try:
            f.new(isdir, isparent, nm.encode('utf-8'), None)
            f.set_extent_location(0, tl)
            f.set_icb(nl, il)
            exp = f.record()
            if not isparent:
                enc, fi = (8 if f.encoding == 'latin-1' else 16), f.fi
        except Exception:
            exp = b''
            try:
                fi = nm.encode('latin-1')
            except UnicodeEncodeError:
                enc, fi = 16, nm.encode('utf-16_be')
        texts.append('(%s, %s, %s, %s, %s, %s, %s, %s)' % ('true' if isdir else 'false', 'true' if isparent else 'false', z(enc), zlist(fi),
                                                           z(tl), z(nl), z(il), zlist(exp)))
        cases.append({'name': nm, 'isdir': isdir, 'isparent': isparent, 'refused': not exp})
        ctx.case(('udffid', len(fi), enc, isdir, isparent), True)
    _eval(ctx, 'Udf.fid_record (+ length() identity) vs UDFFileIdentifierDescriptor', 'udffid',
          '(bool * bool * Z * list Z * Z * Z * Z * list Z)', texts, 'bad_fid_cases 0', cases)
    # ---- file entry allocation descriptors
    texts, cases = [], []
    B = 0x3ffff800
    for ln in [0, 1, 2047, 2048, 2049, B - 1, B, B + 1, 2 * B - 1, 2 * B, 2 * B + 1, 3 * B + 5, 5 * B] + \
              [rng.randrange(0, 6 * B) for _ in range(40 if quick else 600)]:
        e = udf.UDFFileEntry()
        e.new(ln, 'file', None, 2048)
        e.set_data_location(0, 0)
        ads = [(a.extent_length, a.log_block_num) for a in e.alloc_descs]
        texts.append('(%s, [%s])' % (z(ln), '; '.join('(%s, %s)' % (z(a), z(b)) for a, b in ads)))
        cases.append({'length': ln, 'ads': ads})
        ctx.case(('udfads', ln // B, ln % 2048 == 0), True)
    _eval(ctx, 'Udf.fe_ads_of_length vs UDFFileEntry.new/set_data_location', 'udfads', '(Z * list (Z * Z))', texts, 'bad_fe_ads_cases 0', cases)


IMAGE_DESCS = []     # (kind, bytes) cut out of real images by fid_oracle / the C10 system runs


def collect_from_image(b):
    """File Identifier Descriptors and File Entries of the reader's UDF tree, as raw bytes"""
    rd = b.rd
    if rd is None or rd.udf is None or rd.udf.get('root') is None or len(IMAGE_DESCS) > 4000:
        return
    stack = [rd.udf['root']]
    while stack:
        node = stack.pop()
        sec = getattr(node, 'fe_sector', None)
        if sec is not None:
            IMAGE_DESCS.append((5, bytes(b.img[sec * 2048:sec * 2048 + 2048])))
        off, ln = getattr(node, 'dr_offset', None), getattr(node, 'dr_len', None)
        if node.parent is not None and off is not None and ln:
            IMAGE_DESCS.append((4, bytes(b.img[off:off + ln])))
        if node.is_dir:
            stack.extend(node.children)


def flush_image_descs(ctx):
    if not IMAGE_DESCS:
        return
    seen, texts, cases = set(), [], []
    for kind, raw in IMAGE_DESCS:
        if (kind, raw) in seen:
            continue
        seen.add((kind, raw))
        texts.append('(%s, %s)' % (z(kind), zlist(raw)))
        cases.append({'kind': kind, 'bytes': raw[:64].hex()})
        if len(texts) >= (300 if ctx.tier == 'quick' else 3000):
            break
    _eval(ctx, 'Udf.fid_parse/fe_parse + re-record vs descriptors cut out of written images', 'udfimg', '(Z * list Z)', texts,
          'bad_parse_record_cases 0', cases, shard=50)
    del IMAGE_DESCS[:]
