"""C07 -- hard-link semantics: content lives exactly as long as its last name.  DESIGN.md section 8.7."""
from harness import common, pyspec, sysimg, syslevel, sysprops, sysrun
from harness.common import z
from harness.props import c01, c04

MODULE = 'C07'
THEOREMS = []     # filled from Properties/C07.v below


def _theorems():
    import os
    import re
    p = os.path.join(common.COQ, 'theories', 'Properties', 'C07.v')
    return re.findall(r'^(?:Theorem|Example) (\w+)', open(p).read(), flags=re.M)


def impl_data_sectors(iso):
    return sum((i.get_data_length() + 2047) // 2048 for i in iso.inodes)


def probe_cases(ctx, n, nops):
    """per-edit data space of the implementation vs the specification (evaluated in Coq)"""
    rng = ctx.rng
    cfgs = syslevel.covering_configs(rng, 24)
    cases, texts = [], []
    for i in range(n):
        cfg = cfgs[i % len(cfgs)]
        ops, sizes = syslevel.gen_history(rng, cfg, rng.randrange(*nops), allow_refusals=False, link_bias=0.45, empty_bias=0.15,
                                           allow_symlinks=False)
        iso = cfg.new()
        probe, outs = [], []
        try:
            for op in ops:
                outs.append(syslevel.apply_op(iso, op, sizes))
                probe.append(impl_data_sectors(iso))
        finally:
            iso.close()
        s, souts = pyspec.run(ops)
        if outs != souts:
            continue          # outcome disagreements are reported by the view comparison below
        names = syslevel.Names()
        cops = '; '.join(syslevel.coq_op(op, names, cfg) for op in ops)
        tbl = '; '.join('(%s, %s)' % (z(op['blob']), z(op['size'])) for op in ops if op['k'] == 'add_fp')
        texts.append('{| q_ops := [%s]; q_expected := %s; q_sizes := [%s] |}' % (cops, common.zlist(probe), tbl))
        cases.append((cfg, ops, probe))
        ctx.case(('probe', cfg.key(), repr(ops)), sum(1 for o in ops if o['k'] in ('add_link', 'rm_link', 'rm_file')) >= 2)
    res, err = common.coq_map_cases('c07probe', ['From PV.Spec Require Import FsSpec FsCases.'], [], 'probecase', texts,
                                    'probe_results', shard=120)
    name = 'data space after every edit: sum over PyCdlib.inodes vs distinct live blobs of FsSpec'
    if res is None:
        ctx.broken.append({'name': 'correspondence:' + name, 'summary': 'spec evaluation failed: ' + err})
        return
    bad = [i for i, r in enumerate(res) if r != 0]
    ctx.cov['traces_validated_against_impl'] += len(cases) - len(bad)
    ctx.cov['correspondences'][name] = {'cases': len(cases), 'disagreements': len(bad)}
    for i in bad[:4]:
        cfg, ops, probe = cases[i]
        k = res[i] - 1
        # minimise: keep the prefix up to the offending edit, then drop edits while the mismatch persists (Python mirror)
        small = ops[:k + 1]

        def mismatch(c):
            iso = cfg.new()
            try:
                for op in c:
                    if syslevel.apply_op(iso, op, {}) != 'ok':
                        return False
                got = impl_data_sectors(iso)
            except Exception:
                return False
            finally:
                iso.close()
            s, _ = pyspec.run(c)
            sz = {op['blob']: op['size'] for op in c if op['k'] == 'add_fp'}
            want = sum((sz.get(b, 0) + 2047) // 2048 for b in pyspec.live_blobs(s) if b > 0)
            return got != want
        if mismatch(small):
            small = sysprops.shrink(cfg, small, {}, mismatch)
        op = ops[k]
        ctx.violation('c07:data-space:%s:%s:%s' % (op['k'], sysrun.cfg_features(cfg), sysprops.shape_sig(small)),
                      'C07: after edit %d (%s) the data space held by the image object is %d sectors, the live contents need another '
                      'amount: content was released too early or kept after its last reference; config %s, history %s'
                      % (k, op['k'], probe[k], cfg.key(), sysprops.shape_sig(small, 40)),
                      {'config': cfg.key(), 'ops': small, 'probe': probe[:k + 1]})


def multi_extent_oracle(ctx):
    """very large files (2..5 extents of 0xfffff800 bytes; never written, the object graph is inspected): the extents are
    chained in order, every record but the last carries the multi-extent flag, a hard link sees all of them, and removing the
    last name releases every record, every inode and all the space"""
    import io
    import pycdlib
    E = 0xfffff800
    for k, tail in ((2, 5), (3, 0), (3, 77), (4, 4096), (5, 1)):
        for jol in (None, 3):
            n = (k - 1) * E + (tail or E)
            iso = pycdlib.PyCdlib()
            iso.new(interchange_level=3, joliet=jol)
            base = iso.pvd.space_size
            kw = {'joliet_path': '/big'} if jol else {}
            iso.add_fp(io.BytesIO(b''), n, '/BIG.;1', **kw)
            iso.add_fp(io.BytesIO(b'x'), 1, '/SMALL.;1')
            ctx.case(('multi-extent', k, tail, jol), True)
            recs = [c for c in iso.pvd.root_directory_record().children[2:] if c.file_ident == b'BIG.;1']
            flags = [bool(c.file_flags & 0x80) for c in recs]
            chain = []
            c = recs[0] if recs else None
            while c is not None:
                chain.append(c)
                c = c.data_continuation
            lens = [c.data_length for c in recs]
            want_lens = [E] * (k - 1) + [tail or E]
            if len(recs) != k or [id(x) for x in chain] != [id(x) for x in recs] or flags != [True] * (k - 1) + [False] or lens != want_lens:
                ctx.violation('c07:multi-extent:chain', 'a file of %d bytes (%d extents) is recorded as %d records with lengths %s, '
                              'multi-extent flags %s, continuation chain of %d records in %s order'
                              % (n, k, len(recs), lens, flags, len(chain), 'record' if [id(x) for x in chain] == [id(x) for x in recs] else 'another'),
                              {'length': n, 'joliet': jol})
                iso.close()
                continue
            iso.rm_file('/BIG.;1')
            left = [c.file_ident for c in iso.pvd.root_directory_record().children[2:]]
            jl = [c.file_ident for c in iso.joliet_vd.root_directory_record().children[2:]] if jol else []
            if left != [b'SMALL.;1'] or len(iso.inodes) != 1 or iso.pvd.space_size != base + 1 or jl:
                ctx.violation('c07:multi-extent:rm_file-leftover', 'after rm_file of a %d-extent file: ISO9660 names %s, Joliet names %s, %d inodes, '
                              'volume size %d sectors (expected %d)' % (k, left, jl, len(iso.inodes), iso.pvd.space_size, base + 1),
                              {'length': n, 'joliet': jol})
            iso.close()


def run(ctx):
    global THEOREMS
    THEOREMS = _theorems()
    common.proof_stage(ctx, MODULE, THEOREMS, extra_targets=['theories/Spec/FsCases.vo'])
    common.setup_impl_path()
    quick = ctx.tier == 'quick'
    probe_cases(ctx, 150 if quick else 2000, (6, 35) if quick else (10, 90))
    multi_extent_oracle(ctx)
    from harness.props import accountlinksleaf
    accountlinksleaf.correspondence(ctx)
    # views in all namespaces after write+reopen, link-heavy histories, with and without generations
    from harness import recipes
    extra = []
    allc = syslevel.all_configs()
    for name, fn in sorted(recipes.LINK_RECIPES.items()):
        for _ in range(10 if quick else 80):
            cfg = ctx.rng.choice(allc)
            ops, sizes, rp = fn(cfg, ctx.rng)
            extra.append((cfg, ops, sizes, rp))
    c01.system_check(ctx, 'C07', 160 if quick else 2500, dict(allow_refusals=False, link_bias=0.45, empty_bias=0.15),
                     max_gen=3, nops=(6, 30) if quick else (10, 80), label='link history', extra=extra)
    # data extents of all names in the written image: shared iff linked, stored once
    sysprops.run_oracle(ctx, 'C07', sysprops.histories(ctx, 80 if quick else 1500, [],
                                                       dict(allow_refusals=False, link_bias=0.5, empty_bias=0.1), nops=(6, 35)),
                        c04.oracle, need_reopen=False, max_shrink=4, fail_is_violation=False)
    ctx.cov['rule'] = ('link-biased histories (hard links across ISO9660/Joliet/UDF and El Torito references, before and after reopening): '
                       'data space of the object after EVERY edit vs the specification\'s distinct live contents; API views of all namespaces '
                       'after write+reopen vs the specification; data extents in the written image shared iff linked; non-trivial = >= 2 link edits')
    ctx.cov['trusted_base'] = ['Coq 8.16.1 kernel, vm_compute', 'Spec/FsSpec.v (reference counts = multiplicities in live_blobs)',
                               'harness generators, attribute reads on PyCdlib.inodes, harness/reader.py']
    ctx.assumptions = ['zero-length contents occupy no data space and lose link identity across namespaces when reopened']


def replay(ctx, rep):
    common.setup_impl_path()
    case = rep['case']
    cfg = [c for c in syslevel.all_configs() if c.key() == case['config']][0]
    if 'probe' in case:
        iso = cfg.new()
        for op in case['ops']:
            syslevel.apply_op(iso, op, {})
        got = impl_data_sectors(iso)
        iso.close()
        s, _ = pyspec.run(case['ops'])
        sz = {op['blob']: op['size'] for op in case['ops'] if op['k'] == 'add_fp'}
        want = sum((sz.get(b, 0) + 2047) // 2048 for b in pyspec.live_blobs(s) if b > 0)
        print('replay: data space %d, live contents need %d' % (got, want))
        return 1 if got != want else 0
    return sysprops.replay(ctx, rep, c04.oracle, need_reopen=False)
