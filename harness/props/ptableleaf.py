"""Tie of Model/PathTable.v (breadth-first directory numbering, extent assignment and path table of
_reassign_vd_dirrecord_extents / _write_directory_records) to /repo: the directory trees of generated images without
Rock Ridge (ISO9660 and Joliet hierarchies) are turned into tree literals; Coq computes the path table (length of
identifier, extent, parent number, identifier in written order) and it is compared with the L path table parsed from
the image bytes."""
import struct

from harness import common
from harness.common import z, zlist

CASES = []
ERRORS = []


def _lit(rec):
    kids = [c for c in rec.children[2:] if c.is_dir()]
    name = rec.file_ident if not rec.is_root else b'\x00'
    blocks = (rec.data_length + 2047) // 2048
    return 'Node %s %s [%s]' % (zlist(name), z(blocks), '; '.join(_lit(k) for k in kids))


def _tree(rec):
    return _lit(rec), _count(rec)


def _count(rec):
    return 1 + sum(_count(c) for c in rec.children[2:] if c.is_dir())


def _parse_table(img, loc, size):
    data = img[loc * 2048:loc * 2048 + size]
    out, p = [], 0
    while p + 8 <= len(data):
        ln = data[p]
        if ln == 0:
            break
        ext, par = struct.unpack_from('<LH', data, p + 2)
        ident = bytes(data[p + 8:p + 8 + ln])
        out.append((ln, ext, par, ident))
        p += 8 + ln + (ln % 2)
    return out


def collect(b):
    iso = getattr(b, 'iso', None)
    if iso is None or b.img is None or len(CASES) > 400 or iso.rock_ridge:
        return
    try:
        for vd in [iso.pvd] + ([iso.joliet_vd] if iso.joliet_vd is not None else []):
            root = vd.root_directory_record()
            lit, n = _tree(root)
            if n > 400:
                continue
            recs = _parse_table(b.img, vd.path_table_location_le, vd.path_tbl_size)
            CASES.append((lit, root.extent_location(), recs, n))
    except Exception as e:
        ERRORS.append(repr(e))


def flush(ctx):
    if ERRORS:
        ctx.count('ptable:collect-errors', len(ERRORS))
        ctx.broken.append({'name': 'correspondence:ptableleaf', 'summary': 'collecting path tables failed: ' + ERRORS[0]})
        del ERRORS[:]
    if not CASES:
        return
    items = CASES[:60 if ctx.tier == 'quick' else 400]
    texts = ['(%s, %s, [%s])' % (lit, z(start), '; '.join('(%s, %s, %s, %s)' % (z(a), z(e), z(p), zlist(i)) for a, e, p, i in recs))
             for lit, start, recs, n in items]
    for lit, start, recs, n in items:
        ctx.case(('ptable', n, len(recs), lit[:200]), n >= 3)
    bad, err = common.coq_bad_cases('ptable', ['From PV.Model Require Import PathTable.'], [], '(dtree * Z * list (Z * Z * Z * list Z))', texts,
                                    'bad_ptable_cases 0', shard=20)
    name = 'PathTable.ptable (BFS numbering, extents, written order) vs L path tables of written images'
    if bad is None:
        ctx.broken.append({'name': 'correspondence:' + name, 'summary': 'model evaluation failed: ' + err})
        ctx.cov['correspondences'][name] = {'cases': len(texts), 'disagreements': 'evaluation failed'}
    else:
        ctx.cov['traces_validated_against_impl'] += len(texts) - len(bad)
        ctx.cov['correspondences'][name] = {'cases': len(texts), 'directories': sum(n for _, _, _, n in items), 'disagreements': len(bad)}
        for i in bad[:2]:
            ctx.broken.append({'name': 'correspondence:' + name, 'summary': 'the path table of a written image is not the one Model/PathTable.v computes '
                                                                             '(%d of %d hierarchies)' % (len(bad), len(texts)),
                               'case': {'tree': items[i][0][:400], 'start': items[i][1], 'table': [list(r[:3]) + [r[3].hex()] for r in items[i][2]][:30]}})
    del CASES[:]
