"""C10 -- UDF bridge fidelity for an independent ECMA-167 reader.  DESIGN.md section 8.10."""
from harness import common, nsoracles, sysimg, syslevel, sysprops
from harness.props import udfleaf, vdleaf, udfdirleaf, udflayoutleaf, udfparseleaf

MODULE = 'C10'
RECIPES = ['udf_fid_cross', 'udf_fid_exact', 'udf_symlinks', 'udf_fid_churn']


def oracle(b, report):
    nsoracles.oracle_c10(b, report)
    fid_oracle(b, report)
    udfleaf.collect_from_image(b)
    vdleaf.collect(b)


def leaf_gen(ctx):
    """translated leaf functions vs the Python originals (also validates the translator)"""
    from pycdlib import udf
    rng = ctx.rng
    rows = []
    for _ in range(300 if ctx.tier == 'quick' else 5000):
        n = rng.choice([0, 1, 2, 15, 16, 17, 100, 2048, rng.randrange(0, 600)])
        data = bytes(rng.randrange(256) for _ in range(n))
        tag = bytes(rng.randrange(256) for _ in range(16))
        nl = rng.randrange(0, 256)
        rows.append('(%s, %d, %s, %d, %d, %d)' % (common.zlist(data), udf.crc_ccitt(data), common.zlist(tag), udf._compute_csum(tag),
                                                 nl, udf.UDFFileIdentifierDescriptor.length(nl)))
        ctx.case(('udfleaf', data, tag, nl), True)
    defs = ['Definition ok (c : list Z * Z * list Z * Z * Z * Z) : bool := let \'(d, crc, tag, cs, nl, fl) := c in '
            '(crc_ccitt d =? crc) && (udf_compute_csum tag =? cs) && (udf_fid_length nl =? fl).',
            'Fixpoint bad_from (k : nat) (cs : list (list Z * Z * list Z * Z * Z * Z)) : list nat := match cs with [] => [] | c :: r => '
            'if ok c then bad_from (S k) r else k :: bad_from (S k) r end.']
    bad, err = common.coq_bad_cases('c10leaf', ['From PV.Gen Require Import GenConst GenFun.'], defs,
                                    '(list Z * Z * list Z * Z * Z * Z)', rows, 'bad_from 0', shard=150)
    name = 'translated crc_ccitt / _compute_csum / UDFFileIdentifierDescriptor.length vs the Python functions'
    if bad is None:
        ctx.broken.append({'name': 'correspondence:' + name, 'summary': 'evaluation failed: ' + err})
        return
    ctx.cov['traces_validated_against_impl'] += len(rows) - len(bad)
    ctx.cov['correspondences'][name] = {'cases': len(rows), 'disagreements': len(bad)}
    for i in bad[:2]:
        ctx.broken.append({'name': 'correspondence:' + name, 'summary': 'the translation of a UDF leaf function disagrees with the Python function',
                           'coq_case': rows[i][:600]})


FID_CASES = []


def fid_oracle(b, report):
    """collect, for every UDF directory of the image, the descriptor lengths and the tag locations they record"""
    import struct
    rd = b.rd
    if rd is None or rd.udf is None or rd.udf.get('root') is None or len(FID_CASES) > 1500:
        return
    pstart = rd.udf['partition']['start']
    stack = [rd.udf['root']]
    while stack:
        d = stack.pop()
        stack.extend(c for c in d.children if c.is_dir)
        if not d.extents or d.extents[0][0] is None:
            continue
        sec, ln = d.extents[0]
        area = b.img[sec * 2048:sec * 2048 + ln]
        pos, lens, locs = 0, [], []
        while pos + 38 <= len(area):
            ident, = struct.unpack_from('<H', area, pos)
            if ident != 257:
                break
            tagloc, = struct.unpack_from('<L', area, pos + 12)
            l_fi = area[pos + 19]
            l_iu, = struct.unpack_from('<H', area, pos + 36)
            flen = (38 + l_iu + l_fi + 3) // 4 * 4
            lens.append(flen)
            locs.append(tagloc + pstart - sec)
            pos += flen
        if lens and pos == len(area):
            FID_CASES.append((lens, locs))


def flush_fid_cases(ctx):
    if not FID_CASES:
        return
    rows = ['(%s, %s)' % (common.zlist(a), common.zlist(l)) for a, l in FID_CASES]
    defs = ['Fixpoint zeq (a b : list Z) : bool := match a, b with [], [] => true | x :: r, y :: s => (x =? y) && zeq r s | _, _ => false end.',
            'Fixpoint bad_from (k : nat) (cs : list (list Z * list Z)) : list nat := match cs with [] => [] | (lens, locs) :: r => '
            'if zeq (fid_locations 2048 lens) locs then bad_from (S k) r else k :: bad_from (S k) r end.']
    bad, err = common.coq_bad_cases('c10fid', ['From PV.Model Require Import Fid.'], defs, '(list Z * list Z)', rows, 'bad_from 0', shard=300)
    name = 'Fid.fid_locations vs tag locations recorded in the File Identifier Descriptors of written images'
    if bad is None:
        ctx.broken.append({'name': 'correspondence:' + name, 'summary': 'model evaluation failed: ' + err})
    else:
        ctx.cov['traces_validated_against_impl'] += len(rows) - len(bad)
        ctx.cov['correspondences'][name] = {'cases': len(rows), 'disagreements': len(bad), 'multi_block': sum(1 for a, l in FID_CASES if sum(a) > 2048)}
        for i in bad[:2]:
            ctx.broken.append({'name': 'correspondence:' + name, 'summary': 'the descriptor locations of a UDF directory are not those of Model/Fid.v',
                               'case': {'lens': FID_CASES[i][0][:80], 'recorded': FID_CASES[i][1][:80]}})
    del FID_CASES[:]


def run(ctx):
    common.proof_stage(ctx, MODULE, common.theorems_of(MODULE))
    common.setup_impl_path()
    leaf_gen(ctx)
    udfleaf.leaf_correspondence(ctx)
    udfdirleaf.correspondence(ctx)
    udflayoutleaf.correspondence(ctx)
    udfparseleaf.correspondence(ctx)
    quick = ctx.tier == 'quick'
    sysprops.run_oracle(ctx, 'C10', sysprops.histories(ctx, 100 if quick else 2000, RECIPES,
                                                       dict(allow_refusals=False, link_bias=0.2, empty_bias=0.2),
                                                       nops=(5, 35) if quick else (10, 100), recipe_cfgs=5 if quick else 40,
                                                       cfg_filter=lambda c: c.udf is not None),
                        oracle, need_reopen=False, max_shrink=5)
    # reopen-then-edit generations
    hist = []
    for label, cfg, ops, sizes in sysprops.histories(ctx, 40 if quick else 600, [], dict(allow_refusals=False, link_bias=0.2),
                                                     nops=(6, 30), cfg_filter=lambda c: c.udf is not None):
        hist.append((label, cfg, ops, sizes))
    for label, cfg, ops, sizes in hist:
        rp = (ctx.rng.randrange(1, max(2, len(ops))),)
        ops, rp = sysprops.accepted_only(ops, rp)
        sysprops.run_oracle(ctx, 'C10', iter([(label + '+reopen', cfg, ops, sizes)]), oracle, need_reopen=False, max_shrink=1,
                            build_kwargs={'reopen_points': rp})
    flush_fid_cases(ctx)
    udfleaf.flush_image_descs(ctx)
    vdleaf.flush_vds(ctx)
    vdleaf.VD.clear()
    ctx.cov['rule'] = ('UDF-bridge images of random histories (directories past one identifier sector, cross-namespace links, removals, '
                       'Latin-1 and UCS-2 names, symlinks with non-Latin-1 components, zero-length files) plus recipes (identifier area '
                       'filled exactly to a sector boundary with entries after it), fresh and reopened-then-edited; an independent '
                       'ECMA-167 reader starting from the recognition sequence and the anchors must reach the file set, every tag it '
                       'passes must verify, the tree/names/targets/bytes must equal what was built')
    ctx.cov['trusted_base'] = ['Coq 8.16.1 kernel, vm_compute', 'translator (crc_ccitt + table, _compute_csum, FID length/pad, ceiling_div), '
                               'validated against the Python functions on every run', 'harness/reader.py ECMA-167 part']
    ctx.assumptions = ['descriptor contents other than tag/CRC/lengths are checked by the reader on sampled images only']


def replay(ctx, rep):
    return sysprops.replay(ctx, rep, oracle, need_reopen=False)
