"""C18 -- derived names are always legal: mangling is total and level-correct.  DESIGN.md section 8.18."""
import io
import itertools

from harness import common
from harness.common import z, zlist

MODULE = 'C18'
THEOREMS = ['C18_file_legal', 'C18_dir_legal', 'C18_level4_partial', 'C18_level4_semicolon_refuted',
            'C18_fixed_file', 'C18_fixed_file_noext', 'C18_fixed_dir', 'C18_original_refuted',
            'C18_long_ext_changed_refuted', 'C18_long_dir_changed_refuted', 'C18_nonvacuous']

D1 = set(range(65, 91)) | set(range(48, 58)) | {95}


def is_d1s(s):
    return all(ord(c) in D1 for c in s)


def legal_file(name, lvl):
    """The documented rules, written independently of the library (levels 1-3)."""
    if name.count(';') > 1:
        return False
    ver = None
    if ';' in name:
        name, ver = name.split(';')
        if not (ver.isascii() and ver.isdigit() and 1 <= int(ver) <= 32767):
            return False
    if name.count('.') > 1:
        return False
    base, ext = (name.split('.') + [''])[:2] if '.' in name else (name, '')
    if not base and not ext:
        return False
    if not (is_d1s(base) and is_d1s(ext)):
        return False
    if lvl == 1 and (len(base) > 8 or len(ext) > 3):
        return False
    return True


def legal_dir(name, lvl):
    if not name or not is_d1s(name):
        return False
    if lvl == 1 and len(name) > 8:
        return False
    if lvl in (2, 3) and len(name) > 207:
        return False
    return True


SPECIALS = ['ß', 'ŉ', 'ǰ', 'ﬁ', 'ﬃ', 'ΐ', 'i', 'ı', 'é', 'É', 'µ', 'ǅ', '𐐨', '😀', 'İ', '\x01', '\n', ' ',
            '.', ';', '_', '-', '+', 'a', 'z', 'A', 'Z', '0', '9', '~', '\x7f', 'ẞ', 'ῼ', 'ᾳ']


def gen_names(rng, tier):
    names = set()
    alpha = ['a', 'B', '1', '_', '.', ';', 'ß', 'é', '-', ' ', 'ﬁ', '😀']
    for n in (1, 2, 3):
        for t in itertools.product(alpha, repeat=n):
            names.add(''.join(t))
    # length boundaries with expanding characters at every position
    for L in (7, 8, 9, 10, 29, 30, 31, 32, 33):
        for ch in ('ß', 'ﬃ', 'a', 'Z', 'é', '.'):
            for pos in range(L):
                names.add('a' * pos + ch + 'a' * (L - pos - 1))
            names.add(ch * L)
    names.update(['A.HTML', 'README.TEXT', 'X_1.JPEG', 'D' * 32, 'D' * 207, 'A' * 27 + '.TXT'])
    for base in ('abc', 'ABCDEFGH', 'abcdefghi', 'x' * 30, 'y' * 31, 'ß' * 8):
        for ext in ('', 't', 'txt', 'TXT', 'html', 'ßßß', 'ß', 'a-b', 't.t', 'ﬁ', 'ﬃ'):
            names.add(base + '.' + ext)
            names.add('.' + ext)
    n_rand = 1500 if tier == 'quick' else 40000
    for _ in range(n_rand):
        L = rng.choice([1, 2, 3, 5, 8, 9, 12, 30, 31, 40, 64])
        s = ''.join(rng.choice(SPECIALS) if rng.random() < 0.5 else
                    chr(rng.choice([rng.randrange(32, 127), rng.randrange(0xa0, 0x250), rng.randrange(0x370, 0x400),
                                    rng.randrange(0x1f00, 0x2000), rng.randrange(0xfb00, 0xfb07),
                                    rng.randrange(0x10000, 0x10450)])) for _ in range(L))
        names.add(s)
    out = []
    for s in sorted(names):
        if not s or '/' in s or '\x00' in s or s in ('.', '..'):
            continue
        if any(0xd800 <= ord(c) <= 0xdfff for c in s):
            continue
        out.append(s)
    return out


def cps(s):
    return [ord(c) for c in s]


def lib_check(pycdlib_mod, name, lvl, is_dir):
    from pycdlib import pycdlibexception as pe
    try:
        if is_dir:
            pycdlib_mod._check_iso9660_directory(name.encode('utf-8'), lvl)
        else:
            pycdlib_mod._check_iso9660_filename(name.encode('utf-8'), lvl)
        return 0
    except pe.PyCdlibInvalidInput:
        return 1
    except Exception:
        return 2


def classify(s, lvl, is_dir):
    """Predicate class of an input (the known-findings signature for input-space properties)."""
    cls = []
    if any(len(c.upper()) != 1 for c in s):
        cls.append('upper-lengthens')
    if ';' in s:
        cls.append('semicolon')
    if lvl == 4:
        cls.append('level4')
    if not cls:
        cls.append('plain')
    return '+'.join(cls)


def run(ctx):
    common.proof_stage(ctx, MODULE, THEOREMS, extra_targets=['theories/Model/NamesCases.vo'])
    common.setup_impl_path()
    import pycdlib
    from pycdlib import utils, facade, pycdlib as pm
    from pycdlib import pycdlibexception as pe
    names = gen_names(ctx.rng, ctx.tier)
    cases = []
    uptable = {}
    # hypothesis of the fixed-point theorems: upper() is the identity on d-characters
    for c in D1:
        if chr(c).upper() != chr(c):
            ctx.violation('harness:upper-not-identity-on-d1', 'str.upper() changes d-character %r' % chr(c), {}, concrete=False)
    n_edit = 0
    for s in names:
        for c in s:
            u = c.upper()
            if u != c:
                uptable[ord(c)] = cps(u)
        for lvl in (1, 2, 3, 4):
            for is_dir in (False, True):
                ctx.count('lvl%d:%s' % (lvl, 'dir' if is_dir else 'file'))
                nontriv = any(ord(c) not in D1 for c in s) or len(s) > 8
                ctx.case((s, lvl, is_dir), nontriv)
                try:
                    if is_dir:
                        name = utils.mangle_dir_for_iso9660(s, lvl)
                        viafacade = facade.iso_path_to_rr_name('/' + s, lvl, True) if '/' not in s else name
                    else:
                        b, e = utils.mangle_file_for_iso9660(s, lvl)
                        name = '.'.join([b, e])
                except Exception as ex:
                    ctx.violation('mangle:exception:%s' % type(ex).__name__,
                                  'C18: mangling %r at level %d raised %r' % (s, lvl, ex),
                                  {'name': s, 'level': lvl, 'is_dir': is_dir})
                    continue
                chk = lib_check(pm, name, lvl, is_dir)
                cases.append({'orig': s, 'lvl': lvl, 'dir': is_dir, 'name': name, 'check': chk})
                # ---- the property, on the implementation
                ok_legal = True
                if lvl < 4:
                    ok_legal = legal_dir(name, lvl) if is_dir else legal_file(name, lvl)
                if not ok_legal or chk != 0:
                    ctx.violation('mangle:illegal:%s:%s' % ('dir' if is_dir else 'file', classify(s, lvl, is_dir)),
                                  'C18: %s name %r mangled for level %d gives %r, which is %s'
                                  % ('directory' if is_dir else 'file', s, lvl, name,
                                     'not legal' if not ok_legal else
                                     ('refused by the library' if chk == 1 else 'makes the library raise a non-library exception')),
                                  {'name': s, 'level': lvl, 'is_dir': is_dir, 'derived': name, 'lib_check': chk})
                # already-legal input is returned unchanged (apart from the version)
                if lvl < 4:
                    if is_dir and legal_dir(s, lvl) and name != s:
                        ctx.violation('mangle:legal-input-changed:dir:%s' % ('longer-than-31' if len(s) > 31 else 'other'),
                                      'C18: legal level-%d directory name %r is changed to %r' % (lvl, s, name),
                                      {'name': s, 'level': lvl, 'derived': name})
                    if not is_dir and ';' not in s and not s.endswith('.') and legal_file(s, lvl):
                        base, ext = (s.split('.') + [''])[:2]
                        total_ok = lvl == 1 or len(base) + len(ext) <= 30
                        want = base + '.' + ext + ';1'
                        if total_ok and name != want:
                            ctx.violation('mangle:legal-input-changed:file:%s' % ('ext-longer-than-3' if len(ext) > 3 else 'other'),
                                          'C18: legal level-%d file name %r is changed to %r' % (lvl, s, name),
                                          {'name': s, 'level': lvl, 'derived': name})
                # the library accepts the derived name in an edit (sampled: it costs an image each)
                if chk == 0 and (n_edit < 400 or ctx.rng.random() < 0.02) and len(name.encode('utf-8')) < 200:
                    n_edit += 1
                    iso = pycdlib.PyCdlib()
                    iso.new(interchange_level=lvl)
                    try:
                        if is_dir:
                            iso.add_directory(iso_path='/' + name)
                        else:
                            iso.add_fp(io.BytesIO(b'x'), 1, iso_path='/' + name)
                        out = io.BytesIO()
                        iso.write_fp(out)
                    except Exception as ex:
                        ctx.violation('mangle:edit-refused:%s' % ('reserved-dot-identifier' if name in ('\x00', '\x01') else classify(s, lvl, is_dir)),
                                      'C18: the library refuses/fails on the name %r it derived from %r (level %d): %r'
                                      % (name, s, lvl, ex), {'name': s, 'level': lvl, 'derived': name})
                    iso.close()
    ctx.count('edits_tried', n_edit)
    # ---- facades end to end: Rock Ridge facade derives the ISO9660 name
    nf = 0
    fac_names = [s for s in names if len(s.encode('utf-8')) <= 100][::max(1, len(names) // (150 if ctx.tier == 'quick' else 1500))]
    for s in fac_names:
        for lvl in (1, 3):
            iso = pycdlib.PyCdlib()
            iso.new(interchange_level=lvl, rock_ridge='1.09')
            f = iso.get_rock_ridge_facade()
            nf += 1
            try:
                f.add_fp(io.BytesIO(b'data-' + s.encode('utf-8')), 5 + len(s.encode('utf-8')), '/' + s, 0o100444)
                out = io.BytesIO()
                f.get_file_from_iso_fp(out, '/' + s)
                if out.getvalue() != b'data-' + s.encode('utf-8'):
                    raise RuntimeError('facade addressed a different entry')
                f.add_directory('/d' + s, 0o40555)
                f.add_fp(io.BytesIO(b'y'), 1, '/d' + s + '/' + s, 0o100444)
                img = io.BytesIO()
                iso.write_fp(img)
            except Exception as ex:
                ctx.violation('facade:rr:%s' % classify(s, lvl, False),
                              'C18: Rock Ridge facade fails for name %r at level %d: %r' % (s, lvl, ex),
                              {'name': s, 'level': lvl})
            iso.close()
    ctx.count('facade_runs', nf)
    for c in cases[100:103]:
        ctx.sample(c)
    # ---- model vs implementation
    tbl = '[' + '; '.join('(%d, %s)' % (k, zlist(v)) for k, v in sorted(uptable.items())) + ']'
    common.correspondence(
        ctx, 'Names.mangle_* + check vs utils.mangle_*/_check_iso9660_*', 'C18cases',
        ['From PV.Model Require Import Names NamesCases.'],
        ['Definition tbl : list (Z * list Z) := %s.' % tbl], 'mcase', cases,
        lambda c: '{| m_orig := %s; m_lvl := %d; m_dir := %s; m_expect := %s; m_check := %d |}'
        % (zlist(cps(c['orig'])), c['lvl'], 'true' if c['dir'] else 'false', zlist(cps(c['name'])), c['check']),
        'bad_mcases tbl', shard=2500)
    ctx.cov['rule'] = ('(name, level, file|dir) triples: all strings of length <= 3 over a 12-symbol alphabet with '
                       'expanding/illegal characters, length boundaries 7-10 and 29-33 with an expanding character at '
                       'every position, extension shapes, random Unicode incl. non-BMP; non-trivial = contains a '
                       'non-d-character or is longer than 8')
    ctx.cov['trusted_base'] = [
        'Coq 8.16.1 kernel, vm_compute',
        'translator: _allowed_d1_characters is the generated Gen.GenConst.allowed_d1_characters',
        'hand model Model/Names.v of truncate_basename/mangle_*/_check_iso9660_*, tied by this differential run',
        'str.upper enters the theorems as an arbitrary function (hypotheses: never empty; identity on d-characters, '
        'the latter validated on this interpreter)',
        'harness/props/c18.py (independent legality predicates, generators)']
    ctx.assumptions = ['source names are non-empty, contain no "/" or NUL, are not "." or "..", and are valid Unicode '
                       '(no lone surrogates)']
