"""Tie of Model/Master.v (the directory area of a plain ISO9660 image: master = the bytes of every directory extent exactly
as _write_directory_records emits them -- `.`/`..`, children in sorted order, Codec records, zero padding at block ends,
extents from the breadth-first assignment; read = an independent mount-style reader that works from the bytes and the root
pointer only) to /repo: boundary and random HISTORIES (depth-7 chains, directories of 1/2/3 blocks at the boundary +-1
record, names of 1..30/207/221 bytes, empty and multi-block files, removals, re-adds, the path table crossing 4096 bytes
and back, intermediate writes) are mastered by the real library; the directory extents are cut out of the image and Coq
checks (bad_master_cases) that master produces exactly these bytes, that read on THE LIBRARY'S bytes returns the tree's
view, that the root pointer is the model's and that the extents equal Account.layout."""
import importlib.util
import os

from harness import common

_spec = importlib.util.spec_from_file_location('master_cases', os.path.join(common.VERIF, 'tools', 'master_cases.py'))
NAME = 'Master.master / Master.read vs the directory extents of images written by pycdlib'


def correspondence(ctx):
    mod = importlib.util.module_from_spec(_spec)
    _spec.loader.exec_module(mod)
    quick = ctx.tier == 'quick'
    seed = ctx.rng.randrange(1, 10 ** 6)
    nb = len(mod.boundary_cases())
    cs = common.safe_cases(ctx, NAME, lambda: mod.cases(seed, nb + (10 if quick else 200)))
    if cs is None:
        return
    if quick:
        cs = ctx.rng.sample(cs[:nb], 12) + cs[nb:]
    texts = []
    for c in cs:
        ctx.case(('master', c[0].split('_')[0], len(c[1]) // 10), True)
        t = common.safe_render(ctx, NAME, mod.render, c)
        if t is None:
            continue
        texts.append(t)
    ctx.count('master:histories', len(cs))
    ctx.count('master:operations', sum(len(c[1]) for c in cs))
    bad, err = common.coq_bad_cases('master', ['From PV.Model Require Import Master.'], [], 'ms_case', texts, 'bad_master_cases 0',
                                    shard=3 if quick else 16, workers=8 if quick else 15, timeout=1500)
    if bad is None:
        ctx.broken.append({'name': 'correspondence:' + NAME, 'summary': 'model evaluation failed: ' + err})
        ctx.cov['correspondences'][NAME] = {'cases': len(cs), 'disagreements': 'evaluation failed'}
        return
    ctx.cov['traces_validated_against_impl'] += len(cs) - len(bad)
    ctx.cov['correspondences'][NAME] = {'cases': len(cs), 'disagreements': len(bad)}
    for i in bad[:3]:
        ctx.broken.append({'name': 'correspondence:' + NAME,
                           'summary': 'the directory-area model and the image written by pycdlib disagree (%d of %d histories)' % (len(bad), len(cs)),
                           'case': {'label': cs[i][0], 'ops': [repr(o) for o in cs[i][1]][:80]}})
