"""Tie of Model/HybridParse.v (what open reconstructs of a hybrid image: IsoHybrid.parse, the GPT parsers and the _open_fp
hybrid block, composed with the HybridHist writer) to /repo: random histories end in add_isohybrid with varied geometry /
options, the image is written, OPENED again, the reopened isohybrid object's fields are compared with the model's, the
reopened object is written again (the bytes must equal the first image), then edited and written once more and the decoded
view compared (bad_hybridparse_cases).  Library-only oracles: pycdlib opens every hybrid image it wrote, the second write
succeeds and reproduces the image, a write after an edit of the reopened object succeeds."""
import importlib.util
import os

from harness import common

_spec = importlib.util.spec_from_file_location('hybrid_parse_cases', os.path.join(common.VERIF, 'tools', 'hybrid_parse_cases.py'))
NAME = 'HybridParse.check_case vs pycdlib: write a hybrid image, open it, write again, edit, write'


def correspondence(ctx):
    os.environ.setdefault('VERIF_REPO', common.REPO)
    mod = importlib.util.module_from_spec(_spec)
    quick = ctx.tier == 'quick'
    seed = ctx.rng.randrange(1, 10 ** 5)

    dropped = []

    def load_and_run():
        import contextlib
        import io
        _spec.loader.exec_module(mod)
        buf = io.StringIO()
        with contextlib.redirect_stdout(buf):      # the tool prints one DROPPED line per case it cannot use
            out = mod.cases(seed, 16 if quick else 200)
        dropped.extend(l for l in buf.getvalue().splitlines() if l.startswith('DROPPED'))
        return out
    cs = common.safe_cases(ctx, NAME, load_and_run)
    if cs is None:
        return
    nhyb = nsame = nedit = 0
    for c in cs:
        f = c['fields']
        hyb = len(f) > 1
        nhyb += hyb
        nsame += bool(c['same'])
        nedit += bool(c['view2'])
        ctx.case(('hybridparse', 'raised' if f == [[-2]] else 'plain' if f == [[-1]] else 'hybrid', c['same'], bool(c['view2'])), True)
        rep = {'label': c['label'], 'ops': [repr(x[:2]) for x in c['ops']][:60], 'notes': [str(n)[:300] for n in c['notes']][:6]}
        for note in c['notes']:
            if note.startswith('open_fp raised'):
                ctx.violation('c12:reopen:open-failed:' + note.split()[2].rstrip(':'),
                              'C12/C02: pycdlib cannot open the hybrid image it wrote: %s (case %s)' % (note[:200], c['label']), rep)
            elif note.startswith('rewrite differs') or note.startswith('rewritten image differs'):
                ctx.violation('c12:reopen:rewrite-differs', 'C12/C05: open + write of a hybrid image is not a fixpoint: %s (case %s)' % (note[:200], c['label']), rep)
            elif note.startswith('second write_fp raised'):
                ctx.violation('c12:reopen:second-write-raised:' + note.split()[3].rstrip(':'),
                              'C12: writing the reopened hybrid image fails: %s (case %s)' % (note[:200], c['label']), rep)
            elif note.startswith('write after the edit on the reopened object failed'):
                if note.rstrip().endswith(': []'):
                    # nothing raised: rm_isohybrid + an add_isohybrid that was refused, the image is simply not hybrid
                    ctx.count('hybridparse:re-add-refused-after-reopen', 1)
                elif "'L' format" in note:
                    ctx.violation('c12:write-fails:partition-offset-beyond-padded-image', 'C12: %s (case %s)' % (note[:200], c['label']), rep)
                else:
                    ctx.violation('c12:reopen:write-after-edit-failed', 'C12: %s (case %s)' % (note[:240], c['label']), rep)
    # images pycdlib cannot open for a reason outside the hybrid parser: the backup GPT was written over the volume tail
    for l in dropped:
        if l.startswith('DROPPED(tail-overwritten)'):
            ctx.violation('c12:gpt-backup-overwrites-volume-tail', 'C12: the written hybrid image cannot be opened again (%s)' % l[:260], {'line': l[:400]})
        else:
            ctx.violation('c12:reopen:open-failed-outside-the-hybrid-parser', 'C12/C02: pycdlib cannot open the hybrid image it wrote (%s)' % l[:260], {'line': l[:400]})
    ctx.count('hybridparse:dropped-unopenable-for-another-reason', len(dropped))
    ctx.count('hybridparse:cases', len(cs))
    ctx.count('hybridparse:reopened-as-hybrid', nhyb)
    ctx.count('hybridparse:rewrite-identical', nsame)
    ctx.count('hybridparse:edited-after-reopen-decoded', nedit)
    texts = [common.safe_render(ctx, NAME, mod.render, c) for c in cs]
    if any(t is None for t in texts):
        return
    bad, err = common.coq_bad_cases('hybparse', ['From PV.Model Require Import AccountBoot Hybrid HybridHist HybridParse.'], [], 'pcase', texts,
                                    'bad_hybridparse_cases 0', shard=4 if quick else 20, workers=8 if quick else 15, timeout=1500)
    if bad is None:
        ctx.broken.append({'name': 'correspondence:' + NAME, 'summary': 'model evaluation failed: ' + err})
        ctx.cov['correspondences'][NAME] = {'cases': len(cs), 'disagreements': 'evaluation failed'}
        return
    ctx.cov['traces_validated_against_impl'] += len(cs) - len(bad)
    ctx.cov['correspondences'][NAME] = {'cases': len(cs), 'reopened_as_hybrid': nhyb, 'rewrite_identical': nsame,
                                        'edited_after_reopen': nedit, 'disagreements': len(bad)}
    for i in bad[:3]:
        c = cs[i]
        ctx.broken.append({'name': 'correspondence:' + NAME,
                           'summary': 'the hybrid reopen model and pycdlib disagree on a case (%d of %d)' % (len(bad), len(cs)),
                           'case': {'label': c['label'], 'ops': [repr(x[:2]) for x in c['ops']][:60]}})
