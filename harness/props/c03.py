"""C03 -- written images are structurally valid ISO9660 for an independent reader.  DESIGN.md section 8.3."""
from harness import common, sysimg, sysprops
from harness.props import packleaf, ptableleaf, masterleaf

MODULE = 'C03'
THEOREMS_BASE = ['C03_records_inside_blocks', 'C03_written_where_cached', 'C03_writer_test_is_decisive', 'C03_restart_sound', 'C03_dir_length_inv', 'C03_insert_le1', 'C03_remove_le0', 'C03_ptr_extents_inv', 'C03_nonvacuous',
            'C03_recalculate_is_the_model', 'C03_recalculate_from_zero']
RECIPES = ['exact_fill', 'exact_fill_root', 'exact_fill_minus', 'exact_fill_plus', 'ptable_boundary',
           'ptable_boundary_dup_late', 'big_records', 'deep_tree']


def oracle(b, report):
    sysimg.oracle_c03(b, report)
    packleaf.oracle_positions(b, report)
    ptableleaf.collect(b)


def run(ctx):
    common.proof_stage(ctx, MODULE, common.theorems_of(MODULE))
    common.setup_impl_path()
    packleaf.leaf_correspondence(ctx)
    packleaf.translated_correspondence(ctx)
    quick = ctx.tier == 'quick'
    sysprops.run_oracle(ctx, 'C03', sysprops.histories(ctx, 150 if quick else 2500, RECIPES,
                                                       dict(allow_refusals=False, fat_dir=0.3, long_rr=0.08),
                                                       nops=(5, 40) if quick else (10, 120), recipe_cfgs=5 if quick else 40),
                        oracle, max_shrink=6)
    # the same object mastered more than once with edits in between that move directories (path table growth, duplicate PVD)
    hist = list(sysprops.histories(ctx, 30 if quick else 500, ['ptable_boundary', 'ptable_boundary_dup_late', 'exact_fill_plus'],
                                   dict(allow_refusals=False, fat_dir=0.3), nops=(8, 35), recipe_cfgs=3 if quick else 20))
    for label, cfg, ops, sizes in hist:
        if len(ops) < 4:
            continue
        ks = sorted(set(ctx.rng.randrange(1, len(ops)) for _ in range(ctx.rng.choice([1, 2, 3]))))
        sysprops.run_oracle(ctx, 'C03', iter([(label + '+write-in-between', cfg, ops, sizes)]), oracle, max_shrink=1,
                            build_kwargs={'schedule': {k: ['write'] for k in ks}})
    packleaf.flush_image_cases(ctx)
    ptableleaf.flush(ctx)
    masterleaf.correspondence(ctx)
    ctx.cov['rule'] = ('images of random edit histories over a pairwise-covering configuration set plus boundary recipes '
                       '(directory block filled exactly / one record short / one over, path table crossing 4096 bytes with a '
                       'duplicate PVD created before or after, 228-byte records with removals, trees deeper than 8); every image '
                       'decoded by the independent reader (all ECMA-119 rules) and compared with the library API tree and contents; '
                       'non-trivial = at least 3 edit kinds or a recipe')
    ctx.cov['trusted_base'] = ['Coq 8.16.1 kernel, vm_compute', 'Model/Pack.v (hand model of dr.py packing and of the writer loop), tied by the '
                               'exhaustive small-block leaf run and by record positions decoded from real images',
                               'translator (ceiling_div, add_to_ptr_size, remove_from_ptr_size, and _recalculate_extents_and_offsets with its children read/written attribute-wise as lists, validated against the real method from arbitrary restart indices)', 'harness/reader.py (independent decoder)']
    ctx.assumptions = ['logical block size 2048', 'record lengths <= half a block for the insertion/removal lemmas (dr_len <= 254)']


def replay(ctx, rep):
    return sysprops.replay(ctx, rep, oracle)
