"""C01 -- mastering fidelity: what was put in is what a reopened image shows.  DESIGN.md section 8.1."""
from harness import common, syslevel, sysrun

MODULE = 'C01'
THEOREMS = ['C01_spec_invariant', 'C01_refused_changes_nothing', 'C01_add_fp_exact', 'C01_nonvacuous']


def system_check(ctx, pid, n_hist, gen_kwargs, reopen_prob=0.0, max_gen=1, nops=(5, 30), ncfg=24, max_shrink=12,
                 extra_oracle=None, label='history', extra=()):
    """Generic engine: histories -> implementation -> (write, reopen, API view) -> Coq FsSpec comparison."""
    rng = ctx.rng
    cfgs = syslevel.covering_configs(rng, ncfg)
    cases, metas = [], []
    nfail_shrunk = 0
    extra = list(extra)
    for i in range(n_hist + len(extra)):
        if i < len(extra):
            cfg, ops, sizes, rp = extra[i]
            rp = set(rp)
            ctx.count('hist:recipe')
        else:
            cfg = cfgs[i % len(cfgs)]
            ops, sizes = syslevel.gen_history(rng, cfg, rng.randrange(*nops), **gen_kwargs)
            rp = set()
            if max_gen > 1:
                for _ in range(rng.randrange(0, max_gen)):
                    rp.add(rng.randrange(1, max(2, len(ops))))
        run = sysrun.execute(cfg, ops, sizes, rp, keep_iso=False)
        kinds = set(op['k'] for op in ops)
        ctx.case((cfg.key(), repr(ops), tuple(sorted(rp))), len(kinds) >= 3)
        ctx.count('cfg:' + cfg.key().split('-')[0])
        ctx.count('generations:%d' % (len(rp) + 1))
        for op in ops:
            ctx.count('op:' + op['k'])
        for o in run.outs:
            ctx.count('outcome:' + o.split(':')[0])
        if i in (3, 4):
            ctx.sample({'config': cfg.key(), 'reopen_before': sorted(rp), 'ops': ops[:12]})
        if run.fail is not None:
            kind, text, at = run.fail
            ctx.count('fail:' + kind)
            if nfail_shrunk < max_shrink:
                nfail_shrunk += 1
                mc, small, srp, want = sysrun.minimize(cfg, ops, sizes, rp)
                sig = sysrun.signature(pid, mc, small, srp, want)
                ctx.violation(sig, '%s: after this %s the image cannot be %s (%s); minimal: config %s, history %s'
                              % (pid, label, {'write': 'written', 'reopen': 'opened by the library itself',
                                              'view': 'listed/read through the API'}[kind], text, mc.key(),
                                 sysrun.shape_with_reopen(small, srp)),
                              {'config': mc.key(), 'ops': small, 'reopen_before': srp, 'failure': [kind, text],
                               'original': {'config': cfg.key(), 'ops': ops, 'reopen_before': sorted(rp)}})
            continue
        if extra_oracle is not None:
            extra_oracle(ctx, cfg, ops, sizes, rp, run)
        cases.append(sysrun.render_case(cfg, ops, run.outs, run.view, rp))
        metas.append((cfg, ops, sizes, rp, run))
    res, err = sysrun.coq_results(cases, pid + 'sys')
    if res is None:
        ctx.broken.append({'name': 'correspondence:FsSpec', 'summary': 'spec evaluation failed: ' + err})
        return
    nshr = 0
    agree = 0
    for code, (cfg, ops, sizes, rp, run) in zip(res, metas):
        if code == 0:
            agree += 1
            continue
        kind = sysrun.classify(code)
        ctx.count('disagree:' + kind)
        if nshr >= max_shrink:
            continue
        nshr += 1
        mc, small, srp, want = sysrun.minimize(cfg, ops, sizes, rp)
        if want is None or want[0] != kind:
            # the Python mirror does not reproduce what Coq established: report unshrunk
            mc, small, srp, want = cfg, ops, sorted(rp), (kind, 'unshrunk')
        else:
            r2 = sysrun.execute(mc, small, sizes, srp)
            chk, _ = sysrun.coq_results([sysrun.render_case(mc, small, r2.outs, r2.view, srp)], pid + 'cfm') if r2.fail is None else ([1], None)
            if not chk or chk[0] == 0:
                mc, small, srp, want = cfg, ops, sorted(rp), (kind, 'unshrunk')
        sig = sysrun.signature(pid, mc, small, srp, want)
        if kind == 'outcome':
            op = small[-1]
            ctx.violation(sig, '%s: edit %s (%s) has outcome %s on the implementation but the specification says %s; '
                          'minimal: config %s, history %s'
                          % (pid, op, op.get('why', 'expected valid'), want[2] if len(want) > 2 else '?',
                             'refuse' if len(want) > 2 and want[2] == 'ok' else 'accept', mc.key(),
                             sysrun.shape_with_reopen(small, srp)),
                          {'config': mc.key(), 'ops': small, 'reopen_before': srp})
        else:
            r2 = sysrun.execute(mc, small, sizes, srp)
            ctx.violation(sig, '%s: the reopened image does not show what the edits imply; minimal: config %s, history %s'
                          % (pid, mc.key(), sysrun.shape_with_reopen(small, srp)),
                          {'config': mc.key(), 'ops': small, 'reopen_before': srp,
                           'api_view': sorted(map(repr, r2.view or [])), 'outcomes': r2.outs})
    ctx.cov['traces_validated_against_impl'] += agree
    ctx.cov['correspondences']['FsSpec.run vs PyCdlib edits + write + reopen + API view'] = {
        'cases': len(cases), 'disagreements': len(cases) - agree}


def recipe_extras(ctx, names, per, link=True, reopen=False):
    """boundary recipes as (cfg, ops, sizes, reopen points); only recipes whose ops the specification knows"""
    from harness import recipes
    allc = syslevel.all_configs()
    out = []
    for name in names:
        made = tries = 0
        while made < per and tries < 40:
            tries += 1
            cfg = ctx.rng.choice(allc)
            r = recipes.make(name, cfg, ctx.rng)
            if r is None:
                continue
            ops, sizes = r
            if any(op['k'] == 'dup_pvd' for op in ops):
                continue
            rp = [ctx.rng.randrange(1, len(ops))] if reopen and len(ops) > 2 and ctx.rng.random() < 0.6 else []
            out.append((cfg, ops, dict(sizes), rp))
            made += 1
    if link:
        for name, fn in sorted(recipes.LINK_RECIPES.items()):
            for _ in range(per):
                cfg = ctx.rng.choice(allc)
                ops, sizes, rp = fn(cfg, ctx.rng)
                out.append((cfg, ops, sizes, rp if reopen else []))
    return out


def inode_source_oracle(ctx):
    """the content source of an edit is read from where the edit said: Inode.new(length, source, manage_fp, offset) followed by
    InodeOpenData must deliver source[offset:offset+length], for file objects and for files opened by name (add_file), at
    offset 0 and at the non-zero offsets that further extents of very large files use"""
    import io
    import os
    import tempfile
    from pycdlib import inode
    data = bytes((i * 7 + i // 251) % 256 for i in range(200000))
    fd, path = tempfile.mkstemp(prefix='c01src', dir=(os.makedirs(common.WORK, exist_ok=True) or common.WORK))
    try:
        os.write(fd, data)
        os.close(fd)
        for manage in (True, False):
            for off in (0, 1, 2048, 70001):
                for ln in (0, 5, 2048, 100000):
                    ino = inode.Inode()
                    fp = None if manage else open(path, 'rb')
                    try:
                        if fp is not None and (off + ln) % 3 == 1:
                            fp.seek(777)         # a file object that was used before: the source offset is absolute, not relative to it
                        ino.new(ln, path if manage else fp, manage, off)
                        with inode.InodeOpenData(ino, 2048) as (dfp, dlen):
                            got = dfp.read(dlen)
                    finally:
                        if fp is not None:
                            fp.close()
                    ctx.case(('inode-source', manage, off, ln), True)
                    if got != data[off:off + ln] or dlen != ln:
                        ctx.violation('c01:content-source:%s:offset' % ('by-name' if manage else 'file-object'),
                                      'C01: content added from a %s at source offset %d, length %d is read from the wrong place '
                                      '(first byte %r, expected %r): a further extent of a file larger than 4 GiB added with add_file() '
                                      'would repeat the beginning of the file' % ('file name' if manage else 'file object', off, ln,
                                                                                 got[:1], data[off:off + 1]),
                                      {'manage_fp': manage, 'offset': off, 'length': ln})
                        return
    finally:
        try:
            os.unlink(path)
        except OSError:
            pass


BOUNDARY = ['exact_fill', 'exact_fill_root', 'exact_fill_plus', 'ce_gap_plus', 'ce_gap_exact', 'big_records', 'udf_fid_cross', 'fat_dir_churn']


def run(ctx):
    common.proof_stage(ctx, MODULE, common.theorems_of(MODULE), extra_targets=['theories/Spec/FsCases.vo'])
    common.setup_impl_path()
    inode_source_oracle(ctx)
    from harness.props import accountnsleaf
    accountnsleaf.correspondence(ctx)
    n = 240 if ctx.tier == 'quick' else 3000
    system_check(ctx, 'C01', n, dict(allow_refusals=False), nops=(5, 30) if ctx.tier == 'quick' else (10, 80),
                 extra=recipe_extras(ctx, BOUNDARY, 3 if ctx.tier == 'quick' else 25))
    ctx.cov['rule'] = ('edit histories of 5-30 accepted edits (add_fp/add_directory/rm_file/rm_directory/add_hard_link/'
                       'rm_hard_link/symlinks/hidden/El Torito) over a pairwise-covering set of configurations; '
                       'non-trivial = at least 3 different edit kinds; distinct by (configuration, history)')
    ctx.cov['trusted_base'] = ['Coq 8.16.1 kernel, vm_compute (spec evaluation)',
                               'Spec/FsSpec.v is the specification ("what the edits imply"); tied to pycdlib by this differential run',
                               'harness/syslevel.py, harness/sysrun.py (generator, API view, canonicalisation)']
    ctx.assumptions = ['ISO9660 paths at most 6 directories deep (relocation is C08)', 'Rock Ridge names in bijection with ISO names']
