"""C01 -- mastering fidelity: what was put in is what a reopened image shows.  DESIGN.md section 8.1."""
from harness import common, syslevel
from harness.common import z

MODULE = 'C01'
THEOREMS = []


def run_history(cfg, ops, sizes):
    """Execute on the implementation: per-op outcomes, then write + reopen + API view."""
    iso = cfg.new()
    outs = []
    for op in ops:
        outs.append(syslevel.apply_op(iso, op, sizes))
    return iso, outs


def make_content_key(ops, sizes, catalog_paths):
    table = {}
    for op in ops:
        if op['k'] == 'add_fp':
            c = syslevel.blob_content(op['blob'], op['size'])
            table.setdefault(c, op['blob'] if op['size'] > 0 else 0)

    def key(data, path):
        if path in catalog_paths:
            return -1
        if data == b'':
            return 0
        return table.get(data, -2)
    return key


def blob_table(ops):
    return '[' + '; '.join('(%s, 0)' % z(op['blob']) for op in ops if op['k'] == 'add_fp' and op['size'] == 0) + ']'


def render_case(cfg, ops, outs, view, names):
    code = {'ok': 0, 'refused': 1}
    return ('{| y_ops := [%s]; y_outcomes := [%s]; y_view := %s; y_tbl := %s; y_start := empty_fs |}'
            % ('; '.join(syslevel.coq_op(op, names, cfg) for op in ops),
               '; '.join(str(code.get(o, 2)) for o in outs),
               syslevel.coq_view(view, names), blob_table(ops)))


def run(ctx):
    common.setup_impl_path()
    rng = ctx.rng
    cfgs = syslevel.covering_configs(rng, 24)
    cases = []
    metas = []
    for i in range(200):
        cfg = cfgs[i % len(cfgs)]
        ops, sizes = syslevel.gen_history(rng, cfg, rng.randrange(5, 30))
        iso, outs = run_history(cfg, ops, sizes)
        catalog_paths = set()
        for op, o in zip(ops, outs):
            if op['k'] == 'add_eltorito' and o == 'ok':
                catalog_paths.add(op['catalog'])
                if 'jol' in op:
                    catalog_paths.add(op['jol'])
        try:
            img = syslevel.write_image(iso)
            iso.close()
            iso2 = syslevel.reopen(img)
            view = syslevel.api_view(iso2, cfg, make_content_key(ops, sizes, catalog_paths))
            iso2.close()
        except Exception as e:
            import traceback
            print('WRITE/REOPEN FAILED', cfg.key(), repr(e))
            traceback.print_exc(limit=3)
            print(ops)
            continue
        names = syslevel.Names()
        cases.append(render_case(cfg, ops, outs, view, names))
        metas.append((cfg, ops, outs, view))
    res, err = common.coq_map_cases('C01sys', ['From PV.Spec Require Import FsSpec FsCases.'], [], 'syscase', cases, 'results')
    if res is None:
        print(err)
        return
    from collections import Counter
    print(Counter(res))
    shown = 0
    for r, (cfg, ops, outs, view) in zip(res, metas):
        if r != 0 and shown < 6:
            shown += 1
            print('----', cfg.key(), r)
            if r >= 1000:
                i = r - 1000
                print('  op', i, ops[i], '->', outs[i])
            else:
                for o, x in zip(ops, outs):
                    print('   ', x, o)
                for v in sorted(view, key=repr):
                    print('   V', v)
