"""C13 -- namespace rules: unique names, legal identifiers, refused otherwise.  DESIGN.md section 8.13."""
import io
import itertools

from harness import common, reader, sysimg, syslevel, sysprops, sysrun
from harness.common import z
from harness.props import c18

MODULE = 'C13'


def leaf_grid(ctx):
    """Names.check_iso9660_filename / _directory vs the real checkers on byte strings"""
    import pycdlib.pycdlib as pm
    from pycdlib import pycdlibexception as pe
    rng = ctx.rng
    alpha = [b'A', b'a', b'0', b'_', b'.', b';', b'+', b'-', b' ', b'1', b'\xc3\xa9', b'\x00']
    strings = set()
    for n in (0, 1, 2, 3, 4):
        if n == 4 and ctx.tier == 'quick':
            for _ in range(3000):
                strings.add(b''.join(rng.choice(alpha) for _ in range(4)))
            continue
        for t in itertools.product(alpha, repeat=n):
            strings.add(b''.join(t))
    valpha = [b'0', b'1', b'9', b'+', b'-', b'_', b' ', b'A', b'\n', b'3', b'2', b'7', b'6']
    for n in (1, 2, 3, 4, 5, 6):
        for _ in range(250):
            strings.add(b'X.;' + b''.join(rng.choice(valpha) for _ in range(n)))
    for v in (b'0', b'1', b'32767', b'32768', b'032767', b'99999', b'100000', b'00001', b'1_0', b'+1', b' 1', b'1 ', b'1\n'):
        strings.add(b'FOO.TXT;' + v)
        strings.add(b'FOO;' + v)
    for n in (7, 8, 9, 30, 31, 32, 207, 208, 230, 250):
        strings.add(b'A' * n)
        strings.add(b'A' * n + b'.;1')
        strings.add(b'A' * 8 + b'.' + b'B' * min(n, 40) + b';1')
    rows = []
    for s in sorted(strings):
        for lvl in (1, 2, 3, 4):
            for isdir in (False, True):
                try:
                    (pm._check_iso9660_directory if isdir else pm._check_iso9660_filename)(s, lvl)
                    o = 0
                except pe.PyCdlibInvalidInput:
                    o = 1
                except Exception as e:
                    o = 2
                    ctx.violation('c13:checker-fault:%s' % type(e).__name__, 'C13: the identifier checker raises %s (not the invalid-input '
                                  'error) for %r at level %d' % (type(e).__name__, s[:40], lvl), {'name': s.decode('latin-1'), 'level': lvl, 'dir': isdir})
                rows.append('(%s, %d, %s, %d)' % (common.zlist(s), lvl, 'true' if isdir else 'false', o))
                ctx.case(('chk', s, lvl, isdir), len(s) > 0)
    defs = ['Definition oc (o : outcome) : Z := match o with Accept => 0 | Refuse => 1 | Fault => 2 end.',
            'Fixpoint bad_from (k : nat) (cs : list (list Z * Z * bool * Z)) : list nat := match cs with [] => [] | (s, lvl, d, e) :: r => '
            'if oc (if d then check_iso9660_directory s lvl else check_iso9660_filename s lvl) =? e then bad_from (S k) r else k :: bad_from (S k) r end.']
    bad, err = common.coq_bad_cases('c13leaf', ['From PV.Model Require Import Names.'], defs, '(list Z * Z * bool * Z)', rows, 'bad_from 0', shard=3000)
    name = 'Names.check_iso9660_filename/_directory vs pycdlib._check_iso9660_filename/_directory'
    if bad is None:
        ctx.broken.append({'name': 'correspondence:' + name, 'summary': 'model evaluation failed: ' + err})
        return
    ctx.cov['traces_validated_against_impl'] += len(rows) - len(bad)
    ctx.cov['correspondences'][name] = {'cases': len(rows), 'disagreements': len(bad)}
    for i in bad[:3]:
        ctx.broken.append({'name': 'correspondence:' + name, 'summary': 'the identifier checker and Model/Names.v disagree (%d of %d cases)'
                           % (len(bad), len(rows)), 'coq_case': rows[i][:400]})


def must_refuse_edits(cfg, iso, shadow):
    """catalogue of edits that break a rule, against the current content; yields (cause, callable)"""
    import pycdlib
    files = shadow['files']
    dirs = shadow['dirs']
    rr = {'rr_name': 'x'} if cfg.rr else {}

    def fp():
        return io.BytesIO(b'dup!!')
    for ns in ('iso', 'jol', 'udf'):
        kw = {'iso': 'iso_path', 'jol': 'joliet_path', 'udf': 'udf_path'}[ns]
        extra = rr if ns == 'iso' else {}
        # iso_path is mandatory for nothing: give only the namespace under test plus an unrelated fresh ISO name where needed
        for p in files[ns][:2]:
            yield 'dup-file-over-file:' + ns, (lambda p=p, kw=kw, extra=extra: iso.add_fp(fp(), 5, **dict({kw: p}, **extra)))
            yield 'dup-dir-over-file:' + ns, (lambda p=p, kw=kw, extra=extra: iso.add_directory(**dict({kw: p.split(';')[0] if ns != 'iso' else p}, **extra)))
        for p in dirs[ns][:2]:
            yield 'dup-dir-over-dir:' + ns, (lambda p=p, kw=kw, extra=extra: iso.add_directory(**dict({kw: p}, **extra)))
            yield 'dup-file-over-dir:' + ns, (lambda p=p, kw=kw, extra=extra: iso.add_fp(fp(), 5, **dict({kw: p}, **extra)))
    lvl = max(cfg.level, getattr(iso, 'interchange_level', cfg.level))      # a reopened object works at the level it inferred
    bad = ['/X.;0', '/Y.;32768', '/Z.;A', '/.;1', '/A;1;2', '/W.;+1', '/V.;1_0', '/U.; 1', '/T.;00001x']
    if lvl < 4:
        bad += ['/lower.;1', '/A B.;1', '/A-B.;1', '/É.;1']
    if lvl == 1:
        bad += ['/TOOLONGNAME.;1', '/A.LONG;1']
    for b in bad:
        yield 'illegal-identifier', (lambda b=b: iso.add_fp(fp(), 5, iso_path=b, **rr))
    if lvl < 4:
        yield 'illegal-dir-identifier', (lambda: iso.add_directory(iso_path='/lower', **rr))
        yield 'illegal-dir-identifier', (lambda: iso.add_directory(iso_path='/A.B', **rr))
    if lvl == 1:
        yield 'illegal-dir-identifier', (lambda: iso.add_directory(iso_path='/NINECHARS', **rr))
    if lvl in (2, 3):
        yield 'dir-name-too-long', (lambda: iso.add_directory(iso_path='/' + 'D' * 208, **rr))
    # the on-disc field: 33 + len + pad (+ RR/XA) must fit 255
    yield 'identifier-does-not-fit-record', (lambda: iso.add_fp(fp(), 5, iso_path='/' + 'N' * 246 + '.;1', **rr))
    if lvl >= 2:
        yield 'identifier-does-not-fit-record', (lambda: iso.add_fp(fp(), 5, iso_path='/' + 'N' * 220 + '.' + 'E' * 30 + ';1', **rr))
    if cfg.rr:
        def dup_in_rr_moved(kind):
            # a directory called RR_MOVED is no exception to "no two entries with one identifier"
            if not any(d == '/RR_MOVED' for d in dirs['iso']):
                iso.add_directory(iso_path='/RR_MOVED', rr_name='rr_moved')
                dirs['iso'].append('/RR_MOVED')
            if kind == 'dir':
                iso.add_directory(iso_path='/RR_MOVED/DUPD', rr_name='one')
                iso.add_directory(iso_path='/RR_MOVED/DUPD', rr_name='two')
            else:
                iso.add_fp(fp(), 5, iso_path='/RR_MOVED/DUPF.;1', rr_name='one')
                iso.add_fp(fp(), 5, iso_path='/RR_MOVED/DUPF.;1', rr_name='two')
        yield 'dup-under-rr-moved:dir', (lambda: dup_in_rr_moved('dir'))
        yield 'dup-under-rr-moved:file', (lambda: dup_in_rr_moved('file'))
        # Rock Ridge entries that need more than one continuation block cannot be recorded
        fresh = '/RRTOOBIG.;1'
        yield 'rr-entries-exceed-continuation-block', (lambda: iso.add_fp(fp(), 5, iso_path=fresh, rr_name='n' * 3000))
        yield 'rr-entries-exceed-continuation-block', (lambda: iso.add_directory(iso_path='/RRTOOBIG', rr_name='d' * 2500))
        yield 'rr-entries-exceed-continuation-block', (lambda: iso.add_symlink(symlink_path=fresh, rr_symlink_name='s',
                                                                                rr_path='/'.join(['t' * 200] * 14)))
    if cfg.joliet:
        yield 'empty-name:joliet', (lambda: iso.add_directory(joliet_path='/'))
        yield 'empty-name:joliet', (lambda: iso.add_fp(fp(), 5, joliet_path='/'))
    if cfg.udf:
        yield 'empty-name:udf', (lambda: iso.add_directory(udf_path='/'))
        yield 'empty-name:udf', (lambda: iso.add_fp(fp(), 5, udf_path='/'))
    if cfg.joliet:
        yield 'joliet-name-too-long', (lambda: iso.add_fp(fp(), 5, joliet_path='/' + 'j' * 65))
        yield 'joliet-name-too-long', (lambda: iso.add_directory(joliet_path='/' + '\U0001F600' * 33))
    if cfg.udf:
        yield 'udf-name-too-long', (lambda: iso.add_fp(fp(), 5, udf_path='/' + 'u' * 256))
        yield 'udf-name-too-long', (lambda: iso.add_directory(udf_path='/' + '日' * 130))
    if not cfg.rr and lvl < 4:
        deep = ''
        ok = True
        for d in range(8):
            deep += '/D%d' % d
            if d < 7:
                try:
                    iso.get_record(iso_path=deep)
                except Exception:
                    ok = False
        # only meaningful when the chain exists; the harness builds it in a dedicated case below


def record_fit_sweep(ctx):
    """identifier lengths around the capacity of the one-byte record length, for every combination of level, XA and Rock Ridge,
    files and directories: an edit is either refused at once or the image can be written (and names the entry)"""
    import pycdlib
    quick = ctx.tier == 'quick'
    for lvl in (2, 3, 4):
        for xa in (False, True):
            for rrv in (None, '1.09', '1.12'):
                for isdir in (False, True):
                    lens = list(range(196, 232)) if not quick else list(range(200, 226, 1 if xa else 3))
                    for L in lens:
                        iso = pycdlib.PyCdlib()
                        kw = {'interchange_level': lvl, 'xa': xa}
                        if rrv:
                            kw['rock_ridge'] = rrv
                        iso.new(**kw)
                        name = ('D' * L) if isdir else ('F' * (L - 3) + '.;1')
                        rr = {'rr_name': 'n'} if rrv else {}
                        ctx.case(('fit', lvl, xa, rrv, isdir, L), True)
                        try:
                            if isdir:
                                iso.add_directory(iso_path='/' + name, **rr)
                            else:
                                iso.add_fp(io.BytesIO(b'x'), 1, iso_path='/' + name, **rr)
                        except pycdlib.pycdlibexception.PyCdlibInvalidInput:
                            iso.close()
                            continue
                        except Exception as e:
                            ctx.violation('c13:record-fit:fault:%s' % type(e).__name__, 'C13: adding a %s with a %d-byte identifier (level %d, xa=%s, '
                                          'rock ridge %s) raises %s instead of the invalid-input error' % ('directory' if isdir else 'file', L, lvl, xa,
                                                                                                          rrv, type(e).__name__),
                                          {'level': lvl, 'xa': xa, 'rr': rrv, 'dir': isdir, 'length': L})
                            iso.close()
                            continue
                        try:
                            img, _ = sysimg.master(iso)
                            iso2 = syslevel.reopen(img)
                            iso2.get_record(iso_path='/' + name)
                            iso2.close()
                        except Exception as e:
                            ctx.violation('c13:record-fit:accepted-then-fails', 'C13: a %s with a %d-byte identifier (level %d, xa=%s, rock ridge %s) is '
                                          'accepted by the edit but the image cannot be written / read back: %s: %s'
                                          % ('directory' if isdir else 'file', L, lvl, xa, rrv, type(e).__name__, str(e)[:80]),
                                          {'level': lvl, 'xa': xa, 'rr': rrv, 'dir': isdir, 'length': L})
                        iso.close()


def shadow_of(iso, cfg):
    sh = {'files': {'iso': [], 'jol': [], 'udf': []}, 'dirs': {'iso': [], 'jol': [], 'udf': []}}
    spaces = [('iso', 'iso_path')] + ([('jol', 'joliet_path')] if iso.has_joliet() else []) + ([('udf', 'udf_path')] if iso.has_udf() else [])
    for ns, kw in spaces:
        for dirname, dirlist, filelist in iso.walk(**{kw: '/'}):
            for n in dirlist:
                sh['dirs'][ns].append(dirname.rstrip('/') + '/' + n)
            for n in filelist:
                sh['files'][ns].append(dirname.rstrip('/') + '/' + n)
    return sh


def image_names_oracle(b, report):
    """identifiers in the written image: unique per directory and namespace, legal for the level"""
    rd = b.rd
    if rd is None:
        return
    lvl = b.cfg.level
    for ns, root in (('iso', rd.iso_root), ('jol', rd.joliet_root), ('udf', rd.udf['root'] if rd.udf and rd.udf.get('root') else None)):
        if root is None:
            continue
        stack = [(root, '')]
        while stack:
            node, prefix = stack.pop()
            seen = {}
            for c in node.children:
                nm = c.name
                key = nm
                if key in seen and not (c.records and len(c.records) > 1):
                    report('duplicate-identifier:' + ns, 'directory %s:%s holds two entries with identifier %r' % (ns, prefix or '/', nm if isinstance(nm, str) else nm[:40]), None)
                seen[key] = True
                if ns == 'iso' and lvl < 4 and not (c.rr is not None and c.rr.cl is not None):
                    s = nm.decode('latin-1')
                    if s in ('RR_MOVED',):
                        pass
                    elif c.is_dir and not c18.legal_dir(s, lvl):
                        report('illegal-identifier-in-image:dir', 'directory identifier %r in the image breaks the level-%d rules' % (s[:40], lvl), None)
                    elif not c.is_dir and not c18.legal_file(s, lvl):
                        report('illegal-identifier-in-image:file', 'file identifier %r in the image breaks the level-%d rules' % (s[:40], lvl), None)
                if ns == 'jol':
                    u = nm if isinstance(nm, str) else nm.decode('utf-16_be', 'replace')
                    if len(u.encode('utf-16_be')) // 2 > 64 + 2:
                        report('joliet-identifier-too-long', 'Joliet identifier of %d UCS-2 units in the image' % (len(u.encode('utf-16_be')) // 2), None)
                if c.is_dir:
                    p = prefix + '/' + (nm if isinstance(nm, str) else nm.decode('latin-1'))
                    stack.append((c, p))


def too_many_directories(ctx):
    """a directory whose path-table number exceeds 65535 and that has a sub-directory: the 16-bit parent number of the child
    cannot be recorded -- the edit must be refused, not accepted with the image unwritable"""
    import pycdlib
    for ns in (['jol'] if ctx.tier == 'quick' else ['jol', 'iso']):
        iso = pycdlib.PyCdlib()
        iso.new(interchange_level=3, joliet=3)
        kw = 'joliet_path' if ns == 'jol' else 'iso_path'
        up = (lambda x: x) if ns == 'jol' else (lambda x: x.upper())
        refused = None
        try:
            for a in range(256):
                iso.add_directory(**{kw: up('/a%03d' % a)})
                for b in range(256):
                    iso.add_directory(**{kw: up('/a%03d/b%03d' % (a, b))})
            iso.add_directory(**{kw: up('/a255/b255/child')})
        except pycdlib.pycdlibexception.PyCdlibInvalidInput as e:
            refused = e
        ctx.case(('too-many-dirs', ns, refused is not None), True)
        if refused is None:
            try:
                iso.write_fp(io.BytesIO())
            except Exception as e:
                ctx.violation('c13:too-many-directories:%s:write-fails' % ns,
                              'C13: 65794 %s directories are accepted, then the image cannot be written: %s: %s (the parent directory number of a path '
                              'table record is a 16-bit field)' % (ns, type(e).__name__, str(e)[:80]), {'namespace': ns, 'directories': 65794})
        iso.close()


def run(ctx):
    common.proof_stage(ctx, MODULE, common.theorems_of(MODULE))
    common.setup_impl_path()
    import pycdlib
    leaf_grid(ctx)
    rng = ctx.rng
    quick = ctx.tier == 'quick'
    cfgs = syslevel.covering_configs(rng, 32)
    # (2) every rule-breaking edit is refused with the invalid-input error, at the time of the edit
    for i in range(60 if quick else 900):
        cfg = cfgs[i % len(cfgs)]
        ops, sizes = syslevel.gen_history(rng, cfg, rng.randrange(3, 18), allow_refusals=False, allow_boot=False)
        b = sysimg.build(cfg, ops, sizes)
        if b.fail is not None:
            continue
        iso = b.iso
        if i % 2 == 1:
            # the same catalogue against the object obtained by writing and reopening (duplicate detection must not rely on
            # bookkeeping that only exists in the session that created the entries)
            try:
                img, _ = sysimg.master(iso)
                iso.close()
                iso = syslevel.reopen(img)
                ctx.count('catalogue-on-reopened')
            except Exception:
                continue
        try:
            sh = shadow_of(iso, cfg)
            for cause, call in must_refuse_edits(cfg, iso, sh):
                ctx.case(('refuse', cfg.key(), cause, i), True)
                ctx.count('cause:' + cause.split(':')[0])
                try:
                    call()
                    out = 'accepted'
                except pycdlib.pycdlibexception.PyCdlibInvalidInput:
                    out = 'refused'
                except Exception as e:
                    out = 'fault:' + type(e).__name__
                if out == 'refused':
                    continue
                later = ''
                if out == 'accepted':
                    try:
                        sysimg.master(iso)
                    except Exception as e:
                        later = '; the next write then fails with %s' % type(e).__name__
                ctx.violation('c13:%s:%s' % (cause, out.split(':')[0] if out.startswith('fault') else out),
                              'C13: an edit breaking a naming rule (%s) is %s instead of being refused with PyCdlibInvalidInput%s; config %s'
                              % (cause, out, later, cfg.key()), {'config': cfg.key(), 'ops': ops, 'cause': cause, 'outcome': out})
                if out == 'accepted':
                    break          # the object is no longer the one the catalogue was computed for
        finally:
            iso.close()
    record_fit_sweep(ctx)
    # depth rule
    for lvl in (1, 2, 3):
        iso = pycdlib.PyCdlib()
        iso.new(interchange_level=lvl)
        p = ''
        for d in range(9):
            p += '/D%d' % d
            try:
                iso.add_directory(iso_path=p)
                out = 'accepted'
            except pycdlib.pycdlibexception.PyCdlibInvalidInput:
                out = 'refused'
            except Exception as e:
                out = 'fault:' + type(e).__name__
            want = 'accepted' if d < 7 else 'refused'
            ctx.case(('depth', lvl, d), True)
            if out != want:
                ctx.violation('c13:depth:%s' % out, 'C13: directory at depth %d without Rock Ridge at level %d is %s' % (d + 1, lvl, out), {'level': lvl, 'depth': d + 1})
                break
            if out == 'refused':
                break
        iso.close()
    too_many_directories(ctx)
    # (3) identifiers of written images
    sysprops.run_oracle(ctx, 'C13', sysprops.histories(ctx, 80 if quick else 1500, ['reloc_same_names', 'deep_tree'], dict(allow_refusals=True, refusal_bias=0.2),
                                                       nops=(5, 30)), image_names_oracle, need_reopen=False, max_shrink=3,
                        fail_is_violation=False)
    ctx.cov['rule'] = ('checker grid: all byte strings up to length 3 (thorough: 4) over a 12-symbol alphabet, version strings over a 13-symbol alphabet, '
                       'length boundaries 7-9 / 30-32 / 207-208 / 230-250, x levels 1-4 x file|dir; rule-breaking edits (duplicates of every kind in '
                       'every namespace, illegal identifiers per level, over-long names for the record / Joliet / UDF, depth > 8) against random '
                       'images: each must raise PyCdlibInvalidInput at once; identifiers of written images unique and legal')
    ctx.cov['trusted_base'] = ['Coq 8.16.1 kernel, vm_compute', 'translator (d-character set)', 'Model/Names.v tied by the checker grid',
                               'Spec/FsSpec.v (uniqueness invariant)', 'harness/reader.py']
    ctx.assumptions = ['UDF name limit taken as 254 bytes of OSTA CS0 (255 with the compression id)']


def replay(ctx, rep):
    return sysprops.replay(ctx, rep, image_names_oracle, need_reopen=False)
