"""C11 -- El Torito boot structures point at the right bytes.  DESIGN.md section 8.11."""
from harness import common, nsoracles, sysimg, syslevel, sysprops, sysrun
from harness.props import etleaf, accountbootleaf, bootparseleaf

MODULE = 'C11'


def oracle(b, report):
    nsoracles.oracle_c11(b, report)


def boot_history(rng, cfg):
    """files, an El Torito catalog with 0..5 extra sections (media types, platform ids, load sizes, boot info
    tables, multi-sector boot files), edits before and after; sometimes rm_eltorito at the end"""
    ops, sizes = [], {}
    nb = 0

    def add_file(path, size, rr=None, extra=None):
        nonlocal nb
        nb += 1
        sizes[nb] = size
        op = {'k': 'add_fp', 'blob': nb, 'size': size, 'iso': path}
        if cfg.rr:
            op['rr'] = rr or ('f%d' % nb)
        if extra:
            op.update(extra)
        ops.append(op)
        return nb
    if rng.random() < 0.15:
        ops.append({'k': 'dup_pvd'})      # a copy of the PVD made BEFORE El Torito: the boot record must still be at 17
    nboot = rng.choice([1, 1, 2, 3, 4, 5, 6])
    if rng.random() < 0.04:
        nboot = 32          # 31 sections: the catalog fills its block exactly (no terminating entry)
    bootsizes = [rng.choice([64, 100, 2047, 2048, 2049, 4096, 5000, 6200, 1474560 if False else 3000]) for _ in range(nboot)]
    for i in range(rng.randrange(0, 4)):
        add_file('/' + syslevel.iso_file_name(cfg, 50 + i), rng.choice(syslevel.SIZES))
    for i, sz in enumerate(bootsizes):
        extra = {}
        if cfg.joliet and rng.random() < 0.5:
            extra['jol'] = '/boot%d.img' % i
        if cfg.udf and rng.random() < 0.5:
            extra['udf'] = '/boot%d.img' % i
        add_file('/BOOT%d.;1' % i, sz, 'boot%d.img' % i, extra)
        if rng.random() < 0.5:
            add_file('/' + syslevel.iso_file_name(cfg, 70 + i), rng.choice(syslevel.SIZES))     # data after the boot file
    if rng.random() < 0.6:
        # an ordinary file that carries the catalog's identifier in ANOTHER directory
        d = {'k': 'add_dir', 'iso': '/BACKUP'}
        if cfg.rr:
            d['rr'] = 'backup'
        if cfg.joliet:
            d['jol'] = '/backup'
        ops.append(d)
        extra = {'jol': '/backup/boot.cat'} if cfg.joliet else {}
        add_file('/BACKUP/BOOT.CAT;1', 777, 'boot.cat', extra)
    first = {'k': 'add_eltorito', 'bootfile': '/BOOT0.;1', 'catalog': '/BOOT.CAT;1'}
    if cfg.rr:
        first['rr'] = 'boot.cat'
    if cfg.joliet:
        first['jol'] = '/boot.cat'
    if cfg.udf:
        first['udf'] = '/boot.cat'
    if rng.random() < 0.5:
        first['boot_info_table'] = True
    if rng.random() < 0.5:
        first['boot_load_size'] = rng.choice([1, 4, 8])
    if rng.random() < 0.3:
        first['platform_id'] = rng.choice([0, 1, 2, 0xef])
    ops.append(first)
    if rng.random() < 0.15:
        ops.append({'k': 'dup_pvd'})      # ... or after it
    for i in range(1, nboot):
        sec = {'k': 'add_eltorito_section', 'bootfile': '/BOOT%d.;1' % i}
        if rng.random() < 0.4:
            sec['efi'] = True
        if rng.random() < 0.3:
            sec['boot_load_size'] = rng.choice([1, 4])
        if rng.random() < 0.15:
            sec['bootable'] = False      # the entry starts with 0x00, like the terminator
        ops.append(sec)
        if rng.random() < 0.3:
            add_file('/' + syslevel.iso_file_name(cfg, 90 + i), rng.choice(syslevel.SIZES))
    # sometimes the first boot file loses its file-system names (a documented way to hide it); its boot info table and load address
    # must still follow it through later edits and through a reopen
    if rng.random() < 0.25:
        bf0 = next(o for o in ops if o['k'] == 'add_fp' and o.get('iso') == '/BOOT0.;1')
        names = [('iso', '/BOOT0.;1')] + ([('jol', bf0['jol'])] if 'jol' in bf0 else []) + ([('udf', bf0['udf'])] if 'udf' in bf0 else [])
        for ns, pth in names:
            ops.append({'k': 'rm_link', 'ns': ns, 'path': pth})
    # edits after: these move the boot files
    for i in range(rng.randrange(0, 4)):
        if rng.random() < 0.6:
            add_file('/' + syslevel.iso_file_name(cfg, 10 + i), rng.choice(syslevel.SIZES))
        else:
            cand = [o for o in ops if o['k'] == 'add_fp' and not o['iso'].startswith('/BOOT')]
            if cand:
                o = rng.choice(cand)
                ops.append({'k': 'rm_file', 'ns': 'iso', 'path': o['iso']})
                ops = [x for x in ops if x is not o] if False else ops
    return ops, sizes


def hidden_boot_history(rng, cfg):
    """a boot file with a boot info table loses all its names, the image is written and reopened, later edits move the
    boot file, the image is written again: entry and table must follow the file.  Returns (ops, sizes, reopen_points)"""
    ops, sizes = [], {}

    def add(path, size, rrn, **extra):
        k = len(sizes) + 1
        sizes[k] = size
        op = dict(k='add_fp', blob=k, size=size, iso=path, **extra)
        if cfg.rr:
            op['rr'] = rrn
        ops.append(op)
    add('/ZLAST.;1', rng.choice([1, 3000]), 'zlast')
    add('/BOOT0.;1', rng.choice([64, 100, 2000, 2047, 2049, 3000, 5000, 70000]), 'boot0')
    # without a boot info table the only recorded length is the load size, which may be smaller OR larger than the file: the
    # file must keep all its bytes and only its own sectors through the reopen
    et = dict(k='add_eltorito', bootfile='/BOOT0.;1', catalog='/BOOT.CAT;1', boot_info_table=rng.random() < 0.5)
    if cfg.rr:
        et['rr'] = 'boot.cat'
    if rng.random() < 0.6:
        et['boot_load_size'] = rng.choice([1, 4, 8])
    ops.append(et)
    if rng.random() < 0.3:
        # a second nameless boot file right behind the first
        add('/BOOT1.;1', rng.choice([1, 3000]), 'boot1')
        ops.append({'k': 'add_eltorito_section', 'bootfile': '/BOOT1.;1'})
        ops.append({'k': 'rm_link', 'ns': 'iso', 'path': '/BOOT1.;1'})
    ops.append({'k': 'rm_link', 'ns': 'iso', 'path': '/BOOT0.;1'})
    rp = [len(ops)]
    for i in range(rng.randrange(1, 4)):
        add('/A%d.;1' % i, rng.choice([1, 2048, 4097, 9000]), 'a%d' % i)
    d = {'k': 'add_dir', 'iso': '/ADIR'}
    if cfg.rr:
        d['rr'] = 'adir'
    ops.append(d)
    if rng.random() < 0.5:
        rp.append(len(ops))
        add('/B.;1', 5000, 'b')
    return ops, sizes, rp


def _tree_summary(root):
    dirs, files = {}, {}
    stack = [(root, '')]
    while stack:
        node, prefix = stack.pop()
        for c in node.children:
            nm = c.name if isinstance(c.name, str) else c.name.decode('latin-1')
            p = prefix + '/' + nm
            ln = sum(e[1] for e in c.extents) if c.extents else 0
            if c.is_dir:
                dirs[p] = ln
                stack.append((c, p))
            else:
                files[p] = ln
    dirs['/'] = sum(e[1] for e in root.extents) if root.extents else 0
    return dirs, files


def _only_directory_slack(a, b):
    """b (add ... rm_eltorito) differs from a (never had El Torito) only by spare directory blocks: no boot record, the same
    names and file lengths in every hierarchy, directories at least as long, and the image longer by exactly those blocks"""
    if a.rd is None or b.rd is None or b.rd.eltorito is not None:
        return False
    extra = 0
    for ra, rb in ((a.rd.iso_root, b.rd.iso_root), (a.rd.joliet_root, b.rd.joliet_root)):
        if (ra is None) != (rb is None):
            return False
        if ra is None:
            continue
        da, fa = _tree_summary(ra)
        db, fb = _tree_summary(rb)
        if fa != fb or set(da) != set(db):
            return False
        for p in da:
            if db[p] < da[p] or (db[p] - da[p]) % 2048:
                return False
            extra += db[p] - da[p]
    return extra > 0 and len(b.img) - len(a.img) == extra


def removal_oracle(ctx, cfg, ops, sizes):
    """add_eltorito ... rm_eltorito leaves exactly the image of the same history without El Torito"""
    base = [o for o in ops if o['k'] not in ('add_eltorito', 'add_eltorito_section', 'rm_eltorito')]
    with_rm = list(ops) + [{'k': 'rm_eltorito'}]
    a = sysimg.build(cfg, base, sizes)
    b = sysimg.build(cfg, with_rm, sizes)
    for x in (a, b):
        if getattr(x, 'iso', None) is not None:
            x.iso.close()
    if a.fail is not None or b.fail is not None:
        if b.fail is not None and a.fail is None:
            return ('rm-eltorito-fails', 'after add_eltorito ... rm_eltorito the image cannot be written: %s' % b.fail[1])
        return None
    if b.outs[-1] != 'ok':
        return None
    if a.img != b.img:
        d = sysimg.first_diff(a.img, b.img)
        sysimg.decode(a)
        sysimg.decode(b)
        if _only_directory_slack(a, b):
            # the catalog's directory was exactly full: adding its record opened a new directory block, and remove_child keeps
            # one spare block (Model/AccountBoot.v: ab_add_rm_eltorito_inverse_refuted / _partial); nothing of El Torito is left
            ctx.count('rm-eltorito:only-directory-slack')
            return None
        return ('rm-eltorito-leaves-traces', 'adding and removing El Torito does not give back the image without it: first difference '
                'at byte %d (%s), lengths %d / %d' % (d, sysimg.attribute(a.rd, d), len(a.img), len(b.img)))
    return None


def run(ctx):
    common.proof_stage(ctx, MODULE, common.theorems_of(MODULE))
    common.setup_impl_path()
    from pycdlib import eltorito
    rng = ctx.rng
    quick = ctx.tier == 'quick'
    # leaf: translated _checksum vs the Python method on random 32-byte entries
    rows = []
    for _ in range(300 if quick else 5000):
        d = bytearray(rng.randrange(256) for _ in range(32))
        if rng.random() < 0.7:
            d[28] = d[29] = 0
        rows.append('(%s, %d)' % (common.zlist(bytes(d)), eltorito.EltoritoValidationEntry._checksum(bytes(d))))
        ctx.case(('etcsum', bytes(d)), True)
    defs = ['Fixpoint bad_from (k : nat) (cs : list (list Z * Z)) : list nat := match cs with [] => [] | (d, c) :: r => '
            'if et_checksum d =? c then bad_from (S k) r else k :: bad_from (S k) r end.']
    bad, err = common.coq_bad_cases('c11leaf', ['From PV.Gen Require Import GenConst GenFun.'], defs, '(list Z * Z)', rows, 'bad_from 0', shard=300)
    name = 'translated EltoritoValidationEntry._checksum vs the Python method'
    if bad is None:
        ctx.broken.append({'name': 'correspondence:' + name, 'summary': 'evaluation failed: ' + err})
    else:
        ctx.cov['traces_validated_against_impl'] += len(rows) - len(bad)
        ctx.cov['correspondences'][name] = {'cases': len(rows), 'disagreements': len(bad)}
        for i in bad[:2]:
            ctx.broken.append({'name': 'correspondence:' + name, 'summary': 'translation disagrees with the Python method', 'coq_case': rows[i]})
    etleaf.leaf_correspondence(ctx)
    accountbootleaf.correspondence(ctx)
    bootparseleaf.correspondence(ctx)
    # system level
    cfgs = syslevel.covering_configs(rng, 24)
    hist = []
    for i in range(90 if quick else 1500):
        cfg = cfgs[i % len(cfgs)]
        ops, sizes = boot_history(rng, cfg)
        hist.append(('boot', cfg, ops, sizes))
    sysprops.run_oracle(ctx, 'C11', iter(hist), oracle, need_reopen=True, max_shrink=5)
    # the same after a reopen in the middle (boot info table computed from data read off the image)
    for label, cfg, ops, sizes in hist[:30 if quick else 400]:
        k = [i for i, o in enumerate(ops) if o['k'] == 'add_eltorito']
        if not k:
            continue
        rp = (rng.choice([k[0], k[0] + 1, len(ops) - 1]),)
        ops, rp = sysprops.accepted_only(ops, rp)
        sysprops.run_oracle(ctx, 'C11', iter([(label + '+reopen', cfg, ops, sizes)]), oracle, need_reopen=True, max_shrink=1,
                            build_kwargs={'reopen_points': rp})
    for i in range(16 if quick else 200):
        cfg = cfgs[i % len(cfgs)]
        ops, sizes, rp = hidden_boot_history(rng, cfg)
        sysprops.run_oracle(ctx, 'C11', iter([('hidden-boot+reopen', cfg, ops, sizes)]), oracle, need_reopen=True, max_shrink=1,
                            build_kwargs={'reopen_points': tuple(rp)})
    n = 0
    for label, cfg, ops, sizes in hist[:25 if quick else 300]:
        r = removal_oracle(ctx, cfg, ops, sizes)
        n += 1
        if r:
            ctx.violation('c11:%s:%s' % (r[0], sysrun.cfg_features(cfg)), 'C11: %s; config %s, history %s'
                          % (r[1], cfg.key(), sysprops.shape_sig(ops, 30)), {'config': cfg.key(), 'ops': ops,
                                                                            'sizes': {str(k): v for k, v in sizes.items()}, 'signature': r[0]})
    ctx.count('removal-comparisons', n)
    ctx.cov['rule'] = ('bootable images over a covering configuration set: boot files of 64..6200 bytes, 1-6 boot entries (sections), '
                       'platform ids, load sizes, efi flags, boot info tables, data files before/after the boot files, edits after '
                       'add_eltorito that move the boot files, a reopen in the middle; independent reader: boot record at 17, validation '
                       'entry, every entry of the header chain vs the boot file\'s sector and bytes, boot info table contents as stored and '
                       'as read back, catalog readable under its names; add+rm_eltorito vs the image without El Torito (bytes)')
    ctx.cov['trusted_base'] = ['Coq 8.16.1 kernel, vm_compute', 'translator (EltoritoValidationEntry._checksum) validated on every run',
                               'Spec/FsSpec.v (removal theorems)', 'harness/reader.py El Torito part']
    ctx.assumptions = ['floppy/hdemul emulation media are not generated (they constrain boot file sizes)']


def replay(ctx, rep):
    return sysprops.replay(ctx, rep, oracle)
