"""Tie of Model/Nlink.v (state machine of the Rock Ridge link counts of directories: the three PX
records -- own record, '.', and the children's '..' -- as add_directory / rm_directory / the '..'
refresh of _reassign_vd_dirrecord_extents maintain them) to /repo: random directory histories with
duplicate, missing-parent, non-empty and root removals are run on the real library (all Rock Ridge
versions); the counts are read directly from the record objects before and after the recomputation
and Coq evaluates Nlink.run_probe_raw / run_probe on the same histories."""
import io

from harness import common


def _px(rec):
    rr = rec.rock_ridge
    p = rr.dr_entries.px_record or rr.ce_entries.px_record
    return p.posix_file_links


def _ipath(path):
    return '/' + '/'.join('D%d' % c for c in path)


def _walk(iso):
    root = iso.pvd.root_directory_record()
    out = [([], 0, _px(root.children[0]), _px(root.children[1]))]

    def rec_(d, path):
        for c in d.children[2:]:
            if c.isdir:
                p = path + [int(c.file_ident.decode()[1:])]
                out.append((p, _px(c), _px(c.children[0]), _px(c.children[1])))
                rec_(c, p)
    rec_(root, [])
    return sorted(out)


def _run(ops, reshuffle, version, with_files):
    import pycdlib
    iso = pycdlib.PyCdlib()
    iso.new(rock_ridge=version)
    refused = 0
    for i, (k, p) in enumerate(ops):
        try:
            if k == 'add':
                iso.add_directory(_ipath(p), rr_name='d%d' % p[-1])
            else:
                iso.rm_directory(_ipath(p))
        except Exception:
            refused += 1
        if with_files and i % 5 == 2:
            # files and symlinks must not touch directory link counts
            try:
                iso.add_fp(io.BytesIO(b'x'), 1, '/F%d.;1' % i, rr_name='f%d' % i)
                iso.add_symlink('/S%d.;1' % i, 's%d' % i, 'f%d' % i)
            except Exception:
                pass
    if reshuffle:
        iso.force_consistency()
    res = _walk(iso)
    iso.close()
    return res, refused


def _cl(xs):
    return '[' + '; '.join(common.z(x) for x in xs) + ']'


def _rows(rs):
    return '[' + '; '.join('(%s, %s, %s, %s)' % (_cl(r[0]), common.z(r[1]), common.z(r[2]), common.z(r[3])) for r in rs) + ']'


DEFS = [
    'Fixpoint zl_eqb (a b : list Z) : bool := match a, b with [], [] => true | x :: a, y :: b => (x =? y) && zl_eqb a b | _, _ => false end.',
    'Definition row_eqb (a b : list Z * Z * Z * Z) : bool := '
    "let '(p, x, y, w) := a in let '(p2, x2, y2, w2) := b in zl_eqb p p2 && (x =? x2) && (y =? y2) && (w =? w2).",
    'Fixpoint rows_eqb (a b : list (list Z * Z * Z * Z)) : bool := match a, b with [], [] => true | x :: a, y :: b => row_eqb x y && rows_eqb a b | _, _ => false end.',
    'Definition nl_ok (c : list op * list (list Z * Z * Z * Z) * list (list Z * Z * Z * Z)) : bool := '
    "let '(ops, after, raw) := c in rows_eqb (run_probe ops) after && rows_eqb (run_probe_raw ops) raw.",
    'Fixpoint nl_bad (k : nat) (cs : list (list op * list (list Z * Z * Z * Z) * list (list Z * Z * Z * Z))) : list nat := '
    'match cs with [] => [] | c :: r => if nl_ok c then nl_bad (S k) r else k :: nl_bad (S k) r end.',
]


def correspondence(ctx):
    rng = ctx.rng
    n = 120 if ctx.tier == 'quick' else 1500
    texts, cases = [], []
    total_ref = 0
    for i in range(n):
        ops, known = [], [[]]
        for _ in range(rng.randint(1, 25)):
            r = rng.random()
            if r < 0.6:
                par = rng.choice(known)
                p = par + [rng.randint(1, 3)]
                if len(p) > 7:
                    continue
                ops.append(('add', p))
                known.append(p)
            elif r < 0.9:
                p = rng.choice(known)
                if p:
                    ops.append(('rm', p))
            else:
                p = [rng.randint(1, 3) for _ in range(rng.randint(1, 3))]
                ops.append((rng.choice(['add', 'rm']), p))
        version = ('1.09', '1.10', '1.12')[i % 3]
        with_files = i % 4 == 1
        after, ref = _run(ops, True, version, with_files)
        raw, _ = _run(ops, False, version, with_files)
        total_ref += ref
        ol = '[' + '; '.join(('AddDir ' if k == 'add' else 'RmDir ') + _cl(p) for k, p in ops) + ']'
        texts.append('(%s, %s, %s)' % (ol, _rows(after), _rows(raw)))
        cases.append({'ops': ops, 'rr': version, 'with_files': with_files, 'after': after, 'raw': raw})
        ctx.case(('nlink', len(ops), ref, version), len(ops) >= 3)
        # the property itself on the implementation: 2 + number of sub-directories everywhere
        sub = {}
        for r in after:
            if r[0]:
                sub[tuple(r[0][:-1])] = sub.get(tuple(r[0][:-1]), 0) + 1
        for r in after:
            want = 2 + sub.get(tuple(r[0]), 0)
            pw = 2 + sub.get(tuple(r[0][:-1]), 0) if r[0] else want
            got = (r[1] if r[0] else want, r[2], r[3])
            if got != (want, want, pw):
                ctx.violation('c08:nlink:after-history', 'Rock Ridge link counts of directory %s after a directory history are '
                              '(record %s, dot %s, dotdot %s), expected (%d, %d, %d)' % (_ipath(r[0]) or '/', r[1], r[2], r[3], want, want, pw),
                              {'ops': ops, 'rr': version})
                break
    ctx.count('nlink:histories', n)
    ctx.count('nlink:refused-operations', total_ref)
    name = 'Nlink.run_probe / run_probe_raw vs PX link counts of the record objects'
    bad, err = common.coq_bad_cases('nlink', ['From PV.Model Require Import Nlink.'], DEFS,
                                    'list op * list (list Z * Z * Z * Z) * list (list Z * Z * Z * Z)', texts, 'nl_bad 0', shard=60)
    if bad is None:
        ctx.broken.append({'name': 'correspondence:' + name, 'summary': 'model evaluation failed: ' + err})
        ctx.cov['correspondences'][name] = {'cases': len(cases), 'disagreements': 'evaluation failed'}
        return None
    ctx.cov['traces_validated_against_impl'] += len(cases) - len(bad)
    ctx.cov['correspondences'][name] = {'cases': len(cases), 'refused_operations': total_ref, 'disagreements': len(bad)}
    for i in bad[:3]:
        ctx.broken.append({'name': 'correspondence:' + name,
                           'summary': 'the link count model and pycdlib disagree (%d of %d histories), e.g. %s'
                                      % (len(bad), len(cases), cases[i]['ops'][:8]), 'case': cases[i]})
    return bad
