"""Tie of Model/Eltorito.v (byte-level model of the El Torito boot catalog codecs) to /repo:
validation entries, initial/section entries built by EltoritoEntry.new, and whole boot catalogs
recorded by real PyCdlib objects with 0..31 sections are compared byte for byte with the model
evaluated by Coq (check_validation_case, check_entry_new_case, check_entry_dec_case,
check_catalog_bytes)."""
import io

from harness import common
from harness.common import z, zlist


def _eval(ctx, name, prefix, typ, texts, fn, cases, shard=200):
    bad, err = common.coq_bad_cases(prefix, ['From PV.Model Require Import Eltorito.'], [], typ, texts, fn, shard=shard)
    if bad is None:
        ctx.broken.append({'name': 'correspondence:' + name, 'summary': 'model evaluation failed: ' + err})
        ctx.cov['correspondences'][name] = {'cases': len(texts), 'disagreements': 'evaluation failed'}
        return
    ctx.cov['traces_validated_against_impl'] += len(texts) - len(bad)
    ctx.cov['correspondences'][name] = {'cases': len(texts), 'disagreements': len(bad)}
    for i in bad[:2]:
        ctx.broken.append({'name': 'correspondence:' + name, 'summary': 'Model/Eltorito.v and eltorito.py disagree (%d of %d cases)'
                                                                         % (len(bad), len(texts)), 'case': cases[i]})


def leaf_correspondence(ctx):
    import pycdlib
    from pycdlib import eltorito
    rng = ctx.rng
    quick = ctx.tier == 'quick'
    # validation entries
    texts, cases = [], []
    for _ in range(200 if quick else 3000):
        pid = rng.choice([0, 1, 2, 0xef, rng.randrange(256)])
        ids = bytes(rng.randrange(256) for _ in range(24)) if rng.random() < 0.7 else b'\x00' * 24
        v = eltorito.EltoritoValidationEntry()
        try:
            v.new(pid)
            v.id_string = ids
            v.checksum = 0
            v.checksum = eltorito.EltoritoValidationEntry._checksum(v._record())
            exp = v.record()
        except Exception:
            exp = b''
        texts.append('(%s, %s, %s)' % (z(pid), zlist(ids), zlist(exp)))
        cases.append({'platform_id': pid, 'id_string': ids.hex()})
        ctx.case(('etval', pid, ids[:2]), True)
    _eval(ctx, 'Eltorito.val_new/val_record vs EltoritoValidationEntry', 'etval', '(Z * list Z * list Z)', texts, 'bad_validation_cases 0', cases)
    # entries made by new() + set_data_location
    texts, cases = [], []
    medias = ['noemul', 'floppy', 'hdemul', 'cdrom']
    for _ in range(300 if quick else 4000):
        m = rng.randrange(4)
        sc = rng.choice([0, 1, 4, 8, 2400, 2880, 5760, 65535, 65536, rng.randrange(0, 70000)])
        ls = rng.choice([0, 0x7c0, rng.randrange(65536)])
        st = rng.randrange(256)
        boot = rng.random() < 0.8
        rba = rng.choice([0, 26, rng.randrange(1 << 32)])
        e = eltorito.EltoritoEntry()
        try:
            e.new(sc, ls, medias[m], st, boot)
        except Exception:
            exp = b''
        else:
            try:
                e.load_rba = rba
                exp = e.record()
            except Exception as ex:
                exp = b''
                if rba < (1 << 32):
                    ctx.violation('c11:entry-accepted-but-unrecordable', 'C11: EltoritoEntry.new(sector_count=%d, load_seg=%d, %s, system_type=%d) '
                                  'accepts the entry but record() raises %s: the image cannot be written' % (sc, ls, medias[m], st, type(ex).__name__),
                                  {'sector_count': sc, 'load_seg': ls, 'media': medias[m], 'system_type': st})
        texts.append('(%s, %s, %s, %s, %s, %s, %s)' % (z(sc), z(ls), z(m), z(st), 'true' if boot else 'false', z(rba), zlist(exp)))
        cases.append({'sector_count': sc, 'load_seg': ls, 'media': medias[m], 'system_type': st, 'bootable': boot, 'rba': rba})
        ctx.case(('etnew', m, sc > 65535, boot), True)
    _eval(ctx, 'Eltorito.entry_new/entry_record vs EltoritoEntry', 'etnew', '(Z * Z * Z * Z * bool * Z * list Z)', texts,
          'bad_entry_new_cases 0', cases)
    # boot info table checksum: file objects that hold more than the declared length
    import pycdlib as _p
    texts, cases = [], []
    host = _p.PyCdlib()
    host.new()
    for _ in range(60 if quick else 800):
        n = rng.choice([0, 1, 63, 64, 65, 68, 77, 2047, 2048, 2049, 3000, 4096, 4100, rng.randrange(0, 7000)])
        extra = rng.choice([0, 0, 1, 100, 2048, 5000])
        data = bytes(rng.randrange(256) for _ in range(n + extra))
        try:
            v = host._calculate_eltorito_boot_info_table_csum(io.BytesIO(data), n)
        except Exception:
            v = -1
        texts.append('(%s, %s, %s)' % (zlist(data), z(n), z(v)))
        cases.append({'data_len': n, 'extra': extra, 'impl': v})
        ctx.case(('etcsum', n, extra), True)
        want = sum(int.from_bytes(data[:n][i:i + 4].ljust(4, b'\x00'), 'little') for i in range(64, n, 4)) & 0xffffffff
        if v != want:
            ctx.violation('c11:boot-info-checksum:not-the-files-words', 'C11: the boot info table checksum of a %d-byte boot file read from a file '
                          'object holding %d more bytes is %d, the sum of the file\'s own little-endian words from offset 64 is %d'
                          % (n, extra, v, want), {'data_len': n, 'extra': extra})
            break
    host.close()
    bad, err = common.coq_bad_cases('etbit', ['From PV.Model Require Import Eltorito.'],
                                    ['Fixpoint bit_bad (k : nat) (cs : list (list Z * Z * Z)) : list nat := match cs with [] => [] | (fp, n, e) :: r => '
                                     'if (match bit_csum fp n with Some v => v =? e | None => e =? -1 end) then bit_bad (S k) r else k :: bit_bad (S k) r end.'],
                                    '(list Z * Z * Z)', texts, 'bit_bad 0', shard=20)
    name = 'Eltorito.bit_csum vs PyCdlib._calculate_eltorito_boot_info_table_csum'
    if bad is None:
        ctx.broken.append({'name': 'correspondence:' + name, 'summary': 'model evaluation failed: ' + err})
    else:
        ctx.cov['traces_validated_against_impl'] += len(texts) - len(bad)
        ctx.cov['correspondences'][name] = {'cases': len(texts), 'disagreements': len(bad)}
        for i in bad[:2]:
            ctx.broken.append({'name': 'correspondence:' + name, 'summary': 'the checksum model and pycdlib disagree', 'case': cases[i]})
    # whole catalogs recorded by real objects; parse + re-record must give the same bytes
    texts, cases = [], []
    for _ in range(25 if quick else 300):
        nsec = rng.choice([0, 1, 2, 3, 5, 8, 30, 31])
        iso = pycdlib.PyCdlib()
        iso.new()
        for i in range(nsec + 1):
            n = rng.choice([64, 2048, 3000, 5000])
            iso.add_fp(io.BytesIO(bytes([66 + i % 20]) * n), n, '/B%d.;1' % i)
        kw = {}
        if rng.random() < 0.5:
            kw['platform_id'] = rng.choice([0, 1, 2, 0xef])
        if rng.random() < 0.5:
            kw['boot_load_size'] = rng.choice([1, 4, 8])
        iso.add_eltorito('/B0.;1', '/BOOT.CAT;1', **kw)
        for i in range(1, nsec + 1):
            kw = {}
            if rng.random() < 0.4:
                kw['efi'] = True
            if rng.random() < 0.3:
                kw['platform_id'] = rng.choice([0, 1, 2, 0xef])
            if rng.random() < 0.2:
                kw['bootable'] = False
            iso.add_eltorito('/B%d.;1' % i, **kw)
        iso.force_consistency()
        raw = iso.eltorito_boot_catalog.record()
        iso.close()
        texts.append(zlist(raw.ljust(2048, b'\x00') + b'boot\n' + b'\x00' * 59))      # the catalog block and the start of the next extent
        cases.append({'sections': nsec, 'bytes': raw.hex()[:400]})
        ctx.case(('etcat', nsec), nsec > 0)
    _eval(ctx, 'Eltorito.parse_catalog/cat_record vs EltoritoBootCatalog.record()', 'etcat', 'list Z', texts, 'bad_catalog_cases 0', cases, shard=5)
