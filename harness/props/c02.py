"""C02 -- editing an existing image preserves everything that was not edited.  DESIGN.md section 8.2."""
from harness import common
from harness.props import c01, parseleaf, parserrleaf

MODULE = 'C02'
THEOREMS = ['C02_rm_link_frame', 'C02_rm_file_exact', 'C02_spec_invariant', 'C02_nonvacuous']


def run(ctx):
    common.proof_stage(ctx, MODULE, sorted(set(THEOREMS) | set(common.theorems_of(MODULE))), extra_targets=['theories/Spec/FsCases.vo'])
    common.setup_impl_path()
    parseleaf.correspondence(ctx)
    parserrleaf.correspondence(ctx)
    n = 300 if ctx.tier == 'quick' else 3000
    c01.system_check(ctx, 'C02', n, dict(allow_refusals=False, empty_bias=0.3), max_gen=4 if ctx.tier == 'quick' else 8,
                     nops=(6, 30) if ctx.tier == 'quick' else (10, 80), label='open-edit-write history',
                     extra=c01.recipe_extras(ctx, c01.BOUNDARY, 3 if ctx.tier == 'quick' else 25, reopen=True))
    ctx.cov['rule'] = ('edit histories split into 1-4 (thorough: 1-8) generations by write+reopen at random points; every '
                       'generation edits the image the previous one wrote; final view through the API compared with the '
                       'specification of the concatenated edits; non-trivial = at least 3 edit kinds')
    ctx.cov['trusted_base'] = ['Coq 8.16.1 kernel, vm_compute', 'Spec/FsSpec.v (specification), tied by this differential run',
                               'harness/syslevel.py, harness/sysrun.py']
    ctx.assumptions = ['no foreign-image corpus is available offline: only images pycdlib itself wrote are edited',
                       'ISO9660 paths at most 6 directories deep']
