"""Leaf-level tie of Model/Pack.v to dr.py and to the writer: (i) DirectoryRecord.
_recalculate_extents_and_offsets is called directly on synthetic children for EVERY list of
record lengths over a small alphabet with small block sizes (exact-fill cases included) and from
every restart index, and compared with the Coq model by vm_compute; (ii) on real images the record
offsets decoded by the independent reader must be the positions the model computes from the
decoded record lengths."""
import itertools

from harness import common, sysimg
from harness.common import z

LBS = 2048


class _Child:
    __slots__ = ('dr_len', 'extents_to_here', 'offset_to_here', 'index_in_parent')

    def __init__(self, n):
        self.dr_len = n
        self.extents_to_here = None
        self.offset_to_here = None
        self.index_in_parent = None


def impl_pack(lens, C, restart=0):
    """run the real method on a synthetic parent; returns (n, off, positions)"""
    from pycdlib import dr
    parent = dr.DirectoryRecord.__new__(dr.DirectoryRecord)
    parent.children = [_Child(n) for n in lens]
    n, off = dr.DirectoryRecord._recalculate_extents_and_offsets(parent, 0, C)
    if restart:
        # scramble the suffix, then recompute from `restart` as _add_child/remove_child do
        for c in parent.children[restart:]:
            c.extents_to_here = -7
            c.offset_to_here = -7
        n, off = dr.DirectoryRecord._recalculate_extents_and_offsets(parent, restart, C)
    return n, off, [(c.extents_to_here, c.offset_to_here) for c in parent.children], \
        [c.index_in_parent for c in parent.children]


def impl_insert(lens, C, k, x):
    """what _add_child does: full state valid, insert a child at k, recompute from k"""
    from pycdlib import dr
    parent = dr.DirectoryRecord.__new__(dr.DirectoryRecord)
    parent.children = [_Child(n) for n in lens]
    dr.DirectoryRecord._recalculate_extents_and_offsets(parent, 0, C)
    parent.children.insert(k, _Child(x))
    n, off = dr.DirectoryRecord._recalculate_extents_and_offsets(parent, k, C)
    return n, off, [(c.extents_to_here, c.offset_to_here) for c in parent.children], \
        [c.index_in_parent for c in parent.children]


def impl_remove(lens, C, k):
    from pycdlib import dr
    parent = dr.DirectoryRecord.__new__(dr.DirectoryRecord)
    parent.children = [_Child(n) for n in lens]
    dr.DirectoryRecord._recalculate_extents_and_offsets(parent, 0, C)
    del parent.children[k]
    n, off = dr.DirectoryRecord._recalculate_extents_and_offsets(parent, k, C)
    return n, off, [(c.extents_to_here, c.offset_to_here) for c in parent.children], \
        [c.index_in_parent for c in parent.children]


def py_model(lens, C):
    n, off, pos = 1, 0, []
    for x in lens:
        if off + x > C:
            n += 1
            off = 0
        off += x
        pos.append((n, off))
    return n, off, pos


def leaf_correspondence(ctx):
    cases = []
    # exhaustive: block size 8, lengths 1..8 step, lists up to 5 long; block 12 with {2,4,6,12}
    for C, alpha, maxlen in ((8, (1, 2, 3, 4, 5, 8), 5), (12, (2, 4, 6, 7, 12), 5)):
        for ln in range(0, maxlen + 1):
            for lens in itertools.product(alpha, repeat=ln):
                cases.append((C, list(lens), 0))
    rng = ctx.rng
    # realistic: block 2048, even lengths 34..254, crafted exact fills
    for _ in range(300 if ctx.tier == 'quick' else 3000):
        k = rng.randrange(1, 120)
        lens = [rng.choice((34, 40, 42, 44, 48, 58, 100, 228, 254)) for _ in range(k)]
        if rng.random() < 0.4:
            # force an exact fill of the first block
            lens = [34, 34] + [44] * 45 + lens
        cases.append((LBS, lens, rng.randrange(0, len(lens) + 1) if lens else 0))
    texts = []
    bad_idx = 0
    edits_first = None
    for (C, lens, restart) in list(cases):
        restart = min(restart, len(lens))
        n, off, pos, idx = impl_pack(lens, C, restart)
        if idx != list(range(len(lens))) and restart == 0:
            bad_idx += 1
            edits_first = (C, lens[:40], restart)
        ctx.case((C, tuple(lens), restart), len(lens) >= 2)
        texts.append('(%s, %s, %s, %s, [%s])' % (z(C), common.zlist(lens), z(n), z(off),
                                                  '; '.join('(%s, %s)' % (z(a), z(b)) for a, b in pos)))
    # insertion / removal in the middle of a valid directory (what _add_child / remove_child do)
    edits = []
    for _ in range(400 if ctx.tier == 'quick' else 4000):
        C = rng.choice((8, 12, 64, LBS))
        alpha = {8: (1, 2, 3, 4), 12: (2, 4, 6), 64: (8, 10, 16, 30, 32), LBS: (34, 40, 44, 48, 100, 228, 254)}[C]
        lens = [rng.choice(alpha) for _ in range(rng.randrange(2, 70))]
        if C == LBS and rng.random() < 0.5:
            lens = [34, 34] + [44] * 45 + lens
        k = rng.randrange(0, len(lens))
        if rng.random() < 0.5:
            x = rng.choice(alpha)
            n, off, pos, idx = impl_insert(lens, C, k, x)
            new = lens[:k] + [x] + lens[k:]
        else:
            n, off, pos, idx = impl_remove(lens, C, k)
            new = lens[:k] + lens[k + 1:]
        if idx != list(range(len(new))):
            bad_idx += 1
            edits.append((C, lens[:40], k))
        cases.append((C, new, 0))
        texts.append('(%s, %s, %s, %s, [%s])' % (z(C), common.zlist(new), z(n), z(off),
                                                  '; '.join('(%s, %s)' % (z(a), z(b)) for a, b in pos)))
        ctx.case(('edit', C, tuple(new), k), True)
    ctx.count('packleaf:cases', len(cases))
    if bad_idx:
        ctx.violation('c03:leaf:index_in_parent', 'DirectoryRecord._recalculate_extents_and_offsets leaves wrong '
                      'index_in_parent values on %d of %d synthetic directories (a later rm_* would remove the wrong child), '
                      'e.g. %s' % (bad_idx, len(cases), (edits or [edits_first])[0]), {'cases': bad_idx, 'example': (edits or [edits_first])[0]})
    return _corr(ctx, cases, texts)


GEN_DEFS = [
    'Definition zl_eqb (a b : list Z) : bool := (Z.of_nat (length a) =? Z.of_nat (length b)) && '
    'forallb (fun p => fst p =? snd p) (combine a b).',
    'Definition rc_ok (t : list Z * list Z * list Z * list Z * Z * Z * (Z * Z * list Z * list Z * list Z)) : bool := '
    "let '(lens, offs, exts, idxs, index, C, (n, off, offs2, exts2, idxs2)) := t in "
    "let '(r, o, e, i) := dr_recalculate lens offs exts idxs index C in "
    '(fst r =? n) && (snd r =? off) && zl_eqb o offs2 && zl_eqb e exts2 && zl_eqb i idxs2.',
    'Fixpoint rc_bad (k : nat) (cs : list (list Z * list Z * list Z * list Z * Z * Z * (Z * Z * list Z * list Z * list Z))) '
    ': list nat := match cs with [] => [] | c :: r => if rc_ok c then rc_bad (S k) r else k :: rc_bad (S k) r end.',
]


def translated_correspondence(ctx):
    """Gen/GenObj.v dr_recalculate (the translated source) against the real method from arbitrary
    restart indices with arbitrary (stale) cached values in the suffix: validates the translator's
    object-list encoding on exactly the function the Pack theorems are transported to."""
    from pycdlib import dr
    rng = ctx.rng
    cases, texts = [], []
    for _ in range(250 if ctx.tier == 'quick' else 2500):
        C = rng.choice((8, 12, 64, LBS))
        alpha = {8: (1, 2, 3, 4, 8), 12: (2, 4, 6, 12), 64: (8, 10, 16, 30, 32, 64), LBS: (34, 40, 44, 48, 100, 228, 254)}[C]
        lens = [rng.choice(alpha) for _ in range(rng.randrange(0, 60))]
        if C == LBS and rng.random() < 0.5:
            lens = [34, 34] + [44] * 45 + lens
        index = rng.randrange(0, len(lens) + 1)
        parent = dr.DirectoryRecord.__new__(dr.DirectoryRecord)
        parent.children = [_Child(n) for n in lens]
        dr.DirectoryRecord._recalculate_extents_and_offsets(parent, 0, C)
        for k, c in enumerate(parent.children):      # stale values: anything, also before `index`
            if k >= index or rng.random() < 0.1:
                c.extents_to_here = rng.randrange(0, 9)
                c.offset_to_here = rng.randrange(0, C + 1)
                c.index_in_parent = rng.randrange(0, 99)
        before = ([c.offset_to_here for c in parent.children], [c.extents_to_here for c in parent.children],
                  [c.index_in_parent for c in parent.children])
        n, off = dr.DirectoryRecord._recalculate_extents_and_offsets(parent, index, C)
        after = ([c.offset_to_here for c in parent.children], [c.extents_to_here for c in parent.children],
                 [c.index_in_parent for c in parent.children])
        cases.append({'C': C, 'lens': lens, 'index': index, 'impl': [n, off]})
        texts.append('(%s, %s, %s, %s, %s, %s, (%s, %s, %s, %s, %s))' % (
            common.zlist(lens), common.zlist(before[0]), common.zlist(before[1]), common.zlist(before[2]),
            z(index), z(C), z(n), z(off), common.zlist(after[0]), common.zlist(after[1]), common.zlist(after[2])))
        ctx.case(('gen', C, len(lens), index), index > 0)
    name = 'Gen.dr_recalculate (translated) vs DirectoryRecord._recalculate_extents_and_offsets'
    bad, err = common.coq_bad_cases('packgen', ['From PV.Base Require Import Prim Upd.', 'From PV.Gen Require Import GenObj.'],
                                    GEN_DEFS, 'list Z * list Z * list Z * list Z * Z * Z * (Z * Z * list Z * list Z * list Z)',
                                    texts, 'rc_bad 0', shard=250)
    if bad is None:
        ctx.broken.append({'name': 'correspondence:' + name, 'summary': 'model evaluation failed: ' + err})
        ctx.cov['correspondences'][name] = {'cases': len(cases), 'disagreements': 'evaluation failed'}
        return None
    ctx.cov['traces_validated_against_impl'] += len(cases) - len(bad)
    ctx.cov['correspondences'][name] = {'cases': len(cases), 'disagreements': len(bad)}
    for i in bad[:3]:
        ctx.broken.append({'name': 'correspondence:' + name,
                           'summary': 'the translation of dr.py _recalculate_extents_and_offsets and the real method disagree '
                                      '(%d of %d cases): translator defect or unsupported source change' % (len(bad), len(cases)),
                           'case': cases[i]})
    return bad


def _corr(ctx, cases, texts):
    bad, err = common.coq_bad_cases('packleaf', ['From PV.Model Require Import Pack.'], [],
                                    '(Z * list Z * Z * Z * list (Z * Z))', texts, 'bad_cases 0', shard=400)
    name = 'Pack.nf/cached vs DirectoryRecord._recalculate_extents_and_offsets'
    if bad is None:
        ctx.broken.append({'name': 'correspondence:' + name, 'summary': 'model evaluation failed: ' + err})
        ctx.cov['correspondences'][name] = {'cases': len(cases), 'disagreements': 'evaluation failed'}
        return None
    ctx.cov['traces_validated_against_impl'] += len(cases) - len(bad)
    ctx.cov['correspondences'][name] = {'cases': len(cases), 'disagreements': len(bad)}
    for i in bad[:3]:
        C, lens, restart = cases[i]
        n, off, pos, _ = impl_pack(lens, C, restart)
        ctx.broken.append({'name': 'correspondence:' + name,
                           'summary': 'dr.py packing and Model/Pack.v disagree (%d of %d cases), e.g. block size %d, record '
                                      'lengths %s (recomputed from index %d): implementation %s' % (len(bad), len(cases), C, lens[:12], restart, (n, off)),
                           'case': {'C': C, 'lens': lens, 'restart': restart, 'impl': [n, off, pos]}})
    return bad


def _iso_dirs(root):
    stack = [root]
    while stack:
        d = stack.pop()
        yield d
        stack.extend(c for c in d.children if c.is_dir)


IMAGE_CASES = []     # (C, lens, n, off, cached positions) decoded from real images, judged by Coq at the end


def flush_image_cases(ctx):
    """evaluate Pack.pack_case_ok in Coq on every directory decoded from the images of this run"""
    if not IMAGE_CASES:
        return
    texts = ['(%s, %s, %s, %s, [%s])' % (z(C), common.zlist(lens), z(n), z(off), '; '.join('(%s, %s)' % (z(a), z(b)) for a, b in pos))
             for (C, lens, n, off, pos) in IMAGE_CASES]
    bad, err = common.coq_bad_cases('packimg', ['From PV.Model Require Import Pack.'], [],
                                    '(Z * list Z * Z * Z * list (Z * Z))', texts, 'bad_cases 0', shard=400)
    name = 'Pack.cached vs record positions decoded from written images'
    if bad is None:
        ctx.broken.append({'name': 'correspondence:' + name, 'summary': 'model evaluation failed: ' + err})
        return
    ctx.cov['traces_validated_against_impl'] += len(texts) - len(bad)
    ctx.cov['correspondences'][name] = {'cases': len(texts), 'disagreements': len(bad)}
    for i in bad[:2]:
        ctx.broken.append({'name': 'correspondence:' + name, 'summary': 'a written directory is not packed as Model/Pack.v says',
                           'case': {'lens': IMAGE_CASES[i][1][:60], 'decoded': IMAGE_CASES[i][4][:60]}})
    del IMAGE_CASES[:]


def oracle_positions(b, report):
    """record positions decoded from the image == next-fit positions of the decoded lengths"""
    if b.rd is None:
        return
    for ns, root in (('iso', b.rd.iso_root), ('joliet', b.rd.joliet_root)):
        if root is None:
            continue
        for d in _iso_dirs(root):
            if not d.extents or d.dot is None or d.dotdot is None:
                continue
            base = d.extents[0][0] * LBS
            recs = [d.dot, d.dotdot] + list(d.children)
            recs = [r for r in recs if r.dr_offset is not None and r.dr_len]
            # multi-extent files have several records; the reader lists their offsets in .records
            offs = []
            for r in recs:
                if r.records:
                    offs.extend((o, None) for o in r.records)
                else:
                    offs.append((r.dr_offset, r.dr_len))
            if any(ln is None for _, ln in offs):
                continue
            offs.sort()
            lens = [ln for _, ln in offs]
            _, _, pos = py_model(lens, LBS)
            want = [base + (e - 1) * LBS + (o - ln) for (e, o), ln in zip(pos, lens)]
            got = [o for o, _ in offs]
            if len(IMAGE_CASES) < 4000:
                dec = [((o - base) // LBS + 1, (o - base) % LBS + ln) for o, ln in offs]
                IMAGE_CASES.append((LBS, lens, dec[-1][0] if dec else 1, dec[-1][1] if dec else 0, dec))
            if want != got:
                k = next(i for i, (a, c) in enumerate(zip(want, got)) if a != c)
                report('record-position:' + ns, 'directory %s:%s: record %d (length %d) was written at byte %d of the '
                       'directory, next-fit packing of the record lengths puts it at %d'
                       % (ns, d.path(), k, lens[k], got[k] - base, want[k] - base), got[k])
                return
