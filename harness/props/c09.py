"""C09 -- Joliet fidelity.  DESIGN.md section 8.9."""
import io

from harness import common, nsoracles, reader, sysimg, syslevel, sysprops
from harness.props import c04, namesleaf, masterjolietleaf

MODULE = 'C09'
RECIPES = ['ptable_boundary', 'exact_fill', 'fat_dir_churn']


def oracle(b, report):
    nsoracles.oracle_c09(b, report)
    sysimg.oracle_c04(b, lambda sig, text, extra: report(sig, text, extra) if sig.startswith('shared-iff-linked') else None,
                      linked=c04.linked_of(b))


def name_limit_grid(ctx):
    """names Joliet cannot hold are refused, names it accepts are stored exactly (files and directories, all levels)"""
    import pycdlib
    rng = ctx.rng
    pieces = ['a', 'é', '日', '\U0001F600', 'Z']
    names = []
    for ch in pieces:
        for n in (20, 21, 22, 31, 32, 33, 63, 64, 65, 66):
            names.append(ch * n)
    for _ in range(20 if ctx.tier == 'quick' else 300):
        n = rng.randrange(1, 70)
        names.append(''.join(rng.choice(pieces) for _ in range(n)))
    for nm in names:
        units = len(nm.encode('utf-16_be')) // 2
        for level in (1, 2, 3):
            for isdir in (False, True):
                if rng.random() < 0.6:
                    continue
                iso = pycdlib.PyCdlib()
                iso.new(joliet=level, interchange_level=3)
                try:
                    try:
                        if isdir:
                            iso.add_directory(iso_path='/D1', joliet_path='/' + nm)
                        else:
                            iso.add_fp(io.BytesIO(b'x'), 1, iso_path='/F1.;1', joliet_path='/' + nm)
                        accepted = True
                    except pycdlib.pycdlibexception.PyCdlibInvalidInput:
                        accepted = False
                    ctx.case(('jname', nm, level, isdir), True)
                    ctx.count('jname:' + ('accepted' if accepted else 'refused'))
                    if accepted and units > 64:
                        ctx.violation('c09:name-too-long-accepted:%s' % ('dir' if isdir else 'file'),
                                      'C09: a Joliet %s name of %d UCS-2 units (%d UTF-8 bytes) is accepted although Joliet holds at most 64'
                                      % ('directory' if isdir else 'file', units, len(nm.encode('utf-8'))),
                                      {'name': nm, 'level': level, 'dir': isdir})
                        continue
                    if accepted:
                        img, _ = sysimg.master(iso)
                        rd = reader.read_image(img, check=False)
                        got = [c.name if isinstance(c.name, str) else c.name.decode('utf-16_be', 'replace') for c in rd.joliet_root.children]
                        got = [g[:-2] if g.endswith(';1') else g for g in got]
                        if nm not in got:
                            ctx.violation('c09:name-not-stored-exactly', 'C09: Joliet name %r... was accepted but the image holds %r'
                                          % (nm[:20], [g[:20] for g in got]), {'name': nm, 'level': level, 'dir': isdir})
                finally:
                    iso.close()


def run(ctx):
    common.proof_stage(ctx, MODULE, common.theorems_of(MODULE))
    common.setup_impl_path()
    masterjolietleaf.correspondence(ctx)
    namesleaf.leaf_correspondence(ctx, 'C09', symlinks=False, names=False, utf16=True)
    name_limit_grid(ctx)
    quick = ctx.tier == 'quick'
    sysprops.run_oracle(ctx, 'C09', sysprops.histories(ctx, 140 if quick else 2500, RECIPES,
                                                       dict(allow_refusals=False, link_bias=0.25), nops=(5, 35) if quick else (10, 100),
                                                       recipe_cfgs=4 if quick else 30, cfg_filter=lambda c: c.joliet is not None),
                        oracle, need_reopen=False, max_shrink=5)
    # same-named Joliet links in different directories, edits in between (data of the surviving name must stay put)
    from harness import recipes
    extra = []
    for _ in range(12 if quick else 100):
        cfg = ctx.rng.choice([c for c in syslevel.all_configs() if c.joliet])
        ops, sizes, rp = recipes.same_name_links(cfg, ctx.rng)
        extra.append(('recipe:same_name_links', cfg, ops, sizes))
    sysprops.run_oracle(ctx, 'C09', iter(extra), oracle, need_reopen=False, max_shrink=3)
    # the same object mastered more than once with edits in between (what a second write reuses from the first must be refreshed)
    hist = list(sysprops.histories(ctx, 40 if quick else 600, RECIPES, dict(allow_refusals=False, fat_dir=0.3), nops=(8, 35),
                                   recipe_cfgs=2 if quick else 10, cfg_filter=lambda c: c.joliet is not None))
    for label, cfg, ops, sizes in hist:
        if len(ops) < 4:
            continue
        ks = sorted(set(ctx.rng.randrange(1, len(ops)) for _ in range(ctx.rng.choice([1, 1, 2]))))
        sysprops.run_oracle(ctx, 'C09', iter([(label + '+write-in-between', cfg, ops, sizes)]), oracle, need_reopen=False, max_shrink=1,
                            build_kwargs={'schedule': {k: ['write'] for k in ks}})
    # directed: Joliet names whose UTF-16BE form contains the bytes 00 2F ('/') straddling two code units (U+xx00 followed by U+2Fyy):
    # legal names that must be stored, found again and usable as parents
    looky = ['\u4e00\u2f08', '\u3000\u2ff0', 'a\u4e00\u2f08b', '\u0100\u2f00x', '\u2f00\u2f00', 'n\u5e00\u2f2f']
    for i, nm in enumerate(looky if not quick else looky[:4]):
        cfg = ctx.rng.choice([c for c in syslevel.all_configs() if c.joliet and not c.udf])
        rr = (lambda n: {'rr': n}) if cfg.rr else (lambda n: {})
        ops = [dict(k='add_dir', iso='/LOOK%d' % i, jol='/' + nm, **rr('look%d' % i)),
               dict(k='add_fp', blob=1, size=33, iso='/LOOK%d/F.;1' % i, jol='/' + nm + '/' + nm + '.txt', **rr('f')),
               dict(k='add_dir', iso='/LOOK%d/SUB' % i, jol='/' + nm + '/sub', **rr('sub')),
               dict(k='add_fp', blob=2, size=5, iso='/G%d.;1' % i, jol='/' + nm + nm, **rr('g')),
               dict(k='rm_link', ns='jol', path='/' + nm + nm),
               dict(k='add_fp', blob=3, size=7, iso='/H%d.;1' % i, jol='/' + nm + '/sub/h', **rr('h'))]
        bb = sysimg.build(cfg, ops, {1: 33, 2: 5, 3: 7})
        ctx.case(('lookalike', nm, cfg.key()), True)
        if bb.fail is None:
            bb.iso.close()
        bad = [(o, r) for o, r in zip(ops, bb.outs) if r != 'ok']
        if bad or bb.fail is not None:
            ctx.violation('c09:lookalike-separator:%s' % ('refused' if bad else 'fails'), 'C09: the legal Joliet name %r (UTF-16BE bytes contain 00 2F across two '
                          'code units) cannot be used: %s' % (nm, ('edit %s has outcome %s' % (bad[0][0]['k'], bad[0][1])) if bad else bb.fail[1]),
                          {'config': cfg.key(), 'ops': ops, 'name': nm})
            continue
        sysprops.run_oracle(ctx, 'C09', iter([('directed:lookalike-separator', cfg, ops, {1: 33, 2: 5, 3: 7})]), oracle, need_reopen=False, max_shrink=1)
    # directed: between two writes a Joliet directory with sub-directories keeps its extent while its path table number changes
    for i in range(6 if quick else 40):
        cfg = ctx.rng.choice([c for c in syslevel.all_configs() if c.joliet and not c.udf])
        rr = (lambda n: {'rr': n}) if cfg.rr else (lambda n: {})
        ops = [dict(k='add_dir', iso='/ZONLY', **rr('zonly')),
               dict(k='add_dir', iso='/B', jol='/b', **rr('b')), dict(k='add_dir', iso='/B/SUB', jol='/b/sub', **rr('sub')),
               dict(k='add_dir', iso='/C', jol='/c', **rr('c')), dict(k='add_dir', iso='/C/SUB2', jol='/c/sub2', **rr('sub2')),
               dict(k='add_fp', blob=1, size=10, iso='/B/SUB/F.;1', jol='/b/sub/f', **rr('f'))]
        k = len(ops)
        if i % 2 == 0:
            ops += [dict(k='rm_dir', iso='/ZONLY'), dict(k='add_dir', jol='/a0')]
        else:
            ops += [dict(k='add_dir', jol='/a0'), dict(k='rm_dir', iso='/ZONLY'), dict(k='add_dir', jol='/a1'), dict(k='rm_dir', jol='/a1')]
        sysprops.run_oracle(ctx, 'C09', iter([('directed:ptr-renumber-between-writes', cfg, ops, {1: 10})]), oracle, need_reopen=False,
                            max_shrink=1, build_kwargs={'schedule': {k: ['write']}})
    ctx.cov['rule'] = ('Joliet images (levels 1-3) of random histories whose Joliet tree differs from the ISO9660 tree (Joliet-only and '
                       'ISO-only entries, BMP and non-BMP names), plus path-table/directory boundary recipes and same-named links; the '
                       'reader\'s Joliet tree must equal the tree built, every Joliet file must share the extents of its ISO9660 link; '
                       'name grid around 64 UCS-2 units / 64 UTF-8 bytes: refused or stored exactly')
    ctx.cov['trusted_base'] = ['Coq 8.16.1 kernel, vm_compute', 'Model/LongNames.v (UTF-16 part) tied to Python\'s codec by leaf run',
                               'Spec/FsSpec.v frame theorem', 'harness/reader.py']
    ctx.assumptions = ['"names Joliet cannot hold" = more than 64 UCS-2 code units (Joliet specification); the library\'s stricter '
                       '64-UTF-8-byte rule only refuses more']


def replay(ctx, rep):
    return sysprops.replay(ctx, rep, oracle, need_reopen=False)
