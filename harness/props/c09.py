"""C09 -- Joliet fidelity.  DESIGN.md section 8.9."""
import io

from harness import common, nsoracles, reader, sysimg, syslevel, sysprops
from harness.props import c04, namesleaf

MODULE = 'C09'
RECIPES = ['ptable_boundary', 'exact_fill', 'fat_dir_churn']


def oracle(b, report):
    nsoracles.oracle_c09(b, report)
    sysimg.oracle_c04(b, lambda sig, text, extra: report(sig, text, extra) if sig.startswith('shared-iff-linked') else None,
                      linked=c04.linked_of(b))


def name_limit_grid(ctx):
    """names Joliet cannot hold are refused, names it accepts are stored exactly (files and directories, all levels)"""
    import pycdlib
    rng = ctx.rng
    pieces = ['a', 'é', '日', '\U0001F600', 'Z']
    names = []
    for ch in pieces:
        for n in (20, 21, 22, 31, 32, 33, 63, 64, 65, 66):
            names.append(ch * n)
    for _ in range(20 if ctx.tier == 'quick' else 300):
        n = rng.randrange(1, 70)
        names.append(''.join(rng.choice(pieces) for _ in range(n)))
    for nm in names:
        units = len(nm.encode('utf-16_be')) // 2
        for level in (1, 2, 3):
            for isdir in (False, True):
                if rng.random() < 0.6:
                    continue
                iso = pycdlib.PyCdlib()
                iso.new(joliet=level, interchange_level=3)
                try:
                    try:
                        if isdir:
                            iso.add_directory(iso_path='/D1', joliet_path='/' + nm)
                        else:
                            iso.add_fp(io.BytesIO(b'x'), 1, iso_path='/F1.;1', joliet_path='/' + nm)
                        accepted = True
                    except pycdlib.pycdlibexception.PyCdlibInvalidInput:
                        accepted = False
                    ctx.case(('jname', nm, level, isdir), True)
                    ctx.count('jname:' + ('accepted' if accepted else 'refused'))
                    if accepted and units > 64:
                        ctx.violation('c09:name-too-long-accepted:%s' % ('dir' if isdir else 'file'),
                                      'C09: a Joliet %s name of %d UCS-2 units (%d UTF-8 bytes) is accepted although Joliet holds at most 64'
                                      % ('directory' if isdir else 'file', units, len(nm.encode('utf-8'))),
                                      {'name': nm, 'level': level, 'dir': isdir})
                        continue
                    if accepted:
                        img, _ = sysimg.master(iso)
                        rd = reader.read_image(img, check=False)
                        got = [c.name if isinstance(c.name, str) else c.name.decode('utf-16_be', 'replace') for c in rd.joliet_root.children]
                        got = [g[:-2] if g.endswith(';1') else g for g in got]
                        if nm not in got:
                            ctx.violation('c09:name-not-stored-exactly', 'C09: Joliet name %r... was accepted but the image holds %r'
                                          % (nm[:20], [g[:20] for g in got]), {'name': nm, 'level': level, 'dir': isdir})
                finally:
                    iso.close()


def run(ctx):
    common.proof_stage(ctx, MODULE, common.theorems_of(MODULE))
    common.setup_impl_path()
    namesleaf.leaf_correspondence(ctx, 'C09', symlinks=False, names=False, utf16=True)
    name_limit_grid(ctx)
    quick = ctx.tier == 'quick'
    sysprops.run_oracle(ctx, 'C09', sysprops.histories(ctx, 140 if quick else 2500, RECIPES,
                                                       dict(allow_refusals=False, link_bias=0.25), nops=(5, 35) if quick else (10, 100),
                                                       recipe_cfgs=4 if quick else 30, cfg_filter=lambda c: c.joliet is not None),
                        oracle, need_reopen=False, max_shrink=5)
    # same-named Joliet links in different directories, edits in between (data of the surviving name must stay put)
    from harness import recipes
    extra = []
    for _ in range(12 if quick else 100):
        cfg = ctx.rng.choice([c for c in syslevel.all_configs() if c.joliet])
        ops, sizes, rp = recipes.same_name_links(cfg, ctx.rng)
        extra.append(('recipe:same_name_links', cfg, ops, sizes))
    sysprops.run_oracle(ctx, 'C09', iter(extra), oracle, need_reopen=False, max_shrink=3)
    ctx.cov['rule'] = ('Joliet images (levels 1-3) of random histories whose Joliet tree differs from the ISO9660 tree (Joliet-only and '
                       'ISO-only entries, BMP and non-BMP names), plus path-table/directory boundary recipes and same-named links; the '
                       'reader\'s Joliet tree must equal the tree built, every Joliet file must share the extents of its ISO9660 link; '
                       'name grid around 64 UCS-2 units / 64 UTF-8 bytes: refused or stored exactly')
    ctx.cov['trusted_base'] = ['Coq 8.16.1 kernel, vm_compute', 'Model/LongNames.v (UTF-16 part) tied to Python\'s codec by leaf run',
                               'Spec/FsSpec.v frame theorem', 'harness/reader.py']
    ctx.assumptions = ['"names Joliet cannot hold" = more than 64 UCS-2 code units (Joliet specification); the library\'s stricter '
                       '64-UTF-8-byte rule only refuses more']


def replay(ctx, rep):
    return sysprops.replay(ctx, rep, oracle, need_reopen=False)
