"""Tie of Model/Parse.v (pycdlib's own parser of the directory area -- _walk_directories / DirectoryRecord.parse / the
Inode table built on open -- composed with the writer model Model/Master.v) to /repo: boundary and random histories (incl.
hard links, neighbouring empty files, directories of exactly 1/2/3 blocks) are built and written by the real library, the
bytes are opened with a NEW PyCdlib object, the parsed object graph is read off the opened object (children order, names,
flags, extents, lengths, index_in_parent / offset_to_here / extents_to_here, the partition of records into Inodes,
iso.inodes), the opened object is written again and compared byte for byte with the first image, and Coq evaluates the
model parser on the library's bytes (bad_parse_cases: parse = the library's graph, fixpoint flag true)."""
import importlib.util
import os

from harness import common

_spec = importlib.util.spec_from_file_location('parse_cases', os.path.join(common.VERIF, 'tools', 'parse_cases.py'))
NAME = 'Parse.parse vs the object graph of images opened by pycdlib (and open+write = identity)'


def correspondence(ctx):
    os.environ.setdefault('VERIF_REPO', common.REPO)
    mod = importlib.util.module_from_spec(_spec)
    _spec.loader.exec_module(mod)
    quick = ctx.tier == 'quick'
    seed = ctx.rng.randrange(1, 10 ** 5)
    nb = len(mod.boundary_cases())
    cs = common.safe_cases(ctx, NAME, lambda: mod.cases(seed, nb + (9 if quick else 200)))
    if cs is None:
        return
    if quick:
        cs = ctx.rng.sample(cs[:nb], 12) + cs[nb:]
    texts = []
    for c in cs:
        ctx.case(('parse', c[0].split('_')[0], len(c[1]) // 10), True)
        t = common.safe_render(ctx, NAME, mod.render, c)
        if t is None:
            continue
        texts.append(t)
    ctx.count('parse:histories', len(cs))
    bad, err = common.coq_bad_cases('parse', ['From PV.Model Require Import Master Parse.'], [], 'ps_case', texts, 'bad_parse_cases 0',
                                    shard=3 if quick else 16, workers=8 if quick else 15, timeout=1500)
    if bad is None:
        ctx.broken.append({'name': 'correspondence:' + NAME, 'summary': 'model evaluation failed: ' + err})
        ctx.cov['correspondences'][NAME] = {'cases': len(cs), 'disagreements': 'evaluation failed'}
        return
    ctx.cov['traces_validated_against_impl'] += len(cs) - len(bad)
    ctx.cov['correspondences'][NAME] = {'cases': len(cs), 'disagreements': len(bad)}
    for i in bad[:3]:
        ctx.broken.append({'name': 'correspondence:' + NAME,
                           'summary': 'the parser model and the object opened by pycdlib disagree, or open+write is not the identity (%d of %d histories)'
                                      % (len(bad), len(cs)),
                           'case': {'label': cs[i][0], 'ops': [repr(o) for o in cs[i][1]][:80]}})
