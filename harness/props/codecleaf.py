"""Leaf-level tie of Model/Codec.v to dr.py / path_table_record.py: every DirectoryRecord and
PathTableRecord object of generated images (plus field values pushed to their extremes) is
recorded by the library and by the model (vm_compute) and the bytes are compared; out-of-range
values must make both sides refuse.  Also: the isohybrid part of the C05 fixpoint."""
import copy
import io

from harness import common, sysimg, syslevel
from harness.common import z


def _records(iso):
    for vd in [iso.pvd] + ([iso.joliet_vd] if iso.joliet_vd is not None else []):
        stack = [vd.root_directory_record()]
        while stack:
            d = stack.pop()
            for c in d.children:
                yield c
                if c.is_dir() and not c.is_dot() and not c.is_dotdot():
                    stack.append(c)


def dr_case(rec):
    """(coq tuple text, expected bytes) for one DirectoryRecord object, or None"""
    try:
        b = rec.record()
    except Exception:
        b = b''
    ident = rec.file_ident
    lf = len(ident)
    if b:
        sysuse = b[33 + lf + (1 - lf % 2):]
    else:
        sysuse = b''
    try:
        ext = rec.extent_location()
    except Exception:
        return None
    date = rec.date.record()
    t = '(%s, %s, %s, %s, %s, %s, %s, %s, %s, %s)' % (
        z(rec.xattr_len), z(ext), z(rec.data_length), common.zlist(date), z(rec.file_flags), z(rec.file_unit_size),
        z(rec.interleave_gap_size), z(rec.seqnum), common.zlist(ident), common.zlist(sysuse))
    return '(%s, %s)' % (t, common.zlist(b)), b


def leaf_correspondence(ctx):
    rng = ctx.rng
    cfgs = syslevel.covering_configs(rng, 16)
    dr_texts, ptr_texts = [], []
    n_img = 6 if ctx.tier == 'quick' else 60
    for i in range(n_img):
        cfg = cfgs[i % len(cfgs)]
        ops, sizes = syslevel.gen_history(rng, cfg, rng.randrange(5, 25), allow_refusals=False, long_rr=0.1)
        b = sysimg.build(cfg, ops, sizes)
        if b.fail is not None:
            continue
        iso = b.iso
        try:
            for rec in _records(iso):
                if rec.rock_ridge is not None and rec.rock_ridge.dr_entries.ce_record is not None and rng.random() < 0.5:
                    pass
                c = dr_case(rec)
                if c is None:
                    continue
                dr_texts.append(c[0])
                ctx.case(('dr', c[0]), True)
                if rng.random() < 0.25 and rec.rock_ridge is None:
                    # extremes on a shallow copy of the record object
                    r2 = copy.copy(rec)
                    field, val = rng.choice([('data_length', 0xffffffff), ('data_length', 1 << 32), ('seqnum', 65535),
                                             ('seqnum', 65536), ('xattr_len', 255), ('file_unit_size', 256),
                                             ('interleave_gap_size', 255), ('file_flags', 255), ('data_length', -1)])
                    setattr(r2, field, val)
                    c2 = dr_case(r2)
                    if c2 is not None:
                        dr_texts.append(c2[0])
                        ctx.case(('dr-extreme', c2[0]), True)
            for rec in _records(iso):
                ptr = getattr(rec, 'ptr', None)
                if ptr is None:
                    continue
                if True:
                    for tweak in (None, 'parent', 'extent'):
                        p2 = copy.copy(ptr)
                        if tweak == 'parent':
                            p2.parent_directory_num = rng.choice((65535, 65536, 0))
                        elif tweak == 'extent':
                            p2.extent_location = rng.choice((0xffffffff, 1 << 32, 0))
                        if tweak and rng.random() < 0.7:
                            continue
                        try:
                            le, be = p2.record_little_endian(), p2.record_big_endian()
                        except Exception:
                            le = be = b''
                        ptr_texts.append('((%s, %s, %s, %s), %s, %s)' % (z(p2.xattr_length), z(p2.extent_location),
                                                                         z(p2.parent_directory_num),
                                                                         common.zlist(p2.directory_identifier),
                                                                         common.zlist(le), common.zlist(be)))
                        ctx.case(('ptr', ptr_texts[-1]), True)
        finally:
            iso.close()
    ctx.count('codecleaf:dr', len(dr_texts))
    ctx.count('codecleaf:ptr', len(ptr_texts))
    for name, texts, typ, fn in (
            ('Codec.enc_dr vs DirectoryRecord.record', dr_texts, '((Z * Z * Z * list Z * Z * Z * Z * Z * list Z * list Z) * list Z)', 'bad_dr_cases 0'),
            ('Codec.dec_dr on bytes of DirectoryRecord.record', dr_texts, '((Z * Z * Z * list Z * Z * Z * Z * Z * list Z * list Z) * list Z)', 'bad_dr_dec_cases 0'),
            ('Codec.enc_ptr_le/be vs PathTableRecord.record_*_endian', ptr_texts, '((Z * Z * Z * list Z) * list Z * list Z)', 'bad_ptr_cases 0')):
        if not texts:
            ctx.broken.append({'name': 'correspondence:' + name, 'summary': 'no cases generated'})
            continue
        bad, err = common.coq_bad_cases('codec', ['From PV.Model Require Import Codec.'], [], typ, texts, fn, shard=250)
        if bad is None:
            ctx.broken.append({'name': 'correspondence:' + name, 'summary': 'model evaluation failed: ' + err})
            continue
        ctx.cov['traces_validated_against_impl'] += len(texts) - len(bad)
        ctx.cov['correspondences'][name] = {'cases': len(texts), 'disagreements': len(bad)}
        for i in bad[:2]:
            ctx.broken.append({'name': 'correspondence:' + name,
                               'summary': 'the record codec of the library and Model/Codec.v disagree (%d of %d cases)' % (len(bad), len(texts)),
                               'coq_case': texts[i][:1500]})


ISOLINUX = b'\x00' * 0x40 + b'\xfb\xc0\x78\x70' + b'\x00' * 60


def hybrid_fixpoint(ctx):
    """isohybrid MBR (and GPT/APM) images: open + write reproduces the image"""
    import pycdlib
    rng = ctx.rng
    n = 6 if ctx.tier == 'quick' else 60
    for i in range(n):
        kw = rng.choice([{}, {'rock_ridge': '1.09'}, {'joliet': 3}, {'udf': '2.60'}])
        hy = rng.choice([{}, {'efi': True}, {'mac': True}, {'part_entry': 2}, {'part_offset': 0, 'geometry_heads': 32}])
        iso = pycdlib.PyCdlib()
        iso.new(interchange_level=3, **kw)
        try:
            iso.add_fp(io.BytesIO(ISOLINUX), len(ISOLINUX), '/ISOLINUX.BIN;1', **({'rr_name': 'isolinux.bin'} if 'rock_ridge' in kw else {}))
            for k in range(rng.randrange(0, 6)):
                data = syslevel.blob_content(k + 1, rng.choice(syslevel.SIZES))
                iso.add_fp(io.BytesIO(data), len(data), '/F%d.;1' % k, **({'rr_name': 'f%d' % k} if 'rock_ridge' in kw else {}))
            iso.add_eltorito('/ISOLINUX.BIN;1', '/BOOT.CAT;1', boot_load_size=4, **({'rr_bootcatname': 'boot.cat'} if 'rock_ridge' in kw else {}))
            if hy.get('efi') or hy.get('mac'):
                img2 = b'EFIIMG' * 700
                iso.add_fp(io.BytesIO(img2), len(img2), '/EFIBOOT.IMG;1', **({'rr_name': 'efiboot.img'} if 'rock_ridge' in kw else {}))
                iso.add_eltorito('/EFIBOOT.IMG;1', efi=True)
                if hy.get('mac'):
                    img3 = b'MACIMG' * 900
                    iso.add_fp(io.BytesIO(img3), len(img3), '/MACBOOT.IMG;1', **({'rr_name': 'macboot.img'} if 'rock_ridge' in kw else {}))
                    iso.add_eltorito('/MACBOOT.IMG;1', efi=True)
            iso.add_isohybrid(**hy)
            img, _ = sysimg.master(iso)
        except Exception as e:
            ctx.count('hybrid:build-refused:' + type(e).__name__)
            iso.close()
            continue
        iso.close()
        b = sysimg.Built()
        b.img = img
        sysimg.decode(b)
        sysimg.reopen(b)
        ctx.case(('hybrid', repr(kw), repr(hy), i), True)
        ctx.count('hybrid:images')
        if b.fail is not None:
            ctx.violation('c05:hybrid:reopen-fails:%s' % b.fail[1].split(':')[0],
                          'C05: an isohybrid image (%s, %s) cannot be opened again: %s' % (kw, hy, b.fail[1]), {'new': kw, 'hybrid': hy})
            continue
        sysimg.oracle_c05(b, lambda sig, text, extra: ctx.violation(
            'c05:hybrid:%s:%s' % (sig, '+'.join(sorted(hy)) or 'mbr'), 'C05: isohybrid image (%s, %s): %s' % (kw, hy, text),
            {'new': kw, 'hybrid': hy, 'offset': extra}))
        b.iso2.close()
