"""Tie of Model/Reloc.v (Rock Ridge relocation of deep directories as a state machine: RR_MOVED, CL placeholders, RE/PL, link
counts, the physical layout `view` and the logical tree) to /repo: directed and random histories (chains of depth 7..10,
relocated siblings, equal names relocated from different parents, leaves inside relocated directories, add_directory below a
file, removals and re-creations, reopen in the middle) are run on the real library with Rock Ridge; after EVERY operation the
outcome and the physical tree (per directory in breadth-first order: ISO name, Rock Ridge name, children, PX link counts,
child/relocated/parent flags, extents and CL/PL block numbers after _reshuffle_extents) are recorded, at the end the image is
written and decoded by the tool's own SUSP reader, and Coq evaluates the model on the same operations (bad_reloc_cases)."""
import importlib.util
import os

from harness import common

_spec = importlib.util.spec_from_file_location('reloc_cases', os.path.join(common.VERIF, 'tools', 'reloc_cases.py'))
NAME = 'Reloc.check_case vs pycdlib after every edit of a relocation history (physical tree, link counts, CL/PL/RE, written image)'


def correspondence(ctx):
    mod = importlib.util.module_from_spec(_spec)
    os.environ.setdefault('VERIF_REPO', common.REPO)
    _spec.loader.exec_module(mod)
    quick = ctx.tier == 'quick'
    seed = ctx.rng.randrange(1, 10 ** 5)
    cs = common.safe_cases(ctx, NAME, lambda: mod.cases(seed, 20 if quick else 240))
    if cs is None:
        return
    nops = sum(len(c['ops']) for c in cs)
    for c in cs:
        ctx.case(('reloc', len(c['ops']) // 4, c['fin'] is not None), True)
    ctx.count('reloc:histories', len(cs))
    ctx.count('reloc:operations', nops)
    texts = [mod.render(c) for c in cs]
    bad, err = common.coq_bad_cases('reloc', ['From PV.Model Require Import RelocCore RelocView Reloc.'], [], 'case', texts, 'bad_reloc_cases 0',
                                    shard=3 if quick else 10, workers=8 if quick else 15, timeout=1500)
    if bad is None:
        ctx.broken.append({'name': 'correspondence:' + NAME, 'summary': 'model evaluation failed: ' + err})
        ctx.cov['correspondences'][NAME] = {'cases': len(cs), 'disagreements': 'evaluation failed'}
        return
    ctx.cov['traces_validated_against_impl'] += len(cs) - len(bad)
    ctx.cov['correspondences'][NAME] = {'cases': len(cs), 'operations': nops, 'disagreements': len(bad)}
    for i in bad[:3]:
        c = cs[i]
        ctx.broken.append({'name': 'correspondence:' + NAME,
                           'summary': 'the relocation model and pycdlib disagree on a history (%d of %d histories)' % (len(bad), len(cs)),
                           'case': {'label': c.get('label'), 'ops': [repr(x) for x in c['ops']][:80]}})
