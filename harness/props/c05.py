"""C05 -- re-mastering is a fixpoint.  DESIGN.md section 8.5."""
from harness import common, sysimg, sysprops
from harness.props import codecleaf, vdleaf

MODULE = 'C05'
THEOREMS = None
RECIPES = ['exact_fill', 'ptable_boundary', 'ce_gap_exact', 'big_records', 'deep_tree', 'udf_fid_cross', 'long_symlinks']


def oracle(b, report):
    sysimg.oracle_c05(b, report)
    vdleaf.collect(b)


def run(ctx):
    common.proof_stage(ctx, MODULE, common.theorems_of(MODULE))
    common.setup_impl_path()
    codecleaf.leaf_correspondence(ctx)
    # translated volume size counters vs the real methods (validates the translator on procedures)
    from pycdlib import headervd
    rows = []
    for _ in range(300):
        sp, lbs = ctx.rng.randrange(0, 1 << 31), ctx.rng.choice([2048, 512, 4096])
        nb = ctx.rng.choice([0, 1, lbs - 1, lbs, lbs + 1, ctx.rng.randrange(0, 1 << 33)])
        vd = headervd.PrimaryOrSupplementaryVD(1)
        vd._initialized = True
        vd.space_size, vd.log_block_size = sp, lbs
        vd.add_to_space_size(nb)
        a1 = vd.space_size
        vd.space_size = sp
        vd.remove_from_space_size(nb)
        rows.append('(%s, %s, %s, %s, %s)' % (common.z(sp), common.z(lbs), common.z(nb), common.z(a1), common.z(vd.space_size)))
        ctx.case(('spacecnt', lbs, nb % lbs == 0), True)
    bad, err = common.coq_bad_cases('c05space', ['From PV.Gen Require Import GenFun GenObj.'],
                                    ['Fixpoint sp_bad (k : nat) (cs : list (Z * Z * Z * Z * Z)) : list nat := match cs with [] => [] | (s, l, n, a, r) :: t => '
                                     'if (vd_add_to_space_size s l n =? a) && (vd_remove_from_space_size s l n =? r) then sp_bad (S k) t else k :: sp_bad (S k) t end.'],
                                    '(Z * Z * Z * Z * Z)', rows, 'sp_bad 0', shard=300)
    name = 'translated add_to_space_size / remove_from_space_size vs the Python methods'
    if bad is None:
        ctx.broken.append({'name': 'correspondence:' + name, 'summary': 'evaluation failed: ' + err})
    else:
        ctx.cov['traces_validated_against_impl'] += len(rows) - len(bad)
        ctx.cov['correspondences'][name] = {'cases': len(rows), 'disagreements': len(bad)}
        for i in bad[:2]:
            ctx.broken.append({'name': 'correspondence:' + name, 'summary': 'translation disagrees with the Python method', 'coq_case': rows[i]})
    quick = ctx.tier == 'quick'
    sysprops.run_oracle(ctx, 'C05', sysprops.histories(ctx, 200 if quick else 3000, RECIPES,
                                                       dict(allow_refusals=False, fat_dir=0.15, long_rr=0.1, empty_bias=0.3),
                                                       nops=(4, 35) if quick else (10, 100), recipe_cfgs=4 if quick else 30),
                        oracle, max_shrink=6)
    codecleaf.hybrid_fixpoint(ctx)
    # the same fixpoint with the process in time zones west and east of Greenwich and with fractional-hour offsets (recorded
    # offsets of either sign must survive open + write)
    import os
    import time
    old_tz = os.environ.get('TZ')
    try:
        for tz in (['America/New_York', 'Asia/Kolkata'] if quick else ['America/New_York', 'Asia/Kolkata', 'Pacific/Chatham', 'America/St_Johns',
                                                                          'Pacific/Kiritimati', 'Etc/GMT+12']):
            os.environ['TZ'] = tz
            time.tzset()
            hist = [(label + '@' + tz, cfg, ops, sizes) for (label, cfg, ops, sizes) in
                    sysprops.histories(ctx, 10 if quick else 60, ['long_symlinks'], dict(allow_refusals=False, long_rr=0.1), nops=(4, 15),
                                       recipe_cfgs=1)]
            sysprops.run_oracle(ctx, 'C05', iter(hist), oracle, max_shrink=2)
            ctx.count('fixpoint-in-zone:' + tz, len(hist))
    finally:
        if old_tz is None:
            os.environ.pop('TZ', None)
        else:
            os.environ['TZ'] = old_tz
        time.tzset()
    vdleaf.flush_vd(ctx)
    vdleaf.VDS.clear()
    ctx.cov['rule'] = ('every image of the random histories and recipes (all configurations incl. XA, Rock Ridge 1.09/1.10/1.12, '
                       'Joliet, UDF, El Torito with extra sections, symlinks, hidden entries, hard links) is opened and written '
                       'again, twice; bytes compared except the volume-modification date fields; plus isohybrid MBR/GPT/APM images')
    ctx.cov['trusted_base'] = ['Coq 8.16.1 kernel, vm_compute', 'Model/Codec.v (hand model of record()/parse() of directory records, '
                               'path table records, both-endian integers, 7-byte dates), tied by byte-level leaf run against dr.py / '
                               'path_table_record.py', 'translator (struct FMT layouts)']
    ctx.assumptions = ['time.time is pinned in the harness process; volume modification dates are masked as the property says']


def replay(ctx, rep):
    return sysprops.replay(ctx, rep, oracle)
