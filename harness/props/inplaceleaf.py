"""Tie of Model/InPlace.v (modify_file_in_place as a function from the opened image and the object graph to the ordered list
of writes) to /repo: images (plain, +Joliet, +UDF, +Rock Ridge, XA, El Torito; hard links in and across namespaces; the
target's record at block boundaries of fat directories; files of 0/1/2047/2048/2049/5000 bytes; every new-length variant
incl. one sector more/less, zero and negative; read-only opens; fp shorter or longer than length; second and third calls in
one session) are built by the real library, opened r+b from a temporary file whose file object LOGS every (offset, bytes)
write issued by the call, and Coq compares the model's write list / refusal with the log (bad_inplace_cases; the state is
extracted from the opened object graph BEFORE the call and must satisfy wf_state)."""
import importlib.util
import os

from harness import common

_spec = importlib.util.spec_from_file_location('inplace_cases', os.path.join(common.VERIF, 'tools', 'inplace_cases.py'))
NAME = 'InPlace.modify vs the writes logged from PyCdlib.modify_file_in_place'


def correspondence(ctx):
    os.environ.setdefault('VERIF_REPO', common.REPO)
    mod = importlib.util.module_from_spec(_spec)
    _spec.loader.exec_module(mod)
    quick = ctx.tier == 'quick'
    seed = ctx.rng.randrange(1, 10 ** 5)
    nb = len(mod.boundary_cases())
    cs = common.safe_cases(ctx, NAME, lambda: mod.cases(seed, nb + (12 if quick else 250)))
    if cs is None:
        return
    if quick:
        cs = ctx.rng.sample(cs[:nb], min(nb, 24)) + cs[nb:]
    texts = []
    for c in cs:
        t = common.safe_render(ctx, NAME, mod.render, c)
        if t is None:
            continue
        texts.append(t)
        ctx.case(('inplace', len(texts[-1]) // 2000), True)
    ctx.count('inplace:cases', len(cs))
    bad, err = common.coq_bad_cases('inplace', ['From PV.Model Require Import Codec Udf InPlace.'], [], 'ip_case', texts, 'bad_inplace_cases 0',
                                    shard=5 if quick else 20, workers=8 if quick else 15, timeout=1500)
    if bad is None:
        ctx.broken.append({'name': 'correspondence:' + NAME, 'summary': 'model evaluation failed: ' + err})
        ctx.cov['correspondences'][NAME] = {'cases': len(cs), 'disagreements': 'evaluation failed'}
        return
    ctx.cov['traces_validated_against_impl'] += len(cs) - len(bad)
    ctx.cov['correspondences'][NAME] = {'cases': len(cs), 'disagreements': len(bad)}
    for i in bad[:3]:
        ctx.broken.append({'name': 'correspondence:' + NAME,
                           'summary': 'the in-place modification model and the writes issued by pycdlib disagree (%d of %d cases)' % (len(bad), len(cs)),
                           'case': {'index': i, 'coq_case_head': texts[i][:400]}})
