"""C16 -- reading files: stream semantics, no interference.  DESIGN.md section 8.16."""
import io
from concurrent.futures import ThreadPoolExecutor

from harness import common
from harness.common import z

MODULE = 'C16'
THEOREMS = ['C16_refines', 'C16_original_interleave_refuted', 'C16_original_readinto_refuted',
            'C16_nonvacuous']
SIZES = [0, 1, 5, 2047, 2048, 2049, 6151]


def pat(j, n):
    return bytes(((j * 37 + i * 7 + i // 251) % 256) for i in range(n))


CONTENT = [pat(j, n) for j, n in enumerate(SIZES)]


class RefStream:
    """The specification (Stream.spec_step) in Python: an in-memory stream over `content`."""

    def __init__(self, content):
        self.c = content
        self.p = 0
        self.open = True

    def read(self, n):
        if not self.open:
            return 'R'
        ln = len(self.c)
        want = ln if (n is None or n < 0) else n
        if self.p >= ln:
            return b''
        k = min(ln - self.p, want)
        d = self.c[self.p:self.p + k]
        self.p += k
        return d

    def seek(self, off, wh):
        if not self.open:
            return 'R'
        if wh == 0:
            t = off
        elif wh == 1:
            t = self.p + off
        elif wh == 2:
            t = len(self.c) + off
        else:
            return 'R'
        if t < 0:
            return 'R'
        self.p = t
        return t

    def tell(self):
        return self.p if self.open else 'R'


def self_test_oracle(rng):
    """RefStream agrees with io.BytesIO wherever BytesIO does not clamp or raise."""
    for _ in range(300):
        c = CONTENT[rng.randrange(len(CONTENT))]
        r, b = RefStream(c), io.BytesIO(c)
        for _ in range(12):
            k = rng.randrange(3)
            if k == 0:
                n = rng.choice([None, -1, 0, 1, 7, 3000, 10000])
                assert r.read(n) == b.read(n)
            elif k == 1:
                wh = rng.randrange(3)
                off = rng.choice([0, 1, 5, 2048, 7000]) * (1 if wh < 2 else -1)
                base = [0, b.tell(), len(c)][wh]
                if base + off >= 0:
                    assert r.seek(off, wh) == b.seek(off, wh)
            else:
                assert r.tell() == b.tell()


# ---------------------------------------------------------------- worlds

class World:
    """An opened PyCdlib object, the backing file object(s), and where each file lives."""

    def __init__(self, kind, iso, backing, starts, files, opener, getter, base, total):
        self.kind = kind
        self.iso = iso
        self.backing = backing     # the file object whose position is shared
        self.starts = starts       # file index -> absolute start in backing
        self.files = files         # file indices present
        self.opener = opener       # j -> PyCdlibIO
        self.getter = getter       # (j, outfp, blocksize) -> None
        self.base = base
        self.total = total


def build_worlds():
    import pycdlib
    worlds = []
    for kind in ('iso', 'udf', 'iso-modified', 'udf-modified'):
        modified = kind.endswith('-modified')
        kind = kind.split('-')[0]
        iso = pycdlib.PyCdlib()
        if kind == 'iso':
            iso.new(interchange_level=3, joliet=3, rock_ridge='1.09')
        else:
            iso.new(interchange_level=3, udf='2.60')
        for j, c in enumerate(CONTENT):
            kw = {'iso_path': '/F%d.;1' % j}
            if kind == 'iso':
                kw['rr_name'] = 'f%d' % j
                kw['joliet_path'] = '/f%d' % j
            else:
                kw['udf_path'] = '/f%d' % j
            iso.add_fp(io.BytesIO(c), len(c), **kw)
        out = io.BytesIO()
        iso.write_fp(out)
        iso.close()
        img = out.getvalue()
        backing = io.BytesIO(img)
        iso2 = pycdlib.PyCdlib()
        iso2.open_fp(backing)
        starts = {}
        for j, c in enumerate(CONTENT):
            ext = iso2.get_record(iso_path='/F%d.;1' % j).extent_location()
            if len(c) > 0:
                assert img[ext * 2048: ext * 2048 + len(c)] == c, 'file %d not at its recorded extent' % j
                starts[j] = ext * 2048
        base = min(starts.values())
        for j, c in enumerate(CONTENT):
            if len(c) == 0:
                starts[j] = base
        total = max(starts[j] + len(CONTENT[j]) for j in starts)
        which = kind
        if modified:
            # edit the opened image (not written yet) so that metadata recomputation moves every
            # original file to a new extent, then make a query that triggers the recomputation
            iso2.add_fp(io.BytesIO(b'A' * 5000), 5000, **({'iso_path': '/AAA.;1', 'rr_name': 'aaa', 'joliet_path': '/aaa'}
                                                         if kind == 'iso' else {'iso_path': '/AAA.;1', 'udf_path': '/aaa'}))
            iso2.add_directory(**({'iso_path': '/AAB', 'rr_name': 'aab', 'joliet_path': '/aab'}
                                  if kind == 'iso' else {'iso_path': '/AAB', 'udf_path': '/aab'}))
            for _ in iso2.list_children(iso_path='/'):
                pass
            iso2.get_record(iso_path='/F3.;1')

        def opener(j, iso2=iso2, which=which, n=[0]):
            n[0] += 1
            if which == 'udf' and n[0] % 2:
                return iso2.open_file_from_iso(udf_path='/f%d' % j)
            if which == 'iso' and n[0] % 3 == 1:
                return iso2.open_file_from_iso(joliet_path='/f%d' % j)
            if which == 'iso' and n[0] % 3 == 2:
                return iso2.open_file_from_iso(rr_path='/f%d' % j)
            return iso2.open_file_from_iso(iso_path='/F%d.;1' % j)

        def getter(j, outfp, bs, iso2=iso2, which=which):
            if which == 'udf':
                iso2.get_file_from_iso_fp(outfp, udf_path='/f%d' % j, blocksize=bs)
            else:
                iso2.get_file_from_iso_fp(outfp, iso_path='/F%d.;1' % j, blocksize=bs)
        worlds.append(World('reopened-' + kind + ('+edited' if modified else ''), iso2, backing, starts, list(range(len(CONTENT))),
                            opener, getter, base, total))
    # unwritten images: every added file has its own file object; streams over ONE file share it
    for j in (3, 6):
        iso = pycdlib.PyCdlib()
        iso.new(interchange_level=3)
        backing = io.BytesIO(CONTENT[j])
        iso.add_fp(backing, len(CONTENT[j]), iso_path='/F%d.;1' % j)

        def opener(jj, iso=iso, j=j):
            return iso.open_file_from_iso(iso_path='/F%d.;1' % j)

        def getter(jj, outfp, bs, iso=iso, j=j):
            iso.get_file_from_iso_fp(outfp, iso_path='/F%d.;1' % j, blocksize=bs)
        worlds.append(World('unwritten-%d' % j, iso, backing, {j: 0}, [j], opener, getter, 0, len(CONTENT[j])))
    return worlds


# ---------------------------------------------------------------- scripts

READ_SIZES = [None, -1, 0, 1, 2, 7, 100, 2047, 2048, 2049, 5000, 10000]
BLOCKS = [1, 7, 2048, 8192]


def gen_script(rng, world, maxops):
    ops = []
    nstreams = 0
    js = []
    n = rng.randrange(3, maxops)
    while len(ops) < n:
        r = rng.random()
        if nstreams == 0 or (nstreams < 3 and r < 0.12):
            j = rng.choice(world.files)
            ops.append(('open', j))
            js.append(j)
            nstreams += 1
            continue
        i = rng.randrange(nstreams)
        ln = SIZES[js[i]]
        if r < 0.40:
            ops.append(('read', i, rng.choice(READ_SIZES)))
        elif r < 0.47:
            ops.append(('readall', i))
        elif r < 0.60:
            ops.append(('readinto', i, rng.choice([0, 1, 3, 64, 2048, 3000, 9000])))
        elif r < 0.78:
            wh = rng.choice([0, 0, 1, 1, 2, 2, 3])
            off = rng.choice([0, 1, 2, 5, ln - 1, ln, ln + 1, ln + 50, 2048, rng.randrange(0, ln + 2)])
            if rng.random() < 0.4:
                off = -off
            ops.append(('seek', i, off, wh))
        elif r < 0.84:
            ops.append(('tell', i))
        elif r < 0.87:
            ops.append(('close', i))
        elif r < 0.95:
            ops.append(('env_get', rng.choice(world.files), rng.choice(BLOCKS)))
        elif r < 0.98 or not world.kind.startswith('reopened'):
            ops.append(('env_list',))
        else:
            ops.append(('env_add',))
    return ops


def run_script(world, ops):
    """Execute on the implementation and on the reference.  Returns (observations, failure).
    observations: per op (model_ops, xout) ; failure: None or dict."""
    from pycdlib import pycdlibexception as pe
    streams = []
    obs = []
    fail = None

    def refused(e):
        return isinstance(e, pe.PyCdlibInvalidInput)
    for idx, op in enumerate(ops):
        kind = op[0]
        try:
            if kind == 'open':
                j = op[1]
                s = world.opener(j)
                s.__enter__()
                streams.append((s, RefStream(CONTENT[j]), j))
                obs.append((['Open %s %s' % (z(world.starts[j] - world.base), z(SIZES[j]))], 'XU'))
            elif kind in ('read', 'readall', 'readinto'):
                s, ref, j = streams[op[1]]
                before = ref.p
                if kind == 'read':
                    want = ref.read(op[2])
                    try:
                        got = s.read(op[2])
                    except Exception as e:
                        got = 'R' if refused(e) else ('EXC', repr(e))
                    mop = 'Read %d %s' % (op[1], 'None' if op[2] is None else '(Some %s)' % z(op[2]))
                elif kind == 'readall':
                    want = ref.read(None)
                    try:
                        got = s.readall()
                    except Exception as e:
                        got = 'R' if refused(e) else ('EXC', repr(e))
                    mop = 'ReadAll %d' % op[1]
                else:
                    buf = bytearray(op[2])
                    want = ref.read(op[2])
                    try:
                        k = s.readinto(buf)
                        got = bytes(buf[:k])
                    except Exception as e:
                        got = 'R' if refused(e) else ('EXC', repr(e))
                    mop = 'ReadInto %d %s' % (op[1], z(op[2]))
                if got != want:
                    fail = {'op_index': idx, 'op': op, 'expected': _short(want), 'observed': _short(got),
                            'why': 'bytes returned differ from the in-memory stream over the file content'}
                    break
                x = 'XR' if got == 'R' else 'XB %s %s %s' % (z(j), z(min(before, SIZES[j])), z(len(got)))
                obs.append(([mop], x))
            elif kind == 'seek':
                s, ref, j = streams[op[1]]
                want = ref.seek(op[2], op[3])
                try:
                    got = s.seek(op[2], op[3])
                except Exception as e:
                    got = 'R' if refused(e) else ('EXC', repr(e))
                if got != want:
                    fail = {'op_index': idx, 'op': op, 'expected': want, 'observed': got,
                            'why': 'seek result differs from the specification'}
                    break
                obs.append((['Seek %d %s %s' % (op[1], z(op[2]), z(op[3]))], 'XR' if got == 'R' else 'XI %s' % z(got)))
            elif kind == 'tell':
                s, ref, j = streams[op[1]]
                want = ref.tell()
                try:
                    got = s.tell()
                except Exception as e:
                    got = 'R' if refused(e) else ('EXC', repr(e))
                if got != want:
                    fail = {'op_index': idx, 'op': op, 'expected': want, 'observed': got,
                            'why': 'tell differs from the specification'}
                    break
                obs.append((['Tell %d' % op[1]], 'XR' if got == 'R' else 'XI %s' % z(got)))
            elif kind == 'close':
                s, ref, j = streams[op[1]]
                s.close()
                ref.open = False
                obs.append((['Close %d' % op[1]], 'XU'))
            elif kind == 'env_get':
                j = op[1]
                out = io.BytesIO()
                world.getter(j, out, op[2])
                if out.getvalue() != CONTENT[j]:
                    fail = {'op_index': idx, 'op': op, 'expected': 'content of file %d (%d bytes)' % (j, SIZES[j]),
                            'observed': _short(out.getvalue()),
                            'why': 'whole-file extraction with block size %d differs from the content' % op[2]}
                    break
                obs.append((['EnvSetPos %s' % z(world.backing.tell() - world.base)], 'XU'))
            elif kind == 'env_list':
                for _ in world.iso.list_children(iso_path='/'):
                    pass
                obs.append((['EnvSetPos %s' % z(world.backing.tell() - world.base)], 'XU'))
            elif kind == 'env_add':
                # an edit of the opened image: later queries recompute extents of the original files
                world.nadd = getattr(world, 'nadd', 0) + 1
                if world.nadd <= 40:
                    world.iso.add_fp(io.BytesIO(b'n' * 3000), 3000, iso_path='/AA%d.;1' % world.nadd,
                                     **({'rr_name': 'aa%d' % world.nadd} if world.iso.has_rock_ridge() else {}))
                obs.append((['EnvSetPos %s' % z(world.backing.tell() - world.base)], 'XU'))
        except Exception as e:  # an exception no stream call should raise
            fail = {'op_index': idx, 'op': op, 'expected': 'a value or PyCdlibInvalidInput',
                    'observed': repr(e), 'why': 'unexpected exception'}
            break
    for s, _, _ in streams:
        try:
            s.__exit__()
        except Exception:
            pass
    return obs, fail


def _short(b):
    if isinstance(b, (bytes, bytearray)):
        return {'len': len(b), 'head': bytes(b[:16]).hex()}
    return b


def shrink(world, ops):
    """Delta-debug the script: drop operations while the oracle still fails."""
    cur = list(ops)
    changed = True
    while changed:
        changed = False
        for k in range(len(cur) - 1, -1, -1):
            cand = cur[:k] + cur[k + 1:]
            if not _valid(cand):
                continue
            _, f = run_script(world, cand)
            if f is not None:
                cur = cand[:f['op_index'] + 1]
                changed = True
                break
    return cur


def _valid(ops):
    n = 0
    for op in ops:
        if op[0] == 'open':
            n += 1
        elif op[0] in ('read', 'readall', 'readinto', 'seek', 'tell', 'close'):
            if op[1] >= n:
                return False
    return True


def coq_cases_text(worlds, cases):
    lines = ['From Coq Require Import ZArith List.', 'From PV.Base Require Import Prim.',
             'From PV.Model Require Import Stream StreamCases.', 'Import ListNotations.', 'Local Open Scope Z_scope.']
    datas = []
    for w in worlds:
        pl = sorted((w.starts[j] - w.base, j, SIZES[j]) for j in w.files if SIZES[j] > 0)
        datas.append('build 0 [%s] %s' % ('; '.join('(%d, %d, %d)' % p for p in pl), z(w.total - w.base)))
    lines.append('Definition datas : list (list Z) := Eval vm_compute in [%s].' % '; '.join(datas))
    lines.append('Definition lens : list (list Z) := Eval vm_compute in [%s].' % '; '.join('pat %d %d' % (j, s) for j, s in enumerate(SIZES)))
    cs = []
    for wi, obs in cases:
        ops = '; '.join(o for mo, _ in obs for o in mo)
        xs = '; '.join(x for _, x in obs)
        cs.append('{| c_data := %d%%nat; c_ops := [%s]; c_expect := [%s] |}' % (wi, ops, xs))
    lines.append('Definition cases : list scase := [\n%s].' % ';\n'.join(cs))
    lines.append('Eval vm_compute in bad_cases datas lens cases.')
    return '\n'.join(lines) + '\n'


def run(ctx):
    common.proof_stage(ctx, MODULE, sorted(set(THEOREMS) | set(common.theorems_of(MODULE))), extra_targets=['theories/Model/StreamCases.vo'])
    common.setup_impl_path()
    self_test_oracle(ctx.rng)
    worlds = build_worlds()
    nscripts = 1200 if ctx.tier == 'quick' else 24000
    maxops = 30 if ctx.tier == 'quick' else 60
    # corpus first: the two minimal scripts that failed on the pinned original
    corpus = [(0, [('open', 3), ('open', 5), ('read', 0, 5)]),
              (0, [('open', 6), ('readinto', 0, 10), ('read', 0, 10)]),
              (2, [('open', 3), ('env_get', 3, 7), ('read', 0, 100)]),
              (1, [('open', 4), ('seek', 0, -3, 2), ('env_list',), ('readall', 0)])]
    cases = []
    scripts = list(corpus)
    for k in range(nscripts):
        wi = k % len(worlds)
        scripts.append((wi, gen_script(ctx.rng, worlds[wi], maxops)))
    nfail = 0
    for wi, ops in scripts:
        w = worlds[wi]
        obs, fail = run_script(w, ops)
        kinds = set(o[0] for o in ops)
        nontrivial = len([o for o in ops if o[0] == 'open']) >= 1 and len(kinds & {'read', 'readall', 'readinto'}) >= 1
        ctx.case((w.kind, ops), nontrivial)
        for o in ops:
            ctx.count('op:' + o[0])
        ctx.count('world:' + w.kind)
        if fail is not None:
            nfail += 1
            if nfail <= 25:   # shrink only the first few; the signature is what matters
                small = shrink(w, ops)
                _, f2 = run_script(w, small)
                sig = 'stream:' + w.kind.split('-')[0].split('+')[0] + ':' + '-'.join(o[0] for o in small)
                ctx.violation(sig, 'C16: %s; minimal script on %s image: %s -> expected %s, observed %s'
                              % ((f2 or fail)['why'], w.kind, small, (f2 or fail)['expected'], (f2 or fail)['observed']),
                              {'world': w.kind, 'script': small, 'original_script': ops, 'failure': f2 or fail,
                               'sizes': SIZES, 'content_formula': 'byte i of file j = (j*37 + i*7 + i//251) % 256'})
        if obs:
            cases.append((wi, obs))
    ctx.count('oracle_failures', nfail)
    ctx.sample({'world': worlds[scripts[5][0]].kind, 'script': scripts[5][1]})
    ctx.sample({'world': worlds[scripts[6][0]].kind, 'script': scripts[6][1]})
    # model vs implementation (vm_compute inside Coq), sharded
    shard = 400
    chunks = [cases[i:i + shard] for i in range(0, len(cases), shard)]

    def do(ix):
        rc, out = common.coqc_text('C16cases_%d' % ix, coq_cases_text(worlds, chunks[ix]), timeout=900)
        return ix, rc, out
    disagreements = 0
    with ThreadPoolExecutor(max_workers=8) as ex:
        for ix, rc, out in ex.map(do, range(len(chunks))):
            bad = common.parse_coq_list_of_nat(out) if rc == 0 else None
            if bad is None:
                ctx.broken.append({'name': 'correspondence:StreamCases', 'summary':
                                   'model evaluation failed: ' + out[-500:]})
                continue
            ctx.cov['traces_validated_against_impl'] += len(chunks[ix]) - len(bad)
            for b in bad:
                disagreements += 1
                wi, obs = chunks[ix][b]
                ctx.broken.append({'name': 'correspondence:Stream.run', 'summary':
                                   'model (fixed=true) and implementation disagree on a script over %s' % worlds[wi].kind,
                                   'model_ops': [o for mo, _ in obs for o in mo], 'impl_outputs': [x for _, x in obs]})
                if disagreements >= 5:
                    break
    ctx.cov['correspondences']['Stream.run vs PyCdlibIO'] = {
        'cases': len(cases), 'disagreements': disagreements}
    ctx.cov['rule'] = ('scripts of 3..%d stream/environment operations over 1-3 simultaneously open files on '
                       'reopened ISO/Joliet/RR and UDF images and on unwritten images; non-trivial = at least '
                       'one open and one read-like call; distinct by (world, script)' % maxops)
    ctx.cov['trusted_base'] = [
        'Coq 8.16.1 kernel, vm_compute (witness evaluation, correspondence evaluation)',
        'hand-written model Model/Stream.v of pycdlibio.PyCdlibIO, tied by this differential run',
        'Python file-object semantics (seek/read/tell) as modelled by fread',
        'harness/props/c16.py (script generator, RefStream oracle, compact output encoding)']
    ctx.assumptions = ['streams lie inside the backing file (wf); readinto buffers have non-negative length',
                       'a short read of the backing file (truncated image) is outside the model',
                       'files with an El Torito boot-info table read through PyCdlibIO are not covered']
    for w in worlds:
        try:
            w.iso.close()
        except Exception:
            pass
