"""C12 -- hybrid (MBR/GPT/APM) boot data is consistent with the image it describes.  DESIGN.md section 8.12."""
import io

from harness import common, nsoracles, reader, sysimg, syslevel, sysprops, sysrun
from harness.props.codecleaf import ISOLINUX
from harness.props import hybridleaf, hybridhistleaf, hybridparseleaf

MODULE = 'C12'


def hybrid_case(rng, quick):
    kw = rng.choice([{}, {'rock_ridge': '1.09'}, {'joliet': 3}, {'udf': '2.60'}, {'rock_ridge': '1.12', 'joliet': 3}])
    hy = rng.choice([{}, {'efi': True}, {'efi': True}, {'efi': True}, {'mac': True}, {'mac': True}, {'part_entry': rng.choice([1, 3, 4])},
                     {'geometry_heads': rng.choice([1, 2, 16, 32, 255, 256]), 'geometry_sectors': rng.choice([1, 2, 17, 32, 63])},
                     {'part_offset': rng.choice([0, 1, 4]), 'mbr_id': 0x12345678}, {'part_type': 0x17}])
    files = [(rng.choice(syslevel.SIZES + [30000, 70000]), rng.random() < 0.5) for _ in range(rng.randrange(0, 6))]
    return kw, hy, files


def build_hybrid(kw, hy, files, with_hybrid=True, second_stage=None):
    """returns (img, iso) ; second_stage: list of (size) files added after a first mastering (C12B-like schedules)"""
    import pycdlib
    iso = pycdlib.PyCdlib()
    iso.new(interchange_level=3, **kw)
    rr = 'rock_ridge' in kw

    def add(path, data, rrname):
        iso.add_fp(io.BytesIO(data), len(data), path, **({'rr_name': rrname} if rr else {}))
    for k, (sz, before) in enumerate(files):
        if before:
            add('/A%d.;1' % k, syslevel.blob_content(k + 1, sz), 'a%d' % k)
    add('/ISOLINUX.BIN;1', ISOLINUX, 'isolinux.bin')
    iso.add_eltorito('/ISOLINUX.BIN;1', '/BOOT.CAT;1', boot_load_size=4, **({'rr_bootcatname': 'boot.cat'} if rr else {}))
    if hy.get('efi') or hy.get('mac'):
        add('/EFIBOOT.IMG;1', b'EFIIMG' * 700, 'efiboot.img')
        iso.add_eltorito('/EFIBOOT.IMG;1', efi=True)
        if hy.get('mac'):
            add('/MACBOOT.IMG;1', b'MACIMG' * 900, 'macboot.img')
            iso.add_eltorito('/MACBOOT.IMG;1', efi=True)
    for k, (sz, before) in enumerate(files):
        if not before:
            add('/Z%d.;1' % k, syslevel.blob_content(k + 1, sz), 'z%d' % k)
    if with_hybrid:
        iso.add_isohybrid(**hy)
    if second_stage is not None:
        sysimg.master(iso)
        for k, sz in enumerate(second_stage):
            add('/ZZ%d.;1' % k, syslevel.blob_content(100 + k, sz), 'zz%d' % k)
    img, _ = sysimg.master(iso)
    return img, iso


def leaf_mbr(ctx):
    """IsoHybrid.record over a geometry x size grid: independent decode of the MBR partition entry; translated _calc_cc vs Python"""
    from pycdlib import isohybrid
    rng = ctx.rng
    rows = []
    geos = [(1, 1), (2, 2), (4, 3), (16, 17), (64, 32), (255, 63), (256, 63), (3, 5)]
    for heads, sects in geos:
        cyl = heads * sects * 512
        for cc in (1, 2, 255, 256, 257, 511, 512, 513, 767, 768, 769, 1023, 1024, 1025, 1300):
            for delta in (0, -1, 1, -cyl + 1):
                size = cc * cyl + delta
                if size <= 0:
                    continue
                h = isohybrid.IsoHybrid()
                h.new(False, False, 1, None, 0, sects, heads, 0x17)
                got_cc, got_pad = h._calc_cc(size)
                rows.append('(%d, %d, %d, %d, %d)' % (heads, sects, size, got_cc, got_pad))
                ctx.case(('geo', heads, sects, size), True)
                rec = h.record(size)
                m = nsoracles.mbr_decode(rec + b'\x00' * 512)
                p = m['parts'][0]
                padded = size + got_pad
                real_cc = padded // cyl
                if real_cc <= 1024:
                    want = ((real_cc - 1) & 0x3ff, heads - 1, sects)
                    if (p['end_cyl'], p['end_head'], p['end_sect']) != want or p['lba'] + p['count'] != padded // 512 or padded % cyl:
                        ctx.violation('c12:mbr-geometry:leaf', 'C12: IsoHybrid.record: geometry %dx%d, image of %d bytes (%d cylinders): active '
                                      'partition ends at C/H/S %s covering %d sectors, the padded image ends at %s with %d sectors'
                                      % (heads, sects, size, real_cc, (p['end_cyl'], p['end_head'], p['end_sect']), p['lba'] + p['count'],
                                         want, padded // 512), {'heads': heads, 'sectors': sects, 'iso_size': size})
                else:
                    ctx.violation('c12:cylinders-clamped', 'C12: images above 1024 cylinders (%dx%d geometry, %d bytes): the active partition '
                                  'covers %d of %d sectors' % (heads, sects, size, p['lba'] + p['count'], padded // 512),
                                  {'heads': heads, 'sectors': sects, 'iso_size': size})
    defs = ['Fixpoint bad_from (k : nat) (cs : list (Z * Z * Z * Z * Z)) : list nat := match cs with [] => [] | (h, s, sz, cc, pad) :: r => '
            'if (let \'(a, b) := calc_cc h s sz in (a =? cc) && (b =? pad)) then bad_from (S k) r else k :: bad_from (S k) r end.']
    bad, err = common.coq_bad_cases('c12leaf', ['From PV.Gen Require Import GenConst GenFun.'], defs, '(Z * Z * Z * Z * Z)', rows, 'bad_from 0', shard=400)
    name = 'translated IsoHybrid._calc_cc vs the Python method'
    if bad is None:
        ctx.broken.append({'name': 'correspondence:' + name, 'summary': 'evaluation failed: ' + err})
    else:
        ctx.cov['traces_validated_against_impl'] += len(rows) - len(bad)
        ctx.cov['correspondences'][name] = {'cases': len(rows), 'disagreements': len(bad)}
        for i in bad[:2]:
            ctx.broken.append({'name': 'correspondence:' + name, 'summary': 'translation disagrees with the Python method', 'coq_case': rows[i]})


def run(ctx):
    common.proof_stage(ctx, MODULE, common.theorems_of(MODULE))
    common.setup_impl_path()
    leaf_mbr(ctx)
    hybridleaf.leaf_correspondence(ctx)
    hybridhistleaf.correspondence(ctx)
    hybridparseleaf.correspondence(ctx)
    # requests that cannot be mastered must be refused at the call, not fail in write_fp
    import pycdlib
    for nefi in (0, 1):
        for hy in ({'efi': True}, {'mac': True}):
            if nefi == 1 and 'efi' in hy:
                continue
            iso = pycdlib.PyCdlib()
            iso.new(interchange_level=3)
            iso.add_fp(io.BytesIO(ISOLINUX), len(ISOLINUX), '/ISOLINUX.BIN;1')
            iso.add_eltorito('/ISOLINUX.BIN;1', '/BOOT.CAT;1', boot_load_size=4)
            if nefi:
                iso.add_fp(io.BytesIO(b'E' * 4096), 4096, '/EFI.IMG;1')
                iso.add_eltorito('/EFI.IMG;1', efi=True)
            ctx.case(('hybrid-unsatisfiable', nefi, repr(hy)), True)
            try:
                iso.add_isohybrid(**hy)
            except pycdlib.pycdlibexception.PyCdlibInvalidInput:
                iso.close()
                continue
            try:
                sysimg.master(iso)
                what = 'and an image is written whose GPT describes nothing'
            except Exception as e:
                what = 'and write_fp then fails with %s: %s' % (type(e).__name__, str(e)[:60])
            ctx.violation('c12:unsatisfiable-request-accepted', 'C12: add_isohybrid(%s) with %d El Torito EFI entries is accepted %s'
                          % (hy, nefi, what), {'hybrid': hy, 'efi_entries': nefi})
            iso.close()
    rng = ctx.rng
    quick = ctx.tier == 'quick'
    for i in range(60 if quick else 800):
        kw, hy, files = hybrid_case(rng, quick)
        second = [rng.choice([1, 3000, 300000, 1100000, 2300000])] * rng.randrange(1, 3) if rng.random() < 0.5 else None
        try:
            img, iso = build_hybrid(kw, hy, files, True, second)
            iso.close()
        except Exception as e:
            import pycdlib
            if isinstance(e, pycdlib.pycdlibexception.PyCdlibInvalidInput):
                ctx.count('hybrid:refused')
                continue
            ctx.violation('c12:build-fails:%s' % type(e).__name__, 'C12: a hybrid image (%s, %s) cannot be written: %s: %s'
                          % (kw, hy, type(e).__name__, str(e)[:100]), {'new': kw, 'hybrid': hy, 'files': files, 'second': second})
            continue
        try:
            plain, iso2 = build_hybrid(kw, hy, files, False, second)
            iso2.close()
        except Exception:
            plain = None
        b = sysimg.Built()
        b.img, b.plain_img = img, plain
        sysimg.decode(b)
        ctx.case(('hybrid', repr(kw), repr(hy), repr(files), repr(second)), True)
        ctx.count('hybrid:' + ('+'.join(sorted(hy)) or 'mbr') + (':two-writes' if second else ''))
        found = []
        nsoracles.oracle_c12(b, lambda sig, text, extra: found.append((sig, text)), hy)
        sysimg.oracle_c04(b, lambda sig, text, extra: found.append((sig, text)) if sig.startswith(('overlap', 'length')) else None)
        # the unchanged library pads only to a whole cylinder: when that padding is smaller than the backup GPT (16896 bytes) the
        # backup GPT is written over the tail of the volume -- one known defect, whatever structures it happens to hit
        pad = len(img) - (b.rd.pvd['space_size'] * 2048 if b.rd is not None else len(img))
        if (hy.get('efi') or hy.get('mac')) and 0 <= pad < 16896:
            tail = [f for f in found if 'gpt-backup' in f[0] or 'gpt-backup' in f[1] or f[0].startswith(('rule:udf-anchor', 'hybrid-changes-iso', 'rule:gpt-'))]
            if tail:
                found = [f for f in found if f not in tail]
                ctx.violation('c12:gpt-backup-overwrites-volume-tail', 'C12: the cylinder padding (%d bytes) is smaller than the backup GPT (16896 bytes), '
                              'which is therefore written over the end of the volume: %s' % (pad, tail[0][1][:200]),
                              {'new': kw, 'hybrid': hy, 'files': files, 'second': second, 'signature': 'gpt-backup-overwrites-volume-tail'})
        for sig, text in found[:3]:
            cls = '+'.join(sorted(k for k in hy if k in ('efi', 'mac'))) or 'mbr'
            ctx.violation('c12:%s:%s%s' % (sig, cls, ':two-writes' if second else ''),
                          'C12: hybrid image (%s, add_isohybrid(%s)%s): %s' % (kw, hy, ', written twice with files added in between' if second else '', text),
                          {'new': kw, 'hybrid': hy, 'files': files, 'second': second, 'signature': sig})
    ctx.cov['rule'] = ('MBR leaf grid: 8 geometries x cylinder counts around 1, 256, 512, 768, 1024 x sizes at and around cylinder '
                       'multiples, partition entry decoded independently; hybrid images (plain MBR, EFI/GPT, Mac/APM, partition entry / '
                       'offset / type / geometry variants, Rock Ridge/Joliet/UDF) incl. write - add files - write schedules: MBR signature, one '
                       'active partition covering the padded image, boot file address, GPT CRCs and primary/backup mirror, padding, overlap of the backup '
                       'GPT with the volume, and the rest of the image equal to the non-hybrid image')
    ctx.cov['trusted_base'] = ['Coq 8.16.1 kernel, vm_compute', 'translator (IsoHybrid._calc_cc, crc32 + table) validated on every run',
                               'harness/reader.py hybrid part; independent MBR decode in harness/nsoracles.py']
    ctx.assumptions = ['"covers the cylinder-padded image" is demanded only up to 1024 cylinders in the image-level oracle; beyond that the clamp is a listed known finding']


def replay(ctx, rep):
    common.setup_impl_path()
    c = rep['case']
    if 'heads' in c:
        from pycdlib import isohybrid
        h = isohybrid.IsoHybrid()
        h.new(False, False, 1, None, 0, c['sectors'], c['heads'], 0x17)
        cc, pad = h._calc_cc(c['iso_size'])
        m = nsoracles.mbr_decode(h.record(c['iso_size']) + b'\x00' * 512)
        cyl = c['heads'] * c['sectors'] * 512
        padded = c['iso_size'] + pad
        p = m['parts'][0]
        bad = (p['lba'] + p['count']) != padded // 512 or (p['end_cyl'] != ((padded // cyl - 1) & 0x3ff))
        print('replay:', p, 'padded sectors', padded // 512)
        return 1 if bad else 0
    files = [tuple(f) for f in c['files']]
    img, iso = build_hybrid(c['new'], c['hybrid'], files, True, c.get('second'))
    iso.close()
    b = sysimg.Built()
    b.img = img
    b.plain_img = None
    sysimg.decode(b)
    found = []
    nsoracles.oracle_c12(b, lambda sig, text, extra: found.append((sig, text)), c['hybrid'])
    sysimg.oracle_c04(b, lambda sig, text, extra: found.append((sig, text)))
    for f in found:
        print('replay:', f)
    return 1 if any(s == c.get('signature') for s, _ in found) else 0
