"""C08 -- Rock Ridge fidelity for an independent SUSP/RRIP reader.  DESIGN.md section 8.8."""
from harness import common, nsoracles, sysimg, sysprops
from harness.props import celeaf, namesleaf, nlinkleaf, rrleaf, rrplaceleaf, relocleaf, masterrrleaf

MODULE = 'C08'
RECIPES = ['ce_gap_plus', 'ce_gap_exact', 'ce_gap_minus', 'deep_tree', 'reloc_churn', 'reloc_same_names', 'long_symlinks', 'fat_dir_churn', 'symlink_ce_release', 'ce_second_block_release']


def oracle(b, report):
    nsoracles.oracle_c08(b, report)
    rrleaf.collect(b)


def run(ctx):
    common.proof_stage(ctx, MODULE, common.theorems_of(MODULE))
    common.setup_impl_path()
    namesleaf.leaf_correspondence(ctx, 'C08', symlinks=True, names=True)
    celeaf.leaf_correspondence(ctx)
    nlinkleaf.correspondence(ctx)
    rrplaceleaf.leaf_correspondence(ctx)
    relocleaf.correspondence(ctx)
    masterrrleaf.correspondence(ctx)
    quick = ctx.tier == 'quick'
    sysprops.run_oracle(ctx, 'C08', sysprops.histories(ctx, 120 if quick else 2500, RECIPES,
                                                       dict(allow_refusals=False, long_rr=0.3, max_depth=6),
                                                       nops=(5, 35) if quick else (10, 100), recipe_cfgs=5 if quick else 40,
                                                       cfg_filter=lambda c: c.rr is not None),
                        oracle, need_reopen=False, max_shrink=5)
    # reopen-then-edit generations: continuation areas of a parsed image must be tracked before new ones are placed
    hist = list(sysprops.histories(ctx, 30 if quick else 500, ['ce_gap_plus', 'long_symlinks', 'deep_tree', 'reloc_churn'], dict(allow_refusals=False, long_rr=0.5, max_depth=5),
                                   nops=(6, 30), recipe_cfgs=2 if quick else 10, cfg_filter=lambda c: c.rr is not None))
    for label, cfg, ops, sizes in hist:
        if len(ops) < 3:
            continue
        # relocation recipes: reopen late, so that directories are relocated on both sides of the reopen
        rp = (ctx.rng.randrange(len(ops) * 2 // 3, len(ops)) if ('deep_tree' in label or 'reloc' in label) else ctx.rng.randrange(1, len(ops)),)
        ops, rp = sysprops.accepted_only(ops, rp)
        sysprops.run_oracle(ctx, 'C08', iter([(label + '+reopen', cfg, ops, sizes)]), oracle, need_reopen=False, max_shrink=1,
                            build_kwargs={'reopen_points': rp})
    rrleaf.flush(ctx)
    ctx.cov['rule'] = ('Rock Ridge images (1.09/1.10/1.12 x XA x Joliet/UDF) of random histories with 30% long names plus recipes: '
                       'continuation-area gaps of exactly the needed size +-1 after rm_directory, trees deeper than 8 (relocation, also '
                       'with XA), symlink targets crossing every SL record/component boundary; an independent SUSP/RRIP reader must '
                       'recover names, types, PX mode types, link counts, targets and the logical tree; entry lengths, CE/CL/PL pointers checked')
    ctx.cov['trusted_base'] = ['Coq 8.16.1 kernel, vm_compute', 'Model/LongNames.v, Model/CeAlloc.v (hand models) tied by leaf runs against '
                               'rockridge.py / headervd.py', 'Model/Nlink.v (hand model of the directory link count bookkeeping; depth <= 7, no relocation) '
                               'tied by reading the PX counts of the record objects before and after the recomputation', 'harness/reader.py']
    ctx.assumptions = ['link counts on images with a relocated directory follow the physical tree (RR_MOVED counted) and are not compared']


def replay(ctx, rep):
    return sysprops.replay(ctx, rep, oracle, need_reopen=False)
