"""Tie of Model/Parse.v / Model/ParseHostile.v to /repo on HOSTILE directory areas: valid images written by the library are
damaged (a child directory pointed back at the root / its parent / a sibling, extents outside the path table or beyond the
file, data lengths of 2^31 / 0 / 100, zeroed or oversized length bytes, identifier lengths of 200 / 0, mismatched both-endian
copies, non-decimal and zero versions, records named 0x00 / 0x01, flipped flags, an empty path table, a bad root pointer,
seeded byte flips); the outcome of open_fp on the real library (the opened graph, or which of the nine raise points fired,
classified by exception type and message, or where the walk leaves the modelled fragment) is read off on every run and Coq
checks that the model predicts the same outcome (bad_hostile_cases)."""
import importlib.util
import os

from harness import common

_spec = importlib.util.spec_from_file_location('parse_cases', os.path.join(common.VERIF, 'tools', 'parse_cases.py'))
NAME = 'Parse.parse_file vs open_fp of the library on hostile directory areas (graph / raise point)'


def correspondence(ctx):
    os.environ.setdefault('VERIF_REPO', common.REPO)
    mod = importlib.util.module_from_spec(_spec)
    _spec.loader.exec_module(mod)
    quick = ctx.tier == 'quick'
    seed = ctx.rng.randrange(1, 10 ** 5)
    cs = common.safe_cases(ctx, NAME, lambda: mod.hostile_cases(seed, 40 if quick else 400))
    if cs is None:
        return
    texts = []
    for c in cs:
        t = common.safe_render(ctx, NAME, mod.render_hostile, c)
        if t is None:
            continue
        texts.append(t)
        ctx.case(('hostile', c[0].split(':')[0][:24], t.rstrip(' )')[-14:]), True)
    ctx.count('parse-hostile:cases', len(texts))
    bad, err = common.coq_bad_cases('phostile', ['From PV.Model Require Import Master Parse ParseHostile.'], [], 'ps_hcase', texts, 'bad_hostile_cases 0',
                                    shard=5 if quick else 25, workers=8 if quick else 15, timeout=1500)
    if bad is None:
        ctx.broken.append({'name': 'correspondence:' + NAME, 'summary': 'model evaluation failed: ' + err})
        ctx.cov['correspondences'][NAME] = {'cases': len(texts), 'disagreements': 'evaluation failed'}
        return
    ctx.cov['traces_validated_against_impl'] += len(texts) - len(bad)
    ctx.cov['correspondences'][NAME] = {'cases': len(texts), 'disagreements': len(bad)}
    for i in bad[:3]:
        ctx.broken.append({'name': 'correspondence:' + NAME,
                           'summary': 'the parser model and open_fp of the library disagree on a hostile image (%d of %d)' % (len(bad), len(texts)),
                           'case': {'name': cs[i][0] if i < len(cs) else '?', 'coq_case_tail': texts[i][-300:]}})
