"""Tie of Model/AccountRR.v (space accounting of an ISO9660 + Rock Ridge image as a state machine: directory records whose
length and continuation-area need come from Model/RRPlace.v, the continuation blocks of Model/CeAlloc.v, add_fp /
add_directory / add_symlink / rm_file / rm_directory with the refusals the library has) to /repo: edit histories (random,
continuation blocks filled to exactly 2048 / 2047 / 2049 bytes with removals in the middle and adds that reuse the gaps,
a user-made RR_MOVED, depth 7) are run on the real library; after EVERY operation the accepted flag, [space_size, path table
size, path table extents, sum of directory lengths, number of inodes], the entry list of every continuation block, the end of
the extents that _reshuffle_extents assigns and every block's extent are recorded, and Coq evaluates the model on the same
operations (bad_accountrr_cases).  Property side: after every accepted operation space_size must equal that end."""
import importlib.util
import os

from harness import common

_spec = importlib.util.spec_from_file_location('account_rr_traces', os.path.join(common.VERIF, 'tools', 'account_rr_traces.py'))

NAME = 'AccountRR.run_obs vs pycdlib after every edit of a Rock Ridge history'


def correspondence(ctx):
    at = importlib.util.module_from_spec(_spec)
    os.environ.setdefault('PYCDLIB_TREE', common.REPO)
    _spec.loader.exec_module(at)
    quick = ctx.tier == 'quick'
    seed = ctx.rng.randrange(1, 10 ** 6)
    # cases(seed, n): k % 10 == 0 is a block-fill scenario, 1 the deep / RR_MOVED scenario, the rest random flavours
    cs = common.safe_cases(ctx, NAME, lambda: at.cases(seed, 10 if quick else 60))
    if cs is None:
        return
    if quick:
        # the long random histories cost minutes inside Coq: keep the scenarios and the shorter histories
        cs = sorted(cs, key=lambda c: len(c['ops']))[:8]
    nops = sum(len(c['ops']) for c in cs)
    for c in cs:
        for op, o in zip(c['ops'], c['obs']):
            ctx.case(('accrr', op[0], o[0], len(o[2]), c['version']), True)
        for i, o in enumerate(c['obs']):
            if o[0] and o[1][0] != o[3]:
                ctx.violation('c04:accountrr:space-vs-layout-end',
                              'after operation %d (%s) of a Rock Ridge history (%s) pvd.space_size is %d but the extents assigned by '
                              '_reshuffle_extents end at %d' % (i, c['ops'][i][0], c['label'], o[1][0], o[3]),
                              {'label': c['label'], 'ops': [repr(x) for x in c['ops'][:i + 1]], 'space': o[1][0], 'end': o[3]})
                break
    ctx.count('accountrr:histories', len(cs))
    ctx.count('accountrr:operations', nops)
    texts = [at.render(c) for c in cs]
    bad, err = common.coq_bad_cases('accrr', ['From PV.Model Require Import AccountRR.'], [], 'rcase', texts, 'bad_accountrr_cases 0',
                                    shard=1 if quick else 4, workers=8 if quick else 15, timeout=1500)
    if bad is None:
        ctx.broken.append({'name': 'correspondence:' + NAME, 'summary': 'model evaluation failed: ' + err})
        ctx.cov['correspondences'][NAME] = {'cases': len(cs), 'disagreements': 'evaluation failed'}
        return
    ctx.cov['traces_validated_against_impl'] += len(cs) - len(bad)
    ctx.cov['correspondences'][NAME] = {'cases': len(cs), 'operations': nops, 'disagreements': len(bad)}
    for i in bad[:3]:
        c = cs[i]
        ctx.broken.append({'name': 'correspondence:' + NAME,
                           'summary': 'the Rock Ridge accounting model and pycdlib disagree on a history (%d of %d histories)' % (len(bad), len(cs)),
                           'case': {'label': c['label'], 'version': c['version'], 'ops': [repr(x) for x in c['ops']][:80]}})
