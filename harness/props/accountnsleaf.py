"""Tie of Model/AccountNs.v (the object graph of an ISO9660 + Joliet image as a state machine: two directory trees sharing
inodes, both volume sizes, both path-table trackers; add_fp / add_directory / add_hard_link / rm_hard_link / rm_file /
rm_directory within and across the namespaces, with the late refusals the library has) to /repo: random histories are
run on the real library; after EVERY operation the outcome (accepted / refused / refused-with-leftover), both space sizes,
both path tables, the directory sums, the inode table, the end of the extents _reshuffle_extents assigns and the API VIEW of
both hierarchies are recorded, and Coq evaluates nrun_probe / nrun_flags / nrun_ends / nrun_views on the same operations.
The views are what Proofs/AccountNsRefineRun.v proves equal to the views of Spec/FsSpec.v."""
import importlib.util
import os

from harness import common

_spec = importlib.util.spec_from_file_location('account_ns_traces', os.path.join(common.VERIF, 'tools', 'account_ns_traces.py'))

T_VIEW = 'list (list (list Z) * Z * Z)'
DEFS = [
    'Fixpoint zl_eqb (a b : list Z) : bool := match a, b with [], [] => true | x :: a, y :: b => (x =? y) && zl_eqb a b | _, _ => false end.',
    'Fixpoint zp_eqb (a b : list (Z * Z)) : bool := match a, b with [], [] => true | (x, y) :: a, (u, v) :: b => (x =? u) && (y =? v) && zp_eqb a b | _, _ => false end.',
    'Fixpoint pr_eqb (a b : list (list Z * list (Z * Z))) : bool := match a, b with [], [] => true | (x, y) :: a, (u, v) :: b => zl_eqb x u && zp_eqb y v && pr_eqb a b | _, _ => false end.',
    'Fixpoint pth_eqb (a b : list (list Z)) : bool := match a, b with [], [] => true | x :: a, y :: b => zl_eqb x y && pth_eqb a b | _, _ => false end.',
    'Fixpoint v1_eqb (a b : %s) : bool := match a, b with [], [] => true | (p, k, i) :: a, (q, l, j) :: b => pth_eqb p q && (k =? l) && (i =? j) && v1_eqb a b | _, _ => false end.' % T_VIEW,
    'Fixpoint vs_eqb (a b : list (%s * %s)) : bool := match a, b with [], [] => true | (x, y) :: a, (u, v) :: b => v1_eqb x u && v1_eqb y v && vs_eqb a b | _, _ => false end.' % (T_VIEW, T_VIEW),
    'Definition ns_ok (c : list nop * list (list Z * list (Z * Z)) * list Z * (nat * list Z) * list (%s * %s)) : bool := ' % (T_VIEW, T_VIEW) +
    "let '(ops, probes, flags, (nclean, ends), views) := c in "
    'pr_eqb (nrun_probe ops) probes && zl_eqb (nrun_flags ops) flags && zl_eqb (firstn nclean (map snd (nrun_ends ops))) ends && '
    'forallb (fun p => fst p =? snd p) (firstn nclean (nrun_ends ops)) && vs_eqb (nrun_views ops) views.',
    'Fixpoint ns_bad (k : nat) (cs : list (list nop * list (list Z * list (Z * Z)) * list Z * (nat * list Z) * list (%s * %s))) : list nat := ' % (T_VIEW, T_VIEW) +
    'match cs with [] => [] | c :: r => if ns_ok c then ns_bad (S k) r else k :: ns_bad (S k) r end.',
]


def correspondence(ctx):
    at = importlib.util.module_from_spec(_spec)
    _spec.loader.exec_module(at)
    quick = ctx.tier == 'quick'
    specs = sorted(at.FIXED) + ['%d:%d%s' % (ctx.rng.randrange(1, 10 ** 6), n, ':clean' if k % 3 else '')
                               for k, n in enumerate([25, 30, 40, 40, 50, 60] * (1 if quick else 14))]
    texts, cases = [], []
    nops = nacc = nlate = 0
    for sp in specs:
        run = at.Runner()
        if sp in at.FIXED:
            at.FIXED[sp](run)
        else:
            parts = sp.split(':')
            at.random_history(run, int(parts[0]), int(parts[1]), late_ok=(len(parts) < 3))
        nclean = len([x for x in run.flags if x != 2])
        texts.append('([%s], [%s], %s, (%d%%nat, %s), [%s])' % (
            '; '.join(run.ops), '; '.join('(%s, %s)' % (at.coq_bytes(p), at.coq_pairs(i)) for p, i in zip(run.probes, run.inos)),
            at.coq_bytes(run.flags), nclean, at.coq_bytes(run.ends[:nclean]), '; '.join(at.coq_view(v) for v in run.views)))
        cases.append({'spec': sp, 'ops': run.ops, 'flags': run.flags, 'probes': run.probes, 'ends': run.ends})
        nops += len(run.ops)
        nacc += run.flags.count(0)
        nlate += run.flags.count(2)
        for o, f in zip(run.ops, run.flags):
            ctx.case(('accns', o.split(' ')[0], f, len(run.ops) // 20), True)
        # the property on the implementation: while no late refusal has happened the declared size is the end of the layout
        for i in range(nclean):
            if run.probes[i][0] != run.ends[i]:
                ctx.violation('c01:account-ns:space-vs-layout-end', 'after operation %d (%s) of an ISO9660+Joliet history pvd.space_size is %d but '
                              'the extents assigned by _reshuffle_extents end at %d' % (i, run.ops[i], run.probes[i][0], run.ends[i]),
                              {'ops': run.ops[:i + 1]})
                break
    ctx.count('accountns:histories', len(specs))
    ctx.count('accountns:operations', nops)
    ctx.count('accountns:accepted', nacc)
    ctx.count('accountns:late-refusals', nlate)
    name = 'AccountNs.nrun_probe/flags/ends/views vs pycdlib (object graph and API view) after every edit of an ISO9660+Joliet history'
    bad, err = common.coq_bad_cases('accns', ['From PV.Model Require Import Account AccountLinks AccountNs.'], DEFS,
                                    'list nop * list (list Z * list (Z * Z)) * list Z * (nat * list Z) * list (%s * %s)' % (T_VIEW, T_VIEW),
                                    texts, 'ns_bad 0', shard=2)
    if bad is None:
        ctx.broken.append({'name': 'correspondence:' + name, 'summary': 'model evaluation failed: ' + err})
        ctx.cov['correspondences'][name] = {'cases': len(cases), 'disagreements': 'evaluation failed'}
        return None
    ctx.cov['traces_validated_against_impl'] += len(cases) - len(bad)
    ctx.cov['correspondences'][name] = {'cases': len(cases), 'operations': nops, 'accepted': nacc, 'late_refusals': nlate, 'disagreements': len(bad)}
    for i in bad[:3]:
        ctx.broken.append({'name': 'correspondence:' + name,
                           'summary': 'the two-namespace model and pycdlib disagree on history %s (%d operations)' % (cases[i]['spec'], len(cases[i]['ops'])),
                           'case': cases[i]})
    return bad
