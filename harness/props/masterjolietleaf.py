"""Tie of Model/MasterJoliet.v (the Joliet directory extents and both Joliet path tables of an ISO9660+Joliet image as bytes,
an independent reader starting at the SVD root pointer, and the object graph of Model/AccountNs.v) to /repo: histories on
new(interchange_level=3, joliet=3) (names in both namespaces, Joliet-only and ISO-only entries, different tree shapes, hard
links across namespaces, BMP names incl. U+0001 and U+FFFF, names of 1..64 units, case and prefix pairs, Joliet directories of
1/2/3 blocks, the path table crossing 4096 bytes, removals and re-adds, intermediate writes) are built and written by the real
library; the Joliet (and ISO9660) directory blocks and both Joliet path tables are cut out with the tool's own parser; Coq
checks (bad_masterjoliet_cases) that the model writes exactly these bytes, that the readers run on THE LIBRARY'S bytes return
the expected trees, that the SVD values are the model's and that the extents equal AccountNs.nlayout."""
import importlib.util
import os

from harness import common

_spec = importlib.util.spec_from_file_location('master_joliet_cases', os.path.join(common.VERIF, 'tools', 'master_joliet_cases.py'))
NAME = 'MasterJoliet.master_joliet / read_joliet vs the Joliet directory extents and path tables of images written by pycdlib'


def correspondence(ctx):
    os.environ.setdefault('VERIF_REPO', common.REPO)
    mod = importlib.util.module_from_spec(_spec)
    _spec.loader.exec_module(mod)
    quick = ctx.tier == 'quick'
    seed = ctx.rng.randrange(1, 10 ** 5)
    nb = len(mod.boundary_cases())
    cs = common.safe_cases(ctx, NAME, lambda: mod.cases(seed, nb + (8 if quick else 150)))
    if cs is None:
        return
    if quick:
        cs = ctx.rng.sample(cs[:nb], min(nb, 10)) + cs[nb:]
    texts = []
    for c in cs:
        t = common.safe_render(ctx, NAME, mod.render, c)
        if t is None:
            continue
        texts.append(t)
        ctx.case(('masterjoliet', c[0].split('_')[0], len(t) // 20000), True)
    ctx.count('masterjoliet:images', len(texts))
    bad, err = common.coq_bad_cases('mjoliet', ['From PV.Model Require AccountNs.', 'From PV.Model Require Import MasterJoliet.'], [], 'mj_case', texts,
                                    'bad_masterjoliet_cases 0', shard=2 if quick else 10, workers=9 if quick else 15, timeout=1800)
    if bad is None:
        ctx.broken.append({'name': 'correspondence:' + NAME, 'summary': 'model evaluation failed: ' + err})
        ctx.cov['correspondences'][NAME] = {'cases': len(texts), 'disagreements': 'evaluation failed'}
        return
    ctx.cov['traces_validated_against_impl'] += len(texts) - len(bad)
    ctx.cov['correspondences'][NAME] = {'cases': len(texts), 'disagreements': len(bad)}
    for i in bad[:3]:
        ctx.broken.append({'name': 'correspondence:' + NAME,
                           'summary': 'the Joliet image model and the bytes written by pycdlib disagree (%d of %d images)' % (len(bad), len(texts)),
                           'case': {'index': i, 'coq_case_head': texts[i][:500]}})
