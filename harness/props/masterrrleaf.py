"""Tie of Model/MasterRR.v (the directory extents AND continuation blocks of an ISO9660 + Rock Ridge image as bytes, and an
independent SUSP/RRIP reader on those bytes) to /repo: Rock Ridge histories (versions 1.09/1.10/1.12; names beyond 250
bytes; long and many-component symlink targets; 1-10 continuation blocks; gaps freed and reused; intermediate writes) are
built and written by the real library, every directory extent and every continuation block is cut out of the image with the
tool's own parser, and Coq checks (bad_masterrr_cases) that master_rr produces exactly these bytes, that read_rr run on THE
LIBRARY'S bytes returns the expected names / modes / link counts / targets, and that the state is well formed."""
import importlib.util
import os

from harness import common

_spec = importlib.util.spec_from_file_location('master_rr_cases', os.path.join(common.VERIF, 'tools', 'master_rr_cases.py'))
NAME = 'MasterRR.master_rr / read_rr vs the directory extents and continuation blocks of images written by pycdlib'


def correspondence(ctx):
    os.environ.setdefault('VERIF_REPO', common.REPO)
    os.environ.setdefault('PYCDLIB_TREE', common.REPO)
    mod = importlib.util.module_from_spec(_spec)
    _spec.loader.exec_module(mod)
    quick = ctx.tier == 'quick'
    seed = ctx.rng.randrange(1, 10 ** 4)
    cs = common.safe_cases(ctx, NAME, lambda: mod.cases(seed, 10 if quick else 80))
    if cs is None:
        return
    texts = []
    for c in cs:
        t = common.safe_render(ctx, NAME, mod.render, c)
        if t is None:
            continue
        texts.append(t)
        ctx.case(('masterrr', len(t) // 20000), True)
    if quick:
        # the big images cost minutes inside Coq
        texts = sorted(texts, key=len)[:8]
    ctx.count('masterrr:images', len(texts))
    bad, err = common.coq_bad_cases('masterrr', ['From PV.Model Require Import RREntries AccountRR MasterRR.'], [], 'mrr_case', texts, 'bad_masterrr_cases 0',
                                    shard=1 if quick else 4, workers=8 if quick else 15, timeout=1800)
    if bad is None:
        ctx.broken.append({'name': 'correspondence:' + NAME, 'summary': 'model evaluation failed: ' + err})
        ctx.cov['correspondences'][NAME] = {'cases': len(texts), 'disagreements': 'evaluation failed'}
        return
    ctx.cov['traces_validated_against_impl'] += len(texts) - len(bad)
    ctx.cov['correspondences'][NAME] = {'cases': len(texts), 'disagreements': len(bad)}
    for i in bad[:3]:
        ctx.broken.append({'name': 'correspondence:' + NAME,
                           'summary': 'the Rock Ridge image model and the bytes written by pycdlib disagree (%d of %d images)' % (len(bad), len(texts)),
                           'case': {'index': i, 'coq_case_head': texts[i][:500]}})
