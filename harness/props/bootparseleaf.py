"""Tie of Model/BootParse.v (what open reconstructs of El Torito from a written image, composed with the edit-history model
AccountBoot) to /repo: El Torito histories (boot files of 1..70000 bytes with load sizes smaller / equal / larger than the
file, with and without boot info table, named and nameless, several sections, one file for two entries, a boot file as last
file of the image) are run on the real library, written, opened with a NEW object; the reopened boot state is read off
(entries: load_rba, sector count, inode extent / length / identity, boot info table; catalog names; inodes; space size; end of
the layout), then 0-3 further operations are applied to BOTH the never-closed original and the reopened object and their
written images are compared; Coq evaluates the model on the same history (bad_bootparse_cases)."""
import importlib.util
import os

from harness import common

_spec = importlib.util.spec_from_file_location('boot_parse_cases', os.path.join(common.VERIF, 'tools', 'boot_parse_cases.py'))
NAME = 'BootParse.boot_parse / reopened vs the El Torito state of images opened by pycdlib (and edits after reopen)'


def correspondence(ctx):
    os.environ.setdefault('VERIF_REPO', common.REPO)
    mod = importlib.util.module_from_spec(_spec)
    _spec.loader.exec_module(mod)
    quick = ctx.tier == 'quick'
    seed = ctx.rng.randrange(1, 10 ** 4)
    cs = common.safe_cases(ctx, NAME, lambda: mod.cases(seed, 20 if quick else 300))
    if cs is None:
        return
    texts = []
    for c in cs:
        t = common.safe_render(ctx, NAME, mod.render, c)
        if t is None:
            continue
        texts.append(t)
        ctx.case(('bootparse', len(t) // 3000), True)
    ctx.count('bootparse:histories', len(texts))
    bad, err = common.coq_bad_cases('bootparse', ['From PV.Model Require Import AccountBoot BootParse.'], [], 'bpcase', texts,
                                    'bad_bootparse_cases 0', shard=3 if quick else 20, workers=8 if quick else 15, timeout=1500)
    if bad is None:
        ctx.broken.append({'name': 'correspondence:' + NAME, 'summary': 'model evaluation failed: ' + err})
        ctx.cov['correspondences'][NAME] = {'cases': len(texts), 'disagreements': 'evaluation failed'}
        return
    ctx.cov['traces_validated_against_impl'] += len(texts) - len(bad)
    ctx.cov['correspondences'][NAME] = {'cases': len(texts), 'disagreements': len(bad)}
    for i in bad[:3]:
        ctx.broken.append({'name': 'correspondence:' + NAME,
                           'summary': 'the El Torito reopen model and pycdlib disagree on a history (%d of %d)' % (len(bad), len(texts)),
                           'case': {'index': i, 'coq_case_head': texts[i][:500]}})
