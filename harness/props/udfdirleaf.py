"""Tie of Model/UdfDir.v (state machine of one UDF directory's bookkeeping: information length, allocation descriptor
length, Logical Blocks Recorded and the blocks granted, under adds and removals incl. refused ones) to /repo: random
histories on a real UDF directory (names that make the identifier area cross block boundaries both ways); after every
operation the accepted flag, info_len, the allocation descriptor length and the blocks granted so far (observed through
the partition length) are compared with UdfDir.run_probe, Logical Blocks Recorded with run_probe_lbr, the final
identifier list with run_final_fis."""
import importlib.util
import os

from harness import common

_spec = importlib.util.spec_from_file_location('udfdir_traces', os.path.join(common.VERIF, 'tools', 'udfdir_traces.py'))


def correspondence(ctx):
    mod = importlib.util.module_from_spec(_spec)
    _spec.loader.exec_module(mod)
    quick = ctx.tier == 'quick'
    cases, texts = [], []
    nops = ref = up = down = 0
    for i in range(14 if quick else 150):
        c = mod.history(ctx.rng.randrange(1, 10 ** 6), 50 if quick else 70)
        cases.append(c)
        texts.append(mod.render(c))
        ops, obs, lbrs, fis = c
        g = 1
        for (a, info, ad, gr), l in zip(obs, lbrs):
            nops += 1
            ref += (a == 0)
            up += gr > g
            down += gr < g
            g = gr
            ctx.case(('udfdir', a, info // 512, gr), True)
            if l != -(-info // 2048):
                ctx.violation('c10:udfdir:blocks-recorded-stale', 'C10: a UDF directory with an identifier area of %d bytes records %d logical blocks'
                              % (info, l), {'info_len': info, 'blocks_recorded': l})
                break
    ctx.count('udfdir:operations', nops)
    ctx.count('udfdir:refused', ref)
    ctx.count('udfdir:block-crossings-up', up)
    ctx.count('udfdir:block-crossings-down', down)
    name = 'UdfDir.run_probe / run_probe_lbr / run_final_fis vs UDFFileEntry bookkeeping after every operation'
    bad, err = common.coq_bad_cases('udfdir', ['From PV.Model Require Import UdfDir.'], [], 'udfdir_case', texts, 'bad_udfdir_cases 0', shard=5)
    if bad is None:
        ctx.broken.append({'name': 'correspondence:' + name, 'summary': 'model evaluation failed: ' + err})
        ctx.cov['correspondences'][name] = {'cases': len(cases), 'disagreements': 'evaluation failed'}
        return
    ctx.cov['traces_validated_against_impl'] += len(cases) - len(bad)
    ctx.cov['correspondences'][name] = {'cases': len(cases), 'operations': nops, 'refused': ref, 'crossings_up': up, 'crossings_down': down,
                                        'disagreements': len(bad)}
    for i in bad[:2]:
        ctx.broken.append({'name': 'correspondence:' + name, 'summary': 'the UDF directory bookkeeping model and pycdlib disagree (%d of %d histories)'
                                                                         % (len(bad), len(cases)),
                           'case': {'ops': [(k, bytes(n).decode('latin-1')[:20], f) for k, n, f in cases[i][0]][:60], 'obs': cases[i][1][:60]}})
