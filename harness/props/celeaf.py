"""Leaf-level tie of Model/CeAlloc.v to rockridge.RockRidgeContinuationBlock and
headervd.add_rr_ce_entry: random and exhaustive add/remove sequences with small block sizes (gaps of
exactly the needed size, one more, one less) are executed on the real allocator objects and on the
Coq model (vm_compute); per-operation (block, offset) results and the final entry lists must agree,
and the implementation-side oracle checks that entries never overlap nor leave the block."""
import itertools

from harness import common
from harness.common import z


def impl_run(M, ops):
    """ops: ('add', len) | ('rm', blk, off, len).  Returns per-op results and final blocks."""
    import pycdlib
    from pycdlib import headervd
    iso = pycdlib.PyCdlib()
    iso.new()
    pvd = iso.pvd
    saved = pvd.log_block_size
    pvd.log_block_size = M
    pvd.rr_ce_blocks = []
    out = []
    try:
        for op in ops:
            if op[0] == 'add':
                added, block, off = pvd.add_rr_ce_entry(op[1])
                if off >= 0:
                    idx = [i for i, b in enumerate(pvd.rr_ce_blocks) if b is block][0]
                    out.append((idx, off))
                else:
                    out.append((-1, off))
            else:
                _, blk, off, ln = op
                try:
                    pvd.rr_ce_blocks[blk].remove_entry(off, ln)
                    out.append((blk, 0))
                except Exception:
                    out.append((-1, -2))
        final = [[(e.offset, e.length) for e in b._entries] for b in pvd.rr_ce_blocks]
    finally:
        pvd.log_block_size = saved
        iso.close()
    return out, final


def overlap_oracle(M, final):
    for bi, es in enumerate(final):
        last = 0
        for (o, ln) in sorted(es):
            if o < last or ln <= 0 or o + ln > M:
                return 'block %d: entry (%d,%d) overlaps its predecessor or leaves the block of %d bytes: %s' % (bi, o, ln, M, es)
            last = o + ln
    return None


def gen_sequences(rng, n):
    seqs = []
    # exhaustive short sequences, block size 8
    for lens in itertools.product((1, 2, 3, 5, 8), repeat=3):
        for rm in range(3):
            for nxt in (1, 2, 3, 4, 5, 6):
                seqs.append((8, [('add', l) for l in lens], rm, nxt))
    out = []
    for (M, adds, rm, nxt) in seqs:
        res, _ = impl_run(M, adds)
        ops = list(adds)
        if res[rm][1] >= 0:
            ops.append(('rm', res[rm][0], res[rm][1], adds[rm][1]))
        ops.append(('add', nxt))
        out.append((M, ops))
    # random longer sequences with realistic sizes; removals of live entries; re-adds of gap, gap+1, gap-1
    for _ in range(n):
        M = rng.choice((64, 256, 2048))
        ops, live = [], []
        for _ in range(rng.randrange(4, 40)):
            r = rng.random()
            if r < 0.6 or not live:
                ln = rng.choice((1, 5, 28, 60, M // 4, M // 3, M // 2, M - 1, M, M + 1, rng.randrange(1, M)))
                ops.append(('add', ln))
                res, _ = impl_run(M, ops)
                if res[-1][1] >= 0:
                    live.append((res[-1][0], res[-1][1], ln))
            elif r < 0.85:
                e = live.pop(rng.randrange(len(live)))
                ops.append(('rm', e[0], e[1], e[2]))
                ops.append(('add', max(1, e[2] + rng.choice((-1, 0, 1)))))
                res, _ = impl_run(M, ops)
                if res[-1][1] >= 0:
                    live.append((res[-1][0], res[-1][1], ops[-1][1]))
            else:
                ops.append(('rm', rng.randrange(0, 3), rng.randrange(0, M), rng.randrange(1, 9)))   # usually absent
        out.append((M, ops))
    return out


def leaf_correspondence(ctx):
    rng = ctx.rng
    seqs = gen_sequences(rng, 60 if ctx.tier == 'quick' else 600)
    texts, impl = [], []
    for (M, ops) in seqs:
        res, final = impl_run(M, ops)
        msg = overlap_oracle(M, final)
        if msg:
            ctx.violation('c04:ce-overlap:leaf', 'continuation-area allocator hands out overlapping areas: %s after %s'
                          % (msg, ops[-6:]), {'M': M, 'ops': ops, 'final': final})
        coq_ops = '; '.join('CeAdd %s' % z(o[1]) if o[0] == 'add' else 'CeRemove %d %s %s' % (o[1], z(o[2]), z(o[3])) for o in ops)
        exp = '; '.join('(%s, %s)' % (z(a), z(b)) for a, b in res)
        fin = '; '.join('[' + '; '.join('(%s, %s)' % (z(a), z(b)) for a, b in blk) + ']' for blk in final)
        texts.append('(%s, [%s], [%s], [%s])' % (z(M), coq_ops, exp, fin))
        impl.append((res, final))
        ctx.case(('ce', M, tuple(ops)), len(ops) >= 3)
    ctx.count('celeaf:sequences', len(seqs))
    defs = ['Fixpoint zz_eqb (a b : list (Z * Z)) : bool := match a, b with [], [] => true | (x1, y1) :: r, (x2, y2) :: s => '
            '(x1 =? x2) && (y1 =? y2) && zz_eqb r s | _, _ => false end.',
            'Fixpoint bl_eqb (a b : list (list (Z * Z))) : bool := match a, b with [], [] => true | x :: r, y :: s => '
            'zz_eqb x y && bl_eqb r s | _, _ => false end.',
            'Fixpoint bad_from (k : nat) (cs : list (Z * list ceop * list (Z * Z) * list (list (Z * Z)))) : list nat := '
            'match cs with [] => [] | (M, ops, res, fin) :: r => if zz_eqb (run_ce M ops) res && bl_eqb (final_blocks M ops) fin '
            'then bad_from (S k) r else k :: bad_from (S k) r end.']
    bad, err = common.coq_bad_cases('celeaf', ['From PV.Model Require Import CeAlloc.'], defs, '(Z * list ceop * list (Z * Z) * list (list (Z * Z)))', texts, 'bad_from 0', shard=150)
    name = 'CeAlloc.run_ce vs RockRidgeContinuationBlock / add_rr_ce_entry'
    if bad is None:
        ctx.broken.append({'name': 'correspondence:' + name, 'summary': 'model evaluation failed: ' + err})
        return
    ctx.cov['traces_validated_against_impl'] += len(seqs) - len(bad)
    ctx.cov['correspondences'][name] = {'cases': len(seqs), 'disagreements': len(bad)}
    for i in bad[:3]:
        ctx.broken.append({'name': 'correspondence:' + name,
                           'summary': 'the continuation-block allocator and Model/CeAlloc.v disagree (%d of %d sequences), '
                                      'e.g. block size %d, ops %s: implementation %s' % (len(bad), len(seqs), seqs[i][0], seqs[i][1][-5:], impl[i][0][-5:]),
                           'case': {'M': seqs[i][0], 'ops': seqs[i][1], 'impl': impl[i][0]}})
