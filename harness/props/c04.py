"""C04 -- sector allocation is sound.  DESIGN.md section 8.4."""
from harness import common, pyspec, sysimg, sysprops
from harness.props import packleaf, celeaf, accountleaf, accountrrleaf

MODULE = 'C04'
THEOREMS = ['C04_bump_disjoint', 'C04_bump_inside', 'C04_ceiling_div_covers', 'C04_dir_blocks_cover_records', 'C04_ce_blocks_inv', 'C04_ce_entry_placed', 'C04_ce_gap_offbyone_refuted', 'C04_ptr_extents_cover', 'C04_nonvacuous',
            'C04_declared_size_is_exact', 'C04_objects_disjoint_and_inside', 'C04_account_invariant',
            'C04_refused_edit_changes_nothing', 'C04_account_nonvacuous']
RECIPES = ['exact_fill', 'exact_fill_plus', 'ptable_boundary', 'ptable_boundary_dup_late', 'ce_gap_plus', 'ce_gap_exact',
           'ce_gap_minus', 'big_records', 'deep_tree', 'udf_fid_cross', 'udf_fid_churn']


def linked_of(b):
    try:
        s, outs = pyspec.run(b.ops)
    except Exception:
        return None
    if outs != b.outs:
        return None          # the specification does not describe this run (C01's business)
    out = {}
    for n, l in s.ns.items():
        for p, e in l.items():
            if e['kind'] == 'file' and e['blob'] not in (None, 0, -1) and not e.get('empty'):
                out[(n, p)] = e['blob']
    return out


def oracle(b, report):
    sysimg.oracle_c04(b, report, linked=linked_of(b))


def run(ctx):
    common.proof_stage(ctx, MODULE, sorted(set(THEOREMS) | set(common.theorems_of(MODULE))))
    common.setup_impl_path()
    packleaf.leaf_correspondence(ctx)
    celeaf.leaf_correspondence(ctx)
    accountleaf.correspondence(ctx)
    accountrrleaf.correspondence(ctx)
    quick = ctx.tier == 'quick'
    sysprops.run_oracle(ctx, 'C04', sysprops.histories(ctx, 150 if quick else 2500, RECIPES,
                                                       dict(allow_refusals=False, fat_dir=0.3, long_rr=0.12, link_bias=0.15),
                                                       nops=(5, 40) if quick else (10, 120), recipe_cfgs=5 if quick else 40),
                        oracle, need_reopen=False, max_shrink=6)
    ctx.cov['rule'] = ('images of random histories (adds and removes growing and shrinking directories, path tables, continuation '
                       'blocks, the UDF partition; hard links) plus boundary recipes; oracle on every image: objects decoded by the '
                       'independent reader pairwise disjoint, inside the declared volume, image length exact, write log of the '
                       'mastering run free of double writes, data extents shared iff linked; non-trivial = >= 3 edit kinds or a recipe')
    ctx.cov['trusted_base'] = ['Coq 8.16.1 kernel, vm_compute', 'Model/Pack.v, Model/CeAlloc.v, Model/Alloc.v (hand models) tied by '
                               'exhaustive leaf runs against dr.py / rockridge.py', 'Model/Account.v (hand model of the per-edit space accounting of the plain '
                               'ISO9660 core; one name per content, files <= 0xfffff800 bytes, level 3) tied by per-operation comparison with the library', 'translator (ceiling_div, add_to_ptr_size, '
                               'remove_from_ptr_size)', 'harness/reader.py segment map; recording output sink']
    ctx.assumptions = ['the traversal order of _reshuffle_extents is not modelled: disjointness is proved for ANY order of a bump '
                       'allocation and checked on the decoded objects of real images']


def replay(ctx, rep):
    return sysprops.replay(ctx, rep, oracle, need_reopen=False)
