"""Tie of Model/AccountBoot.v (El Torito as an edit-history state machine on top of the hard-link accounting model:
add_eltorito (first call and further sections, boot info tables, load sizes, refused calls), rm_eltorito, and the
interplay with add_hard_link / rm_hard_link / rm_file on boot files and catalog names) to /repo: random and directed
histories are run on the real library; after EVERY operation the outcome (accepted / refused unchanged / refused but
changed), the counters [space_size, path table size and extents, sum of directory lengths, inodes, volume descriptors,
catalog sections, boot info tables, catalog names] and -- after a forced layout -- the end of the last extent, the catalog
extent the boot record points at, every entry's load_rba and the extents of all inodes are recorded, and Coq evaluates the
model on the same operations (bad_accountboot_cases).  The tool's own checks on the library (load_rba = extent of the
entry's inode, boot record at 17, written image reopened and the catalog followed to the boot files) are reported as
property violations."""
import importlib.util
import os

from harness import common

_spec = importlib.util.spec_from_file_location('account_boot_traces', os.path.join(common.VERIF, 'tools', 'account_boot_traces.py'))
NAME = 'AccountBoot.check_case vs pycdlib after every edit of an El Torito history'


def correspondence(ctx):
    mod = importlib.util.module_from_spec(_spec)
    os.environ.setdefault('VERIF_REPO', common.REPO)
    _spec.loader.exec_module(mod)
    quick = ctx.tier == 'quick'
    seed = ctx.rng.randrange(1, 10 ** 5)
    cs = common.safe_cases(ctx, NAME, lambda: mod.cases(seed, 20 if quick else 300))
    if cs is None:
        return
    nops = 0
    for c in cs:
        nops += len(c['ops'])
        for op, o in zip(c['ops'], c['obs']):
            ctx.case(('accboot', op[0], o[0], c['wrecked']), True)
        for pr in c['problems'][:2]:
            ctx.violation('c11:accountboot:' + str(pr).split(':')[0][:60], 'C11: %s (history %s)' % (str(pr)[:300], c['label']),
                          {'label': c['label'], 'ops': [repr(x) for x in c['ops']][:80], 'problem': str(pr)[:600]})
    ctx.count('accountboot:histories', len(cs))
    ctx.count('accountboot:operations', nops)
    texts = [mod.render(c) for c in cs]
    bad, err = common.coq_bad_cases('accboot', ['From PV.Model Require Import AccountBoot.'], [], 'bcase', texts, 'bad_accountboot_cases 0',
                                    shard=3 if quick else 20, workers=8 if quick else 15, timeout=1500)
    if bad is None:
        ctx.broken.append({'name': 'correspondence:' + NAME, 'summary': 'model evaluation failed: ' + err})
        ctx.cov['correspondences'][NAME] = {'cases': len(cs), 'disagreements': 'evaluation failed'}
        return
    ctx.cov['traces_validated_against_impl'] += len(cs) - len(bad)
    ctx.cov['correspondences'][NAME] = {'cases': len(cs), 'operations': nops, 'disagreements': len(bad)}
    for i in bad[:3]:
        c = cs[i]
        ctx.broken.append({'name': 'correspondence:' + NAME,
                           'summary': 'the El Torito history model and pycdlib disagree on a history (%d of %d histories)' % (len(bad), len(cs)),
                           'case': {'label': c['label'], 'ops': [repr(x) for x in c['ops']][:80]}})
