"""Tie of Model/AccountLinks.v (the space accounting state machine of Model/Account.v extended with hard links inside
the ISO9660 namespace: add_hard_link / rm_hard_link / rm_file over shared inodes) to /repo: random histories heavy in
links and removals are run on the real library; after EVERY operation the accepted flag, the accounting counters, the
sorted (inode length, number of linked records) list and the end of the extents assigned by _reshuffle_extents are
recorded and Coq evaluates lrun_probe / lrun_flags / lrun_ends on the same operations."""
import importlib.util
import os

from harness import common

_spec = importlib.util.spec_from_file_location('account_links_traces', os.path.join(common.VERIF, 'tools', 'account_links_traces.py'))

DEFS = [
    'Fixpoint zl_eqb (a b : list Z) : bool := match a, b with [], [] => true | x :: a, y :: b => (x =? y) && zl_eqb a b | _, _ => false end.',
    'Fixpoint zp_eqb (a b : list (Z * Z)) : bool := match a, b with [], [] => true | (x, y) :: a, (u, v) :: b => (x =? u) && (y =? v) && zp_eqb a b | _, _ => false end.',
    'Fixpoint pr_eqb (a b : list (list Z * list (Z * Z))) : bool := match a, b with [], [] => true | (x, y) :: a, (u, v) :: b => zl_eqb x u && zp_eqb y v && pr_eqb a b | _, _ => false end.',
    'Fixpoint bl_eqb (a b : list bool) : bool := match a, b with [], [] => true | x :: a, y :: b => Bool.eqb x y && bl_eqb a b | _, _ => false end.',
    'Definition acc_ok (c : list lop * list (list Z * list (Z * Z)) * list bool * list Z) : bool := '
    "let '(ops, probes, flags, ends) := c in "
    'pr_eqb (lrun_probe ops) probes && bl_eqb (lrun_flags ops) flags && zl_eqb (map snd (lrun_ends ops)) ends && '
    'forallb (fun p => fst p =? snd p) (lrun_ends ops).',
    'Fixpoint acc_bad (k : nat) (cs : list (list lop * list (list Z * list (Z * Z)) * list bool * list Z)) : list nat := '
    'match cs with [] => [] | c :: r => if acc_ok c then acc_bad (S k) r else k :: acc_bad (S k) r end.',
]


def correspondence(ctx):
    at = importlib.util.module_from_spec(_spec)
    _spec.loader.exec_module(at)
    quick = ctx.tier == 'quick'
    specs = ['scenario', 'example'] + ['%d:%d' % (ctx.rng.randrange(1, 10 ** 6), n)
                                       for n in ([30, 40, 60, 60, 80, 80] * (1 if quick else 12))]
    texts, cases = [], []
    nops = nacc = 0
    for sp in specs:
        run = at.Runner()
        if sp == 'scenario':
            at.scenario(run)
        elif sp == 'example':
            at.example(run)
        else:
            seed, n = sp.split(':')
            at.random_history(run, int(seed), int(n))
        texts.append('([%s], [%s], [%s], %s)' % (
            '; '.join(run.ops), '; '.join('(%s, %s)' % (at.coq_bytes(p), at.coq_pairs(i)) for p, i in zip(run.probes, run.inos)),
            '; '.join('true' if f else 'false' for f in run.flags), at.coq_bytes(run.ends)))
        cases.append({'spec': sp, 'ops': run.ops, 'probes': run.probes, 'inodes': run.inos, 'flags': run.flags, 'ends': run.ends})
        nops += len(run.ops)
        nacc += sum(run.flags)
        for o, f in zip(run.ops, run.flags):
            ctx.case(('acclinks', o.split(' ')[0], f, len(run.ops) // 20), True)
        slack = [(i, p[0], e) for i, (p, e) in enumerate(zip(run.probes, run.ends)) if p[0] != e]
        if slack:
            i, sp_, e = slack[0]
            ctx.violation('c07:account:space-vs-layout-end', 'after operation %d (%s) of a link history pvd.space_size is %d but the extents '
                          'assigned by _reshuffle_extents end at %d: content was not released exactly with its last name'
                          % (i, run.ops[i], sp_, e), {'ops': run.ops[:i + 1], 'space': sp_, 'end': e})
    ctx.count('accountlinks:histories', len(specs))
    ctx.count('accountlinks:operations', nops)
    ctx.count('accountlinks:accepted', nacc)
    name = 'AccountLinks.lrun_probe/lrun_flags/lrun_ends vs pycdlib after every edit of a hard-link history'
    bad, err = common.coq_bad_cases('acclinks', ['From PV.Model Require Import Account AccountLinks.'], DEFS,
                                    'list lop * list (list Z * list (Z * Z)) * list bool * list Z', texts, 'acc_bad 0', shard=3)
    if bad is None:
        ctx.broken.append({'name': 'correspondence:' + name, 'summary': 'model evaluation failed: ' + err})
        ctx.cov['correspondences'][name] = {'cases': len(cases), 'disagreements': 'evaluation failed'}
        return None
    ctx.cov['traces_validated_against_impl'] += len(cases) - len(bad)
    ctx.cov['correspondences'][name] = {'cases': len(cases), 'operations': nops, 'accepted': nacc, 'disagreements': len(bad)}
    for i in bad[:3]:
        ctx.broken.append({'name': 'correspondence:' + name,
                           'summary': 'the hard-link accounting model and pycdlib disagree on history %s (%d operations)'
                                      % (cases[i]['spec'], len(cases[i]['ops'])), 'case': cases[i]})
    return bad
