"""C14 -- failure atomicity: a refused edit changes nothing.  DESIGN.md section 8.14."""
import io

from harness import common, sysimg, syslevel, sysprops, sysrun
from harness.props.codecleaf import ISOLINUX

MODULE = 'C14'

# stage at which each refusal cause of each call is detected in the code (transcribed from pycdlib.py):
# 'early' = before the first mutation of the object graph (Model/Atomic.v: atomic by C14_early_refusal_atomic)
# 'late'  = after an earlier namespace / structure has already been applied
EARLY, LATE = 'early', 'late'


def no_udf_file(iso, sh):
    """an ISO9660 file name whose content has no UDF name yet (its UDF link bookkeeping starts at zero)"""
    for x in sh['files']['iso']:
        try:
            rec = iso.get_record(iso_path=x)
        except Exception:
            continue
        if rec.inode is not None and rec.inode.num_udf == 0:
            return x
    return None


def catalogue(cfg, iso, sh, rng):
    """yields (call, cause, stage, callable).  Every callable must raise PyCdlibInvalidInput on this object."""
    rr = {'rr_name': 'zz'} if cfg.rr else {}
    rrs = {'rr_symlink_name': 'zs'} if cfg.rr else {}

    def fp():
        return io.BytesIO(b'12345')
    files, dirs = sh['files'], sh['dirs']
    # --- single-stage refusals (validation before any mutation)
    yield 'add_fp', 'missing-parent:iso', EARLY, lambda: iso.add_fp(fp(), 5, iso_path='/NODIR/X.;1', **rr)
    yield 'add_fp', 'illegal-name:iso', EARLY, lambda: iso.add_fp(fp(), 5, iso_path='/X.;0', **rr)
    yield 'add_fp', 'no-path', EARLY, lambda: iso.add_fp(fp(), 5)
    yield 'add_directory', 'missing-parent:iso', EARLY, lambda: iso.add_directory(iso_path='/NODIR/SUB', **rr)
    yield 'rm_file', 'missing', EARLY, lambda: iso.rm_file(iso_path='/NOSUCH.;1')
    yield 'rm_hard_link', 'missing', EARLY, lambda: iso.rm_hard_link(iso_path='/NOSUCH.;1')
    yield 'rm_directory', 'missing', EARLY, lambda: iso.rm_directory(iso_path='/NOSUCH')
    yield 'add_hard_link', 'missing-source', EARLY, lambda: iso.add_hard_link(iso_old_path='/NOSUCH.;1', iso_new_path='/NEW.;1', **rr)
    yield 'add_isohybrid', 'no-eltorito', EARLY, lambda: iso.add_isohybrid()
    yield 'rm_eltorito', 'no-eltorito', EARLY, lambda: iso.rm_eltorito()
    if files['iso']:
        f = files['iso'][0]
        yield 'add_fp', 'duplicate:iso', EARLY, lambda: iso.add_fp(fp(), 5, iso_path=f, **rr)
        yield 'rm_directory', 'is-a-file', EARLY, lambda: iso.rm_directory(iso_path=f)
        yield 'add_hard_link', 'duplicate-target:iso', EARLY, lambda: iso.add_hard_link(iso_old_path=f, iso_new_path=f, **rr)
        yield 'add_hard_link', 'missing-parent-target:iso', EARLY, lambda: iso.add_hard_link(iso_old_path=f, iso_new_path='/NODIR/L.;1', **rr)
        yield 'add_eltorito', 'bad-media-name', LATE, lambda: iso.add_eltorito(f, bootcatfile='/BCAT.;1', media_name='nosuchmedia',
                                                                              **({'rr_bootcatname': 'bcat'} if cfg.rr else {}))
        yield 'add_eltorito', 'duplicate-catalog-name', LATE, lambda: iso.add_eltorito(f, bootcatfile=f, **({'rr_bootcatname': 'bcat'} if cfg.rr else {}))
    if files['iso'] and cfg.rr:
        f = files['iso'][0]
        longt = '/'.join(['t' * 60] * 5)
        # refusals of calls whose Rock Ridge part needs a continuation area (the slot must not be taken before the refusal)
        yield 'add_symlink', 'duplicate:iso:long-target', EARLY, lambda: iso.add_symlink(symlink_path=f, rr_symlink_name='dupsym', rr_path=longt)
        yield 'add_symlink', 'missing-parent:iso:long-target', EARLY, lambda: iso.add_symlink(symlink_path='/NODIR/S.;1', rr_symlink_name='s' * 150,
                                                                                            rr_path=longt)
        yield 'add_fp', 'duplicate:iso:long-rr-name', EARLY, lambda: iso.add_fp(fp(), 5, iso_path=f, rr_name='n' * 200)
        yield 'add_hard_link', 'duplicate-target:iso:long-rr-name', EARLY, lambda: iso.add_hard_link(iso_old_path=f, iso_new_path=f, rr_name='m' * 200)
    if files['iso'] and cfg.udf:
        f = sh.get('nudf') or files['iso'][0]
        # single-namespace UDF refusals of add_hard_link (the inode's UDF bookkeeping must not move before the refusal)
        if files['udf']:
            yield 'add_hard_link', 'duplicate-target:udf', EARLY, lambda: iso.add_hard_link(iso_old_path=f, udf_new_path=files['udf'][0])
            yield 'add_hard_link', 'parent-is-a-file:udf', EARLY, lambda: iso.add_hard_link(iso_old_path=f, udf_new_path=files['udf'][0] + '/x')
        yield 'add_hard_link', 'missing-parent-target:udf', EARLY, lambda: iso.add_hard_link(iso_old_path=f, udf_new_path='/nodir/l')
        yield 'add_hard_link', 'name-too-long:udf', EARLY, lambda: iso.add_hard_link(iso_old_path=f, udf_new_path='/' + 'u' * 300)
    if dirs['iso']:
        d = dirs['iso'][0]
        # (with Rock Ridge the record constructor bumps the parent's link counts; fix 32b487c refuses the duplicate before it)
        yield 'add_directory', 'duplicate:iso', EARLY, lambda: iso.add_directory(iso_path=d, **rr)
        yield 'rm_file', 'is-a-directory', EARLY, lambda: iso.rm_file(iso_path=d)
        yield 'rm_hard_link', 'is-a-directory', EARLY, lambda: iso.rm_hard_link(iso_path=d)
        ne = [x for x in dirs['iso'] if any(q.startswith(x + '/') for q in files['iso'] + dirs['iso'])]
        if ne:
            yield 'rm_directory', 'not-empty', EARLY, (lambda p=ne[0]: iso.rm_directory(iso_path=p))
    for ns, kw in (('jol', 'joliet_path'), ('udf', 'udf_path')):
        if (ns == 'jol' and not cfg.joliet) or (ns == 'udf' and not cfg.udf):
            continue
        # adds that name ONLY this namespace: nothing else is applied first, so a refusal must leave nothing behind
        # (a refused UDF-only add_fp used to leave an untracked Inode that made the next write fail)
        yield 'add_fp', 'missing-parent-only:' + ns, EARLY, (lambda kw=kw: iso.add_fp(fp(), 5, **{kw: '/nodir/only'}))
        yield 'add_directory', 'missing-parent-only:' + ns, EARLY, (lambda kw=kw: iso.add_directory(**{kw: '/nodir/onlyd'}))
        if files[ns]:
            yield 'add_fp', 'duplicate-only:' + ns, EARLY, (lambda kw=kw, p=files[ns][0]: iso.add_fp(fp(), 5, **{kw: p}))
            yield 'add_directory', 'duplicate-only:' + ns, EARLY, (lambda kw=kw, p=files[ns][0]: iso.add_directory(**{kw: p}))
        if files[ns]:
            yield 'rm_directory', 'is-a-file:' + ns, EARLY, (lambda kw=kw, p=files[ns][0]: iso.rm_directory(**{kw: p}))
        ne = [x for x in dirs[ns] if any(q.startswith(x + '/') for q in files[ns] + dirs[ns])]
        if ne:
            yield 'rm_directory', 'not-empty:' + ns, EARLY, (lambda kw=kw, p=ne[0]: iso.rm_directory(**{kw: p}))
    # --- multi-namespace calls: the ISO9660 part is valid and applied before the later part is looked at
    if cfg.joliet:
        yield 'add_fp', 'missing-parent:joliet', LATE, lambda: iso.add_fp(fp(), 5, iso_path='/NEWJ.;1', joliet_path='/nodir/newj', **rr)
        yield 'add_fp', 'name-too-long:joliet', LATE, lambda: iso.add_fp(fp(), 5, iso_path='/NEWK.;1', joliet_path='/' + 'j' * 70, **rr)
        yield 'add_directory', 'missing-parent:joliet', LATE, lambda: iso.add_directory(iso_path='/NEWD', joliet_path='/nodir/newd', **rr)
        if files['jol']:
            yield 'add_fp', 'duplicate:joliet', LATE, lambda: iso.add_fp(fp(), 5, iso_path='/NEWL.;1', joliet_path=files['jol'][0], **rr)
        empt = [x for x in dirs['iso'] if not any(q.startswith(x + '/') for q in files['iso'] + dirs['iso'])]
        if empt:
            yield 'rm_directory', 'missing:joliet', LATE, lambda: iso.rm_directory(iso_path=empt[0], joliet_path='/nosuchdir')
    if cfg.udf:
        yield 'add_fp', 'missing-parent:udf', LATE, lambda: iso.add_fp(fp(), 5, iso_path='/NEWU.;1', udf_path='/nodir/newu', **rr)
        yield 'add_directory', 'missing-parent:udf', LATE, lambda: iso.add_directory(iso_path='/NEWE', udf_path='/nodir/newe', **rr)
        if files['udf']:
            yield 'add_fp', 'duplicate:udf', LATE, lambda: iso.add_fp(fp(), 5, iso_path='/NEWV.;1', udf_path=files['udf'][0], **rr)
        empt = [x for x in dirs['iso'] if not any(q.startswith(x + '/') for q in files['iso'] + dirs['iso'])]
        if empt:
            yield 'rm_directory', 'missing:udf', LATE, lambda: iso.rm_directory(iso_path=empt[0], udf_path='/nosuchdir')
        if cfg.rr:
            yield 'add_symlink', 'missing-parent:udf', LATE, lambda: iso.add_symlink(symlink_path='/SYMX.;1', rr_symlink_name='symx', rr_path='tgt',
                                                                                   udf_symlink_path='/nodir/symx', udf_target='tgt')
    if cfg.rr:
        # set_relocated_name: whatever makes it raise (also causes that only a changed library knows), it must change nothing
        for nm, rrn in (('XYZ', 'x/y'), ('XYZ', ''), ('bad name', 'x'), ('N' * 300, 'n'), ('OTHER', 'other'), ('', 'e')):
            yield 'set_relocated_name', 'candidate:%s/%s' % (nm[:8], rrn), EARLY, (lambda nm=nm, rrn=rrn: iso.set_relocated_name(nm, rrn))
        if '/XYZ/FOO' in dirs['iso']:
            yield 'add_directory', 'duplicate-under-renamed-relocation-directory', EARLY, lambda: iso.add_directory(iso_path='/XYZ/FOO', rr_name='foo')
            yield 'add_directory', 'duplicate-of-relocated-directory', EARLY, lambda: iso.add_directory(iso_path='/XYZ/Q7', rr_name='q7')
        yield 'set_hidden', 'missing:rr-name-sorts-last', EARLY, lambda: iso.set_hidden(rr_path='/zzzzzzzzzz-not-there')
        deep = '/Q0/Q1/Q2/Q3/Q4/Q5/Q6'
        if deep in dirs['iso'] and cfg.level in (2, 3):
            # relocation: the placeholder is refused (identifier too long for a record with Rock Ridge); no RR_MOVED may stay
            yield 'add_directory', 'deep-too-long-for-rr', EARLY, lambda: iso.add_directory(iso_path=deep + '/' + 'X' * 205, rr_name='x')
    # --- El Torito present: refusals that depend on the boot state
    if iso.eltorito_boot_catalog is not None:
        yield 'add_isohybrid', 'bad-geometry', EARLY, lambda: iso.add_isohybrid(geometry_sectors=0)
        yield 'add_isohybrid', 'part-entry-0', EARLY, lambda: iso.add_isohybrid(part_entry=0)
        yield 'add_isohybrid', 'part-entry-5', EARLY, lambda: iso.add_isohybrid(part_entry=5)
        if sum(len(sec.section_entries) for sec in iso.eltorito_boot_catalog.sections if sec.platform_id == 0xef) >= 2:
            yield 'add_isohybrid', 'part-entry-2-is-the-efi-slot', EARLY, lambda: iso.add_isohybrid(part_entry=2, efi=True)
            yield 'add_isohybrid', 'part-entry-3-is-the-mac-slot', EARLY, lambda: iso.add_isohybrid(part_entry=3, efi=True, mac=True)
        if not any(sec.platform_id == 0xef and sec.section_entries for sec in iso.eltorito_boot_catalog.sections):
            yield 'add_isohybrid', 'efi-without-efi-entry', EARLY, lambda: iso.add_isohybrid(efi=True)
            yield 'add_isohybrid', 'mac-without-efi-entries', EARLY, lambda: iso.add_isohybrid(mac=True)
        bf = sh.get('bootfile')
        if bf:
            yield 'rm_file', 'boot-file:iso', EARLY, lambda: iso.rm_file(iso_path=bf)
            if sh.get('bootfile_udf'):
                yield 'rm_file', 'boot-file:udf', EARLY, lambda: iso.rm_file(udf_path=sh['bootfile_udf'])
            if sh.get('bootfile_jol'):
                yield 'rm_file', 'boot-file:joliet', EARLY, lambda: iso.rm_file(joliet_path=sh['bootfile_jol'])
        if sh.get('plain'):
            yield 'add_eltorito', 'section:bad-media-name', EARLY, lambda: iso.add_eltorito(sh['plain'], media_name='nosuchmedia')
            yield 'add_eltorito', 'section:floppy-wrong-size', EARLY, lambda: iso.add_eltorito(sh['plain'], media_name='floppy')


def shadow_of(iso, cfg):
    from harness.props import c13
    return c13.shadow_of(iso, cfg)


def build_obj(cfg, ops, sizes, boot):
    """rebuild the object from scratch (the fork); returns (iso, extra shadow info)"""
    b = sysimg.build(cfg, ops, sizes)
    if b.fail is not None:
        return None, None
    iso = b.iso
    info = {}
    # a file with an ISO9660 name only (its Joliet / UDF link bookkeeping starts at zero)
    try:
        iso.add_fp(io.BytesIO(b'iso-only'), 8, iso_path='/AAONLY.;1', **({'rr_name': 'aaonly'} if cfg.rr else {}))
    except Exception:
        pass
    if boot:
        rr = cfg.rr
        try:
            kw = {}
            if cfg.joliet:
                kw['joliet_path'] = '/isolinux.bin'
                info['bootfile_jol'] = '/isolinux.bin'
            if cfg.udf:
                kw['udf_path'] = '/isolinux.bin'
                info['bootfile_udf'] = '/isolinux.bin'
            iso.add_fp(io.BytesIO(ISOLINUX), len(ISOLINUX), iso_path='/ISOLINUX.BIN;1', **dict(kw, **({'rr_name': 'isolinux.bin'} if rr else {})))
            iso.add_eltorito('/ISOLINUX.BIN;1', bootcatfile='/BOOT.CAT;1', **({'rr_bootcatname': 'boot.cat'} if rr else {}))
            info['bootfile'] = '/ISOLINUX.BIN;1'
            iso.add_fp(io.BytesIO(b'plain' * 20), 100, iso_path='/PLAIN.;1', **({'rr_name': 'plain'} if rr else {}))
            info['plain'] = '/PLAIN.;1'
            for k in range(boot - 1):
                iso.add_fp(io.BytesIO(b'S%d' % k * 600), 2 * 600 if k < 10 else 3 * 600, iso_path='/SEC%d.;1' % k, **({'rr_name': 'sec%d' % k} if rr else {}))
                iso.add_eltorito('/SEC%d.;1' % k)
        except Exception:
            iso.close()
            return None, None
    return iso, info


def further_edits(iso, cfg, sh=None):
    rr = {'rr_name': 'later'} if cfg.rr else {}
    iso.add_fp(io.BytesIO(b'later-data'), 10, iso_path='/LATER.;1', **rr)
    iso.add_directory(iso_path='/LATERD', **({'rr_name': 'laterd'} if cfg.rr else {}))
    iso.rm_file(iso_path='/LATER.;1')
    if cfg.rr:
        # entries that need continuation areas: a slot leaked by a refused call shifts them
        iso.add_fp(io.BytesIO(b'q'), 1, iso_path='/LATERQ.;1', rr_name='q' * 180)
        iso.add_symlink(symlink_path='/LATERS.;1', rr_symlink_name='laters', rr_path='/'.join(['v' * 50] * 4))
        if cfg.level < 4:
            # relocation: which directory receives a deep directory shows a relocation name left behind by a refused call
            p = ''
            for d in range(8):
                p += '/LQ%d' % d
                iso.add_directory(iso_path=p, rr_name='lq%d' % d)
    f = sh['files']['iso'][0] if sh and sh['files']['iso'] else None
    if f and cfg.udf:
        f = sh.get('nudf') or f
        # UDF link bookkeeping of the file the refused calls referred to
        iso.add_hard_link(iso_old_path=f, udf_new_path='/laterkept')      # stays: a leaked count shows in the space needed
        iso.add_hard_link(iso_old_path=f, udf_new_path='/laterlnk')
        iso.rm_hard_link(udf_path='/laterlnk')
    if f and cfg.joliet:
        iso.add_hard_link(iso_old_path=f, joliet_new_path='/laterjkept')
        iso.add_hard_link(iso_old_path=f, joliet_new_path='/laterjl')
        iso.rm_hard_link(joliet_path='/laterjl')


def fresh_object_refusals(ctx):
    """'wrong object state': new() / open_fp() refused on a FRESH object must leave it fresh -- a following new() gives the
    image a brand-new object gives"""
    import pycdlib

    def build(o):
        o.new(interchange_level=3)
        o.add_fp(io.BytesIO(b'payload'), 7, iso_path='/AFTER.;1')
        return sysimg.master(o)[0]
    ref_obj = pycdlib.PyCdlib()
    ref = build(ref_obj)
    ref_obj.close()
    full = pycdlib.PyCdlib()
    full.new(rock_ridge='1.09', joliet=3, udf='2.60')
    full.add_directory(iso_path='/D', rr_name='d', joliet_path='/d', udf_path='/d')
    full.add_fp(io.BytesIO(b'x' * 5000), 5000, iso_path='/D/F.;1', rr_name='f', joliet_path='/d/f', udf_path='/d/f')
    img = sysimg.master(full)[0]
    full.close()
    cases = [('new', 'vol_ident-too-long', lambda o: o.new(rock_ridge='1.09', vol_ident='x' * 40)),
             ('new', 'invalid-joliet-level', lambda o: o.new(joliet=7)),
             ('new', 'invalid-interchange-level', lambda o: o.new(interchange_level=9)),
             ('new', 'invalid-rock-ridge-version', lambda o: o.new(rock_ridge='2.0')),
             ('new', 'invalid-udf-version', lambda o: o.new(joliet=3, udf='1.02')),
             ('new', 'app_use-too-long', lambda o: o.new(xa=True, rock_ridge='1.12', app_use='a' * 600)),
             ('new', 'sys_ident-too-long', lambda o: o.new(joliet=3, sys_ident='s' * 40))]
    for cut in (40000, 47000, 52000, len(img) - 3000, len(img) // 2, 34816, 33000):
        cases.append(('open_fp', 'truncated-at-%d' % cut, lambda o, cut=cut: o.open_fp(io.BytesIO(img[:cut]))))
    cases.append(('open_fp', 'garbage', lambda o: o.open_fp(io.BytesIO(b'\x01CD001' * 20000))))
    for call, cause, f in cases:
        o = pycdlib.PyCdlib()
        ctx.case(('fresh', call, cause), True)
        try:
            f(o)
            ctx.count('not-refused:%s:%s' % (call, cause))
            o.close()
            continue
        except pycdlib.pycdlibexception.PyCdlibException:
            pass
        except Exception as e:
            ctx.violation('c14:%s:%s:fault' % (call, cause), 'C14: %s (%s) on a fresh object raised %s instead of a library exception' % (call, cause, type(e).__name__),
                          {'call': call, 'cause': cause})
            continue
        what = None
        try:
            got = build(o)
            if got != ref:
                what = 'a following new() + add_fp writes a different image than on a brand-new object (first difference at byte %s)' % sysimg.first_diff(got, ref)
        except Exception as e:
            what = 'a following new() / add_fp / write fails with %s: %s' % (type(e).__name__, str(e)[:80])
        if what:
            ctx.violation('c14:%s:%s:state-left' % (call, cause), 'C14: %s refused (%s) on a fresh object does not leave it fresh: %s' % (call, cause, what),
                          {'call': call, 'cause': cause})
        try:
            o.close()
        except Exception:
            pass


def run(ctx):
    common.proof_stage(ctx, MODULE, common.theorems_of(MODULE))
    common.setup_impl_path()
    import pycdlib
    fresh_object_refusals(ctx)
    rng = ctx.rng
    quick = ctx.tier == 'quick'
    cfgs = syslevel.covering_configs(rng, 24)
    n_hist = 36 if quick else 500
    for i in range(n_hist):
        cfg = cfgs[i % len(cfgs)]
        ops, sizes = syslevel.gen_history(rng, cfg, rng.randrange(3, 14), allow_refusals=False, allow_boot=False)
        if cfg.rr and rng.random() < 0.2:
            # a chain of depth 7: the next level is where Rock Ridge relocation starts (catalogue: deep-too-long-for-rr)
            p = ''
            chain = []
            for d in range(7):
                p += '/Q%d' % d
                chain.append({'k': 'add_dir', 'iso': p, 'rr': 'q%d' % d})
            if cfg.level < 4 and rng.random() < 0.6:
                # ... with a RENAMED relocation directory that is in use and holds a directory of the user
                chain = [{'k': 'set_reloc', 'name': 'XYZ', 'rr': 'xyz'}] + chain + [
                    {'k': 'add_dir', 'iso': p + '/Q7', 'rr': 'q7'}, {'k': 'add_dir', 'iso': '/XYZ/FOO', 'rr': 'foo'}]
            ops = chain + ops
        boot = rng.choice([0, 0, 1, 3])
        base, info = build_obj(cfg, ops, sizes, boot)
        if base is None:
            continue
        try:
            sh = shadow_of(base, cfg)
            sh.update(info)
            sh['nudf'] = no_udf_file(base, sh) if cfg.udf else None
            causes = [(call, cause, stage) for call, cause, stage, _ in catalogue(cfg, base, sh, rng)]
            ref_img, _ = sysimg.master(base)
            further_edits(base, cfg, sh)
            ref_img2, _ = sysimg.master(base)
        except Exception as e:
            ctx.count('base-fails:' + type(e).__name__)
            base.close()
            continue
        base.close()
        for k, (call, cause, stage) in enumerate(causes):
            if quick and rng.random() < 0.35:
                continue
            fork, info2 = build_obj(cfg, ops, sizes, boot)
            if fork is None:
                continue
            try:
                sh2 = shadow_of(fork, cfg)
                sh2.update(info2)
                sh2['nudf'] = no_udf_file(fork, sh2) if cfg.udf else None
                item = [x for x in catalogue(cfg, fork, sh2, rng)][k]
                ctx.case(('fork', cfg.key(), call, cause, i), True)
                ctx.count('cause:%s:%s' % (call, cause.split(':')[0]))
                ctx.count('stage:' + stage)
                try:
                    item[3]()
                    outcome = 'accepted'
                except pycdlib.pycdlibexception.PyCdlibInvalidInput:
                    outcome = 'refused'
                except Exception as e:
                    outcome = 'fault:' + type(e).__name__
                if outcome == 'accepted':
                    ctx.count('not-refused:%s:%s' % (call, cause))       # C13's business
                    continue
                what = None
                try:
                    img, _ = sysimg.master(fork)
                    if img != ref_img:
                        d = sysimg.first_diff(img, ref_img)
                        what = 'the image written next differs from the image without the call (first difference at byte %s, lengths %d / %d)' \
                               % (d, len(img), len(ref_img))
                    else:
                        further_edits(fork, cfg, sh2)
                        img2, _ = sysimg.master(fork)
                        if img2 != ref_img2:
                            what = 'later edits behave differently: the image after three further edits differs'
                except Exception as e:
                    what = 'the next write_fp / later edit fails with %s: %s' % (type(e).__name__, str(e)[:80])
                if outcome.startswith('fault'):
                    what = (what + '; ' if what else '') + 'the call raised %s instead of the invalid-input error' % outcome[6:]
                if what:
                    sig = 'c14:%s:%s:%s' % (call, cause, stage)
                    ctx.violation(sig, 'C14: %s refused for cause %s (detected %s, i.e. %s any mutation) does not leave the object as it was: %s; '
                                  'config %s, object built by %s%s' % (call, cause, stage, 'before' if stage == EARLY else 'after', what, cfg.key(),
                                                                      sysprops.shape_sig(ops, 12), ' + %d boot entries' % boot if boot else ''),
                                  {'config': cfg.key(), 'ops': ops, 'sizes': {str(a): b for a, b in sizes.items()}, 'boot': boot,
                                   'call': call, 'cause': cause, 'stage': stage, 'index': k})
            finally:
                fork.close()
    ctx.cov['rule'] = ('fork-and-compare: for random objects (with 0, 1 or 3 El Torito entries) every applicable refused call of a catalogue of '
                       '~45 (call, cause) pairs is issued on a fresh fork; write_fp bytes are compared with the image of the object without the call, '
                       'then three further edits are applied to both and compared again; causes are classified EARLY/LATE by the stage at which the code '
                       'detects them')
    ctx.cov['trusted_base'] = ['Coq 8.16.1 kernel', 'Model/Atomic.v (staged execution), Spec/FsSpec.v', 'the EARLY/LATE catalogue in harness/props/c14.py '
                               '(transcribed from pycdlib.py; validated by this run: an EARLY cause observed non-atomic is a violation)']
    ctx.assumptions = ['refusals caused by I/O errors on user file objects are outside the model']


def replay(ctx, rep):
    common.setup_impl_path()
    import pycdlib
    c = rep['case']
    cfg = [x for x in syslevel.all_configs() if x.key() == c['config']][0]
    sizes = {int(k): v for k, v in c['sizes'].items()}
    base, info = build_obj(cfg, c['ops'], sizes, c['boot'])
    ref, _ = sysimg.master(base)
    base.close()
    fork, info2 = build_obj(cfg, c['ops'], sizes, c['boot'])
    sh = shadow_of(fork, cfg)
    sh.update(info2)
    import random
    item = [x for x in catalogue(cfg, fork, sh, random.Random(0))][c['index']]
    try:
        item[3]()
        print('replay: the call was accepted')
    except Exception as e:
        print('replay: the call raised', type(e).__name__)
    try:
        img, _ = sysimg.master(fork)
        bad = img != ref
    except Exception as e:
        print('replay: next write fails', type(e).__name__)
        bad = True
    print('replay verdict:', 'STILL FAILS' if bad else 'passes now')
    return 1 if bad else 0
