"""Tie of Model/UdfParse.v (pycdlib's own parser of the UDF tree: what open builds from the recorded File Entries and File
Identifier Descriptors -- fi_descs order, one File Entry object per name, parents, the Inode table) to /repo: histories
(hard links within and across directories, neighbouring empty files, UCS-2 names, identifier areas of 1/2/3 blocks, deep
trees, images that also have ISO9660 names, reopen-edit-reopen chains) are built and written by the real library, the bytes
are opened with a NEW object, the parsed graph is read off the opened object, the layout is forced on the opened object and
compared with the written one, the opened object is written again and compared byte for byte; Coq evaluates the model parser
on the same history (bad_udfparse_cases)."""
import importlib.util
import os

from harness import common

_spec = importlib.util.spec_from_file_location('udf_parse_cases', os.path.join(common.VERIF, 'tools', 'udf_parse_cases.py'))
NAME = 'UdfParse.udf_parse vs the UDF object graph of images opened by pycdlib (and reopen layout / bytes)'


def correspondence(ctx):
    os.environ.setdefault('VERIF_REPO', common.REPO)
    mod = importlib.util.module_from_spec(_spec)
    _spec.loader.exec_module(mod)
    quick = ctx.tier == 'quick'
    seed = ctx.rng.randrange(1, 10 ** 4)
    cs = common.safe_cases(ctx, NAME, lambda: mod.cases(seed, 24 if quick else 300))
    if cs is None:
        return
    texts = []
    for c in cs:
        t = common.safe_render(ctx, NAME, mod.render, c)
        if t is None:
            continue
        texts.append(t)
        ctx.case(('udfparse', len(texts[-1]) // 1500), True)
    ctx.count('udfparse:histories', len(cs))
    bad, err = common.coq_bad_cases('udfparse', ['From PV.Model Require Import UdfLayout UdfParse.'], [], 'udfparse_case', texts,
                                    'bad_udfparse_cases 0', shard=4 if quick else 25, workers=8 if quick else 15, timeout=1500)
    if bad is None:
        ctx.broken.append({'name': 'correspondence:' + NAME, 'summary': 'model evaluation failed: ' + err})
        ctx.cov['correspondences'][NAME] = {'cases': len(cs), 'disagreements': 'evaluation failed'}
        return
    ctx.cov['traces_validated_against_impl'] += len(cs) - len(bad)
    ctx.cov['correspondences'][NAME] = {'cases': len(cs), 'disagreements': len(bad)}
    for i in bad[:3]:
        ctx.broken.append({'name': 'correspondence:' + NAME,
                           'summary': 'the UDF parser model and the object opened by pycdlib disagree (%d of %d histories)' % (len(bad), len(cs)),
                           'case': {'index': i, 'coq_case_head': texts[i][:500]}})
