"""C15 -- hostile or damaged images: open terminates with a documented error.  DESIGN.md section 8.15."""
import json
import os
import shutil
import struct
import subprocess
import tempfile

from harness import common, reader, sysimg, syslevel, sysprops
from harness.props import parsehostileleaf
from harness.props import c11

MODULE = 'C15'
LEVEL = 'other'
LBS = 2048


def both32(v):
    return struct.pack('<L', v & 0xffffffff) + struct.pack('>L', v & 0xffffffff)


def both16(v):
    return struct.pack('<H', v & 0xffff) + struct.pack('>H', v & 0xffff)


def _crc16(data):
    crc = 0
    for byte in data:
        crc ^= byte << 8
        for _ in range(8):
            crc = ((crc << 1) ^ 0x1021) & 0xffff if crc & 0x8000 else (crc << 1) & 0xffff
    return crc


def corruptions(img, rd, rng, per_image):
    """structured corruptions: (label, spec dict)"""
    n = len(img)
    out = []
    nsec = n // LBS
    # truncations at structure boundaries +-1 and at odd places
    cuts = set([0, 1, 2047, 32768, 32769, 16 * LBS + 6, 17 * LBS, 17 * LBS + 1, n - 1, n - LBS, n - LBS - 1, n // 2, n // 3])
    segs = rd.segments if rd is not None else []
    for (o, ln, kind, keys) in segs[:400]:
        cuts.update((o, o + 1, o + max(ln, 1) - 1))
    cuts = [c for c in cuts if 0 <= c < n]
    rng.shuffle(cuts)
    for c in cuts[:per_image // 4]:
        out.append(('truncate', {'trunc': c}))
    # field mutations inside every kind of structure the reader knows
    byval = [b'\x00', b'\xff', b'\x01', b'\x7f', b'\x80']
    kinds = {}
    for s in segs:
        kinds.setdefault(s[2], []).append(s)
    for kind, lst in kinds.items():
        rng.shuffle(lst)
        for (o, ln, k, keys) in lst[:3]:
            span = min(max(ln, 1), 160 if kind != 'system-area' else 0)
            for _ in range(4):
                if span <= 0:
                    break
                off = o + rng.randrange(0, span)
                w = rng.choice([1, 1, 2, 4, 8])
                val = rng.choice(byval) * w
                out.append(('field:' + kind, {'patch': [[off, val.hex()]]}))
    # directory records: consistent both-endian mutations of extent / length, length byte, name length, flags
    def dirs(root):
        st = [root]
        while st:
            d = st.pop()
            yield d
            st.extend(c for c in d.children if c.is_dir)
    for root in (rd.iso_root, rd.joliet_root) if rd is not None else ():
        if root is None:
            continue
        alld = list(dirs(root))
        rng.shuffle(alld)
        for d in alld[:4]:
            recs = [x for x in ([d.dot, d.dotdot] + list(d.children)) if x is not None and x.dr_offset is not None]
            rng.shuffle(recs)
            own = d.extents[0][0] if d.extents else 0
            par = d.parent.extents[0][0] if d.parent is not None and d.parent.extents else own
            for r in recs[:3]:
                ro = r.dr_offset
                for newext in (own, par, 0, 1, nsec + 5, 0xffffffff, 16):
                    out.append(('dr-extent', {'patch': [[ro + 2, both32(newext).hex()]]}))
                for newlen in (0, 1, LBS - 1, LBS * 3, 0xffffffff, n * 2):
                    out.append(('dr-length', {'patch': [[ro + 10, both32(newlen).hex()]]}))
                for nb in (0, 1, 33, 34, r.dr_len + 14, r.dr_len + 20, 255):
                    out.append(('dr-len-byte', {'patch': [[ro, bytes([nb & 255]).hex()]]}))
                for nf in (0, 1, 200, 255):
                    out.append(('dr-name-len', {'patch': [[ro + 32, bytes([nf]).hex()]]}))
                out.append(('dr-flags', {'patch': [[ro + 25, bytes([rng.randrange(256)]).hex()]]}))
    # volume descriptor fields
    for vd in (rd.vds if rd is not None else []):
        base = vd['sector'] * LBS
        if vd['type'] in (1, 2):
            for fo, val in ((80, both32(0)), (80, both32(0xffffffff)), (128, both16(0)), (128, both16(512)), (132, both32(0xffffffff)),
                            (132, both32(0)), (140, struct.pack('<L', nsec + 9)), (148, struct.pack('>L', nsec + 9)),
                            (156 + 2, both32(nsec + 3)), (156 + 10, both32(0xfffff800)), (156, b'\x00'), (881, b'\x07')):
                out.append(('vd-field', {'patch': [[base + fo, val.hex()]]}))
        out.append(('vd-type', {'patch': [[base, bytes([rng.choice([0, 1, 2, 3, 255, 7])]).hex()]]}))
    # El Torito: boot record pointer, catalog bytes, boot info table length field of the boot file
    if rd is not None and rd.eltorito is not None:
        et = rd.eltorito
        cat = et['catalog_sector'] * LBS
        out.append(('eltorito-pointer', {'patch': [[17 * LBS + 71, struct.pack('<L', nsec + 7).hex()]]}))
        out.append(('eltorito-pointer', {'patch': [[17 * LBS + 71, struct.pack('<L', 0xffffffff).hex()]]}))
        for fo in (0, 1, 28, 30, 32, 33, 38, 40, 64, 65, 96):
            out.append(('eltorito-catalog', {'patch': [[cat + fo, bytes([rng.choice([0, 0x88, 0x90, 0x91, 0x44, 0xff])]).hex()]]}))
        start = et['initial']['load_rba'] * LBS
        for val in (0xffffffff, 0x7fffffff, n * 4, 0):
            out.append(('eltorito-bootinfo-length', {'patch': [[start + 16, struct.pack('<L', val).hex()]]}))
            out.append(('eltorito-bootinfo-extent', {'patch': [[start + 12, struct.pack('<L', val).hex()]]}))
    # path tables: sizes and records
    if rd is not None:
        pv = rd.pvd
        for loc in (pv['l_path_table'], pv['m_path_table']):
            for fo in (0, 1, 2, 6, 8):
                out.append(('ptable', {'patch': [[loc * LBS + fo, bytes([rng.choice([0, 1, 255, 200])]).hex()]]}))
    # UDF: tags, anchors, lengths
    if rd is not None and rd.udf is not None:
        for (o, ln, kind, keys) in [s for s in segs if s[2].startswith('udf')][:40]:
            for fo in (0, 2, 4, 8, 10, 12, 16, 20, 24, 56, 168, 172):
                if rng.random() < 0.25:
                    out.append(('udf-field:' + kind, {'patch': [[o + fo, (rng.choice(byval) * rng.choice([1, 2, 4])).hex()]]}))
    # UDF descriptors mutated WITH their tag re-sealed (CRC and checksum recomputed), so that the parser gets past the tag checks and
    # meets the inconsistent counts / lengths inside (numbers of partitions, map table lengths, allocation descriptor lengths ...)
    if rd is not None and rd.udf is not None:
        tagged = [(o, ln) for (o, ln, kind, keys) in segs if kind.startswith('udf') and o + 16 <= n
                  and struct.unpack_from('<H', img, o)[0] in (1, 2, 4, 5, 6, 7, 8, 9, 256, 257, 261, 266)]
        rng.shuffle(tagged)
        for (o, ln) in tagged[:12]:
            crclen = struct.unpack_from('<H', img, o + 10)[0]
            if crclen == 0 or o + 16 + crclen > n:
                continue
            for _ in range(3):
                body = bytearray(img[o:o + 16 + crclen])
                fo = rng.choice([16, 20, 24, 28, 32, 56, 64, 72, 80, 88, 168, 172, 176, 180, 184, 188, 192, 196, 200]
                                + [rng.randrange(16, 16 + crclen - 3)])
                if fo + 4 > len(body):
                    continue
                val = rng.choice([0, 1, 54, 55, 61, 62, 127, 255, 256, 0xffff, 0x10000, 0x7fffffff, 0xffffffff])
                struct.pack_into('<L', body, fo, val)
                struct.pack_into('<H', body, 8, _crc16(bytes(body[16:16 + crclen])))
                body[4] = 0
                body[4] = sum(body[:16]) & 0xff
                out.append(('udf-resealed', {'patch': [[o, bytes(body).hex()]]}))
    # GPT headers of hybrid images: counts, strides and array locations (both copies)
    if rd is not None and rd.hybrid and isinstance(rd.hybrid, dict) and rd.hybrid.get('gpt'):
        for base in (512, n - 512):
            if bytes(img[base:base + 8]) != b'EFI PART':
                continue
            for fo, fmt, vals in ((80, '<L', (0, 1, 129, 4096, 300000, 0xffffffff)), (84, '<L', (0, 1, 127, 129, 4096, 0xffffffff)),
                                  (72, '<Q', (0, 1, n // 512, n // 512 + 5, 1 << 40, (1 << 64) - 1)), (12, '<L', (0, 91, 93, 512, 0xffffffff)),
                                  (24, '<Q', (0, n // 512 + 9, (1 << 64) - 1)), (32, '<Q', (0, n // 512 + 9, (1 << 64) - 1))):
                for v in vals:
                    out.append(('gpt-field', {'patch': [[base + fo, struct.pack(fmt, v).hex()]]}))
            out.append(('gpt-field', {'patch': [[base + 80, struct.pack('<LL', 0xffffffff, 0).hex()]]}))
            out.append(('gpt-field', {'patch': [[base + 80, struct.pack('<LL', 300000, 0).hex()]]}))
    # directed cases that are always kept: counts / strides / lengths that drive loops and allocations
    prio = []
    if rd is not None and rd.hybrid and isinstance(rd.hybrid, dict) and rd.hybrid.get('gpt'):
        for base in (512, n - 512):
            if bytes(img[base:base + 8]) == b'EFI PART':
                prio.append(('gpt-count-stride', {'patch': [[base + 80, struct.pack('<LL', 0xffffffff, 0).hex()]]}))
                prio.append(('gpt-count-stride', {'patch': [[base + 80, struct.pack('<LL', 0xffffffff, 128).hex()]]}))
                prio.append(('gpt-count-stride', {'patch': [[base + 80, struct.pack('<LL', 300000, 0).hex()]]}))
    if rd is not None and rd.udf is not None:
        want = {9: [(72, (55, 54, 108, 0xffffffff)), (76, (0xffffffff, 500))], 6: [(264, (72, 73, 0xffffffff)), (268, (13, 0xffffffff))],
                261: [(168, (0xffffffff, 2000)), (172, (0xffffffff, 2000, 7))], 257: [(36, (0xffff, 2000))], 7: [(20, (62, 0xffffffff))]}
        done = set()
        for (o, ln, kind, keys) in segs:
            if not kind.startswith('udf') or o + 16 > n:
                continue
            ident = struct.unpack_from('<H', img, o)[0]
            if ident not in want or ident in done:
                continue
            crclen = struct.unpack_from('<H', img, o + 10)[0]
            if crclen == 0 or o + 16 + crclen > n:
                continue
            done.add(ident)
            for fo, vals in want[ident]:
                for val in vals:
                    body = bytearray(img[o:o + 16 + crclen])
                    if fo + 4 > len(body):
                        continue
                    struct.pack_into('<L' if ident != 257 else '<H', body, fo, val if ident != 257 else val & 0xffff)
                    struct.pack_into('<H', body, 8, _crc16(bytes(body[16:16 + crclen])))
                    body[4] = 0
                    body[4] = sum(body[:16]) & 0xff
                    prio.append(('udf-resealed-count:%d' % ident, {'patch': [[o, bytes(body).hex()]]}))
    rng.shuffle(out)
    # keep every class represented
    seen, kept = {}, list(prio)
    for lab, sp in out:
        c = lab.split(':')[0]
        if seen.get(c, 0) < max(3, per_image // 12):
            seen[c] = seen.get(c, 0) + 1
            kept.append((lab, sp))
    return kept[:per_image + len(prio)]


def walk_cases(img, rd, rng):
    """directory-graph rewrites for the Walk.v correspondence: a sub-directory record is redirected to another DIRECTORY
    extent (itself, an ancestor, a sibling, a cousin); returns (spec, association list, root) with the graph the walk will see"""
    out = []
    root = rd.iso_root
    if root is None or not root.extents:
        return out
    alld = []
    st = [root]
    while st:
        d = st.pop()
        alld.append(d)
        st.extend(c for c in d.children if c.is_dir)
    if len(alld) < 3 or rd.joliet_root is not None and False:
        return out
    ext = {id(d): d.extents[0][0] for d in alld if d.extents}
    graph = {ext[id(d)]: [ext[id(c)] for c in d.children if c.is_dir and id(c) in ext and not (c.rr is not None and c.rr.cl is not None)] for d in alld if id(d) in ext}
    subs = [(d, c) for d in alld for c in d.children if c.is_dir and c.dr_offset is not None and id(c) in ext
            and not (c.rr is not None and (c.rr.cl is not None or c.rr.re))]
    rng.shuffle(subs)
    for (d, c) in subs[:4]:
        for tgt in rng.sample(alld, min(3, len(alld))) + [d]:
            if id(tgt) not in ext:
                continue
            g = {k: list(v) for k, v in graph.items()}
            lst = g[ext[id(d)]]
            lst[lst.index(ext[id(c)])] = ext[id(tgt)]
            out.append(({'patch': [[c.dr_offset + 2, both32(ext[id(tgt)]).hex()]]}, sorted(g.items()), ext[id(root)]))
    return out


def base_images(ctx, n):
    rng = ctx.rng
    cfgs = syslevel.covering_configs(rng, 16)
    imgs = []
    i = 0
    while len(imgs) < n and i < n * 3:
        cfg = cfgs[i % len(cfgs)]
        i += 1
        if i % 4 == 1:
            # plain ISO9660 image with a bushy directory tree: material for the directory-graph correspondence
            cfg = syslevel.Config(rng.choice([1, 2, 3, 4]), None, None, None, rng.random() < 0.3)
            ops, sizes, paths = [], {}, ['']
            for k in range(rng.randrange(6, 14)):
                par = rng.choice([p for p in paths if p.count('/') < 5])
                p = par + '/D%d' % k
                paths.append(p)
                ops.append({'k': 'add_dir', 'iso': p})
            for k in range(3):
                sizes[k + 1] = 10
                ops.append({'k': 'add_fp', 'blob': k + 1, 'size': 10, 'iso': rng.choice(paths) + '/F%d.;1' % k})
        elif i % 5 == 2:
            # EFI / Mac hybrid image (GPT structures in the system area and at the end)
            from harness.props import c12
            try:
                himg, hiso = c12.build_hybrid({} if rng.random() < 0.6 else {'rock_ridge': '1.09'}, rng.choice([{'efi': True}, {'mac': True}]),
                                              [(rng.choice([100, 3000, 70000]), rng.random() < 0.5) for _ in range(rng.randrange(0, 3))])
                hiso.close()
            except Exception:
                continue
            hb = sysimg.Built()
            hb.img = himg
            sysimg.decode(hb)
            imgs.append((cfg, [{'k': 'hybrid'}], hb.img, hb.rd))
            continue
        elif i % 3 == 0:
            ops, sizes = c11.boot_history(rng, cfg)
            for op in ops:
                if op['k'] == 'add_eltorito':
                    op['boot_info_table'] = True
        else:
            ops, sizes = syslevel.gen_history(rng, cfg, rng.randrange(4, 16), allow_refusals=False, long_rr=0.2)
        b = sysimg.build(cfg, ops, sizes)
        if b.fail is not None:
            continue
        b.iso.close()
        sysimg.decode(b)
        imgs.append((cfg, ops, b.img, b.rd))
    return imgs


def _descending_directory_image(n):
    """a valid image whose directory /D holds n files, with the records of /D rewritten in DESCENDING name order (what
    another mastering tool, or a damaged sort, could produce); returns the image bytes"""
    import io
    import struct
    import pycdlib
    iso = pycdlib.PyCdlib()
    iso.new(interchange_level=3)
    iso.add_directory('/D')
    for k in range(n):
        iso.add_fp(io.BytesIO(b''), 0, '/D/F%06d.;1' % k)
    out = io.BytesIO()
    iso.write_fp(out)
    rec = iso.get_record(iso_path='/D')
    ext, dlen = rec.extent_location(), rec.get_data_length()
    iso.close()
    img = bytearray(out.getvalue())
    area = bytes(img[ext * 2048:ext * 2048 + dlen])
    recs, p = [], 0
    while p < len(area):
        ln = area[p]
        if ln == 0:
            p = (p // 2048 + 1) * 2048
            continue
        recs.append(area[p:p + ln])
        p += ln
    head, files = recs[:2], recs[2:]
    files.reverse()
    new, blk = bytearray(), bytearray()
    for r in head + files:
        if len(blk) + len(r) > 2048:
            new += blk + bytes(2048 - len(blk))
            blk = bytearray()
        blk += r
    new += blk + bytes(2048 - len(blk))
    assert len(new) == dlen, (len(new), dlen)
    img[ext * 2048:ext * 2048 + dlen] = new
    return bytes(img)


def _open_work(img):
    """number of Python line events executed inside pycdlib while the image is opened (deterministic, unlike time)"""
    import io
    import sys
    import pycdlib
    count = [0]

    def tracer(frame, event, arg):
        if 'pycdlib' not in frame.f_code.co_filename:
            return None

        def local(frame, event, arg):
            if event == 'line':
                count[0] += 1
            return local
        return local
    iso = pycdlib.PyCdlib()
    sys.settrace(tracer)
    try:
        iso.open_fp(io.BytesIO(img))
    finally:
        sys.settrace(None)
    iso.close()
    return count[0]


def work_proportion(ctx):
    """'time and memory in proportion to the input': doubling the number of records of one directory must about double the
    work of opening the image, whatever the order of the records"""
    for order in ('ascending', 'descending'):
        w = []
        for n in (250, 500):
            import io
            img = _descending_directory_image(n)
            if order == 'ascending':
                import pycdlib
                iso = pycdlib.PyCdlib()
                iso.new(interchange_level=3)
                iso.add_directory('/D')
                for k in range(n):
                    iso.add_fp(io.BytesIO(b''), 0, '/D/F%06d.;1' % k)
                out = io.BytesIO()
                iso.write_fp(out)
                iso.close()
                img = out.getvalue()
            w.append(_open_work(img))
        ratio = w[1] / max(1, w[0])
        ctx.case(('open-work', order, round(ratio, 1)), True)
        ctx.count('open-work:%s:ratio-x10:%d' % (order, int(ratio * 10)))
        if ratio > 3.0:
            ctx.violation('c15:open:work-quadratic:%s-directory' % order,
                          'C15: opening an image with one directory of 500 records in %s name order executes %d lines of the library, with 250 records %d: '
                          'the work grows with the square of the number of records (ratio %.1f for a doubled input)' % (order, w[1], w[0], ratio),
                          {'order': order, 'records': [250, 500], 'lines': w})


def run(ctx):
    common.proof_stage(ctx, MODULE, common.theorems_of(MODULE))
    common.setup_impl_path()
    work_proportion(ctx)
    parsehostileleaf.correspondence(ctx)
    quick = ctx.tier == 'quick'
    rng = ctx.rng
    nimg = 24 if quick else 200
    per = 60 if quick else 220
    scratch = tempfile.mkdtemp(prefix='verif-c15-', dir='/dev/shm' if os.path.isdir('/dev/shm') else '/var/tmp')
    try:
        imgs = base_images(ctx, nimg)
        specs = []
        for bi, (cfg, ops, img, rd) in enumerate(imgs):
            path = os.path.join(scratch, 'base%d.iso' % bi)
            with open(path, 'wb') as fp:
                fp.write(img)
            specs.append({'id': len(specs), 'base': path, 'label': 'unmodified', 'cfg': cfg.key()})
            for lab, sp in corruptions(img, rd, rng, per):
                sp = dict(sp, id=len(specs), base=path, label=lab, cfg=cfg.key())
                specs.append(sp)
            if not cfg.joliet and not cfg.udf and not cfg.rr:
                for sp, al, root in walk_cases(img, rd, rng):
                    sp = dict(sp, id=len(specs), base=path, label='walk-graph', cfg=cfg.key(), graph=al, root=root)
                    specs.append(sp)
        # shard over worker processes (each shard keeps one base image in memory at a time)
        nw = 12
        shards = [[] for _ in range(nw)]
        for k, sp in enumerate(sorted(specs, key=lambda s: s['base'])):
            shards[(k * nw) // len(specs)].append(sp)
        procs = []
        for w, sh in enumerate(shards):
            sf, of = os.path.join(scratch, 'spec%d.jsonl' % w), os.path.join(scratch, 'out%d.jsonl' % w)
            with open(sf, 'w') as fp:
                for sp in sh:
                    fp.write(json.dumps(sp) + '\n')
            env = dict(os.environ, PYTHONPATH='/repo:/verif', VERIF_REPO=common.REPO)
            procs.append((subprocess.Popen([common.PY, '-m', 'harness.c15_worker', sf, of], cwd=common.VERIF, env=env,
                                           stdout=subprocess.DEVNULL, stderr=subprocess.DEVNULL), of, sh))
        results = {}
        for p, of, sh in procs:
            try:
                p.wait(timeout=1500)
            except subprocess.TimeoutExpired:
                p.kill()
            if os.path.exists(of):
                for line in open(of):
                    try:
                        r = json.loads(line)
                        results[r['id']] = r
                    except ValueError:
                        pass
            # a worker that died (e.g. killed by the kernel) leaves its remaining specs unanswered
            for sp in sh:
                if sp['id'] not in results:
                    results[sp['id']] = {'id': sp['id'], 'outcome': 'worker-died'}
        # Walk.v vs the implementation on redirected directory graphs
        rows, wspecs = [], []
        for sp in specs:
            if sp['label'] != 'walk-graph':
                continue
            r = results[sp['id']]
            if r['outcome'] == 'ok':
                code = 0
            elif r['outcome'] == 'PyCdlibInvalidISO' and 'Directory loop' in r.get('msg', ''):
                code = 1
            else:
                continue        # another check of the parser fired first: not a statement about the walk
            al = '; '.join('(%d, %s)' % (k, common.zlist(v)) for k, v in sp['graph'])
            rows.append('([%s], %d, %d)' % (al, sp['root'], code))
            wspecs.append(sp)
        if rows:
            defs = ['Fixpoint bad_from (k : nat) (cs : list (list (Z * list Z) * Z * Z)) : list nat := match cs with [] => [] | (al, root, code) :: r => '
                    'if fst (run_case al root 500) =? code then bad_from (S k) r else k :: bad_from (S k) r end.']
            bad, err = common.coq_bad_cases('c15walk', ['From PV.Model Require Import Walk.'], defs, '(list (Z * list Z) * Z * Z)', rows, 'bad_from 0', shard=200)
            name = 'Walk.open_walk vs PyCdlib._walk_directories on redirected directory graphs'
            if bad is None:
                ctx.broken.append({'name': 'correspondence:' + name, 'summary': 'model evaluation failed: ' + err})
            else:
                ctx.cov['traces_validated_against_impl'] += len(rows) - len(bad)
                ctx.cov['correspondences'][name] = {'cases': len(rows), 'disagreements': len(bad)}
                for i in bad[:2]:
                    ctx.broken.append({'name': 'correspondence:' + name, 'summary': 'the directory walk and Model/Walk.v disagree on a redirected directory graph',
                                       'coq_case': rows[i][:600]})
        died_first = {}
        for sp in specs:
            r = results[sp['id']]
            o = r['outcome']
            cls = sp['label'].split(':')[0]
            ctx.case(('c15', sp['id'], sp['label']), sp['label'] != 'unmodified')
            ctx.count('outcome:' + o)
            ctx.count('class:' + cls)
            if o in ('ok', 'PyCdlibInvalidISO', 'PyCdlibInvalidInput', 'PyCdlibInternalError'):
                if sp['label'] == 'unmodified' and o != 'ok':
                    ctx.violation('c15:unmodified-image-refused', 'C15: an image the library wrote is refused by open (%s)' % o, {'spec': sp})
                if r.get('ms', 0) > 4000:
                    ctx.violation('c15:slow:%s' % cls, 'C15: opening a %d-byte corrupted image (%s) took %d ms' % (0, sp['label'], r['ms']),
                                  {'spec': {k: v for k, v in sp.items() if k != 'base'}})
                continue
            if o == 'worker-died':
                w = sp['base']
                if w in died_first:
                    continue            # only the first unanswered spec of a dead worker is the culprit
                died_first[w] = True
            what = {'fault': 'raises %s (innermost pycdlib frame %s)' % (r.get('type'), r.get('site')),
                    'hang': 'does not return within the time limit', 'memory': 'exhausts the memory limit',
                    'worker-died': 'kills the interpreter / does not return'}[o]
            sig = 'c15:%s:%s' % (o if o != 'fault' else 'fault:%s@%s' % (r.get('type'), r.get('site')), cls)
            keep = {k: v for k, v in sp.items() if k not in ('base',)}
            ctx.violation(sig, 'C15: opening an image with corruption %s %s; base image config %s' % (sp['label'], what, sp['cfg']),
                          {'spec': keep, 'base_ops': imgs[int(os.path.basename(sp['base'])[4:-4])][1], 'config': sp['cfg'], 'result': r})
    finally:
        shutil.rmtree(scratch, ignore_errors=True)
    ctx.cov['rule'] = ('%d library-written base images (all extensions, a third bootable with boot info tables) x ~%d structured corruptions each: '
                       'truncation at every structure boundary +-1; byte/word mutations {00,ff,01,7f,80} inside every structure kind the independent '
                       'reader maps; consistent both-endian rewrites of directory-record extents (self, parent, 0, beyond EOF, 2^32-1) and lengths; '
                       'record length / name length / flags bytes; volume descriptor fields; El Torito pointer, catalog bytes and boot-info-table '
                       'length/extent fields; path table bytes; UDF tag/length fields.  Each opened by the library in a subprocess under a 6 s alarm and a '
                       '1.5 GiB address-space limit; outcome must be success or a documented exception' % (nimg, per))
    ctx.cov['trusted_base'] = ['Coq 8.16.1 kernel', 'Model/Walk.v (control skeleton of the directory walks, hand model)', 'the corruptor and the subprocess '
                               'limits of harness/props/c15.py']
    ctx.assumptions = ['level "other": termination and work bounds are PROVED for the directory-walk skeleton only; that no undocumented exception '
                       'type escapes from the ~3000 lines of record parsers is explored (field-directed), not proved -- open()/open_fp() now convert '
                       'the leak-prone builtin exception types into PyCdlibInvalidISO at one place (fix: commit 42d827a)']


def replay(ctx, rep):
    common.setup_impl_path()
    c = rep['case']
    cfg = [x for x in syslevel.all_configs() if x.key() == c['config']][0]
    b = sysimg.build(cfg, c['base_ops'], {op['blob']: op['size'] for op in c['base_ops'] if op['k'] == 'add_fp'})
    b.iso.close()
    scratch = tempfile.mkdtemp(prefix='verif-c15r-', dir='/var/tmp')
    try:
        path = os.path.join(scratch, 'base.iso')
        open(path, 'wb').write(b.img)
        sp = dict(c['spec'], base=path, id=0)
        sf, of = os.path.join(scratch, 's.jsonl'), os.path.join(scratch, 'o.jsonl')
        open(sf, 'w').write(json.dumps(sp) + '\n')
        subprocess.run([common.PY, '-m', 'harness.c15_worker', sf, of], cwd=common.VERIF, env=dict(os.environ, PYTHONPATH='/repo:/verif'), timeout=120)
        r = json.loads(open(of).read().splitlines()[0]) if os.path.exists(of) and open(of).read().strip() else {'outcome': 'worker-died'}
        print('replay:', r)
        bad = r['outcome'] not in ('ok', 'PyCdlibInvalidISO', 'PyCdlibInvalidInput', 'PyCdlibInternalError')
        return 1 if bad else 0
    finally:
        shutil.rmtree(scratch, ignore_errors=True)
