"""Shared engine of the system-level properties: run an edit history on the real library, master
the image through a recording sink (write log), decode it with the independent reader, reopen it
with the library and take the API view.  Per-property oracles on top of one `Built`.
DESIGN.md sections 4, 8.3-8.7, 8.9."""
import io
import struct

from harness import reader, syslevel, sysrun

LBS = 2048


class Sink(io.RawIOBase):
    """Seekable output sink that logs every write as (offset, length)."""

    def __init__(self):
        io.RawIOBase.__init__(self)
        self.buf = bytearray()
        self.pos = 0
        self.log = []

    def writable(self):
        return True

    def seekable(self):
        return True

    def readable(self):
        return False

    def seek(self, off, whence=0):
        if whence == 0:
            self.pos = off
        elif whence == 1:
            self.pos += off
        else:
            self.pos = len(self.buf) + off
        return self.pos

    def tell(self):
        return self.pos

    def write(self, b):
        n = len(b)
        if n:
            end = self.pos + n
            if end > len(self.buf):
                self.buf.extend(b'\x00' * (end - len(self.buf)))
            self.buf[self.pos:end] = b
            self.log.append((self.pos, n))
            self.pos = end
        return n

    def truncate(self, size=None):
        size = self.pos if size is None else size
        if size < len(self.buf):
            del self.buf[size:]
        else:
            self.buf.extend(b'\x00' * (size - len(self.buf)))
        return size


def master(iso):
    s = Sink()
    iso.write_fp(s)
    return bytes(s.buf), s.log


class Built:
    def __init__(self):
        self.cfg = None
        self.ops = None
        self.outs = []
        self.fail = None      # (stage, text)
        self.img = None
        self.writes = None
        self.rd = None        # reader Image (check=False)
        self.rd_fatal = None  # Malformed that stopped the reader
        self.iso2 = None      # library object over the written image
        self.space_size = None
        self.catalog_paths = set()
        self.probe = []       # per-op accounting probe (optional)
        self.reopen_points = ()


def probe_of(iso):
    """Accounting counters readable on the live object (attribute reads only)."""
    p = {'space': iso.pvd.space_size, 'ptr_size': iso.pvd.path_tbl_size, 'ptr_ext': iso.pvd.path_table_num_extents,
         'inodes': len(iso.inodes), 'links': sorted(len(i.linked_records) for i in iso.inodes)}
    if iso.joliet_vd is not None:
        p['jspace'] = iso.joliet_vd.space_size
        p['jptr'] = iso.joliet_vd.path_tbl_size
    if iso.udf_root is not None:
        p['part'] = iso.udf_main_descs.partitions[0].part_length
        p['nfiles'] = iso.udf_logical_volume_integrity.logical_volume_impl_use.num_files
        p['ndirs'] = iso.udf_logical_volume_integrity.logical_volume_impl_use.num_dirs
    return p


def build(cfg, ops, sizes, reopen_points=(), new_kwargs=None, schedule=None, want_probe=False, hybrid=None):
    """schedule: dict index -> list of schedule actions executed BEFORE op index
    ('force' | 'get_record' | 'walk' | 'list' | 'write')."""
    b = Built()
    b.cfg, b.ops = cfg, ops
    b.reopen_points = tuple(reopen_points)
    from harness import common as _common
    _common.reset_uuid()
    iso = cfg.new(**(new_kwargs or {}))
    try:
        for i, op in enumerate(ops + [None]):
            for act in (schedule or {}).get(i, ()):
                try:
                    do_schedule(iso, act, cfg)
                except Exception as e:
                    b.fail = ('schedule', '%s: %s (during the %s inserted before edit %d)' % (type(e).__name__, str(e)[:80], act, i))
                    return b
            if i in reopen_points:
                try:
                    img, _ = master(iso)
                except Exception as e:
                    b.fail = ('write', '%s: %s' % (type(e).__name__, str(e)[:80]))
                    return b
                iso.close()
                try:
                    iso = syslevel.reopen(img)
                except Exception as e:
                    b.fail = ('reopen', '%s: %s' % (type(e).__name__, str(e)[:80]))
                    return b
            if op is None:
                break
            o = syslevel.apply_op(iso, op, sizes)
            b.outs.append(o)
            if want_probe:
                b.probe.append(probe_of(iso))
            if op['k'] == 'add_eltorito' and o == 'ok':
                b.catalog_paths.add(op['catalog'])
                for m in ('jol', 'udf'):
                    if m in op:
                        b.catalog_paths.add(op[m])
        if hybrid is not None:
            try:
                iso.add_isohybrid(**hybrid)
            except Exception as e:
                b.fail = ('hybrid', '%s: %s' % (type(e).__name__, str(e)[:80]))
                return b
        try:
            b.img, b.writes = master(iso)
        except Exception as e:
            b.fail = ('write', '%s: %s' % (type(e).__name__, str(e)[:80]))
            return b
        b.space_size = iso.pvd.space_size
        b.iso = iso
        return b
    finally:
        if b.fail is not None:
            try:
                iso.close()
            except Exception:
                pass


def do_schedule(iso, act, cfg):
    if act == 'force':
        iso.force_consistency()
    elif act == 'walk':
        for _ in iso.walk(iso_path='/'):
            pass
    elif act == 'list':
        for c in iso.list_children(iso_path='/'):
            if c is not None:
                c.extent_location()
    elif act == 'get_record':
        iso.get_record(iso_path='/').extent_location()
    elif act == 'write':
        master(iso)
    elif act == 'query_all':
        # read-only queries through every kind of path the image has (fills the lookup caches)
        spaces = [('iso_path', None)]
        if iso.has_rock_ridge():
            spaces.append(('rr_path', None))
        if iso.has_joliet():
            spaces.append(('joliet_path', None))
        if iso.has_udf():
            spaces.append(('udf_path', None))
        for kw, _ in spaces:
            n = 0
            for dirname, dirlist, filelist in iso.walk(**{kw: '/'}):
                for name in list(dirlist) + list(filelist):
                    if name in ('', None):
                        continue
                    iso.get_record(**{kw: dirname.rstrip('/') + '/' + name})
                    n += 1
                    if n > 12:
                        break
                if n > 12:
                    break


def decode(b):
    """run the independent reader (non-fatal mode) on the built image"""
    try:
        b.rd = reader.read_image(b.img, check=False)
    except reader.Malformed as m:
        b.rd_fatal = m
    return b


def reopen(b):
    try:
        b.iso2 = syslevel.reopen(b.img)
    except Exception as e:
        b.fail = ('reopen', '%s: %s' % (type(e).__name__, str(e)[:80]))
    return b


# ---------------------------------------------------------------- C03: structure + tree agreement

def reader_tree(root, ns):
    """{path: (kind, length, extents)} of a reader ISO/Joliet tree"""
    out = {}
    stack = [(root, '')]
    while stack:
        node, prefix = stack.pop()
        for c in node.children:
            nm = c.name
            if ns == 'jol':
                s = nm.decode('utf-16_be') if isinstance(nm, bytes) else nm
            else:
                s = nm.decode('latin-1') if isinstance(nm, bytes) else nm
            p = prefix + '/' + s
            if c.is_dir:
                out[p] = ('dir', None, None)
                stack.append((c, p))
            elif c.rr is not None and c.rr.cl is not None:
                out[p] = ('cl', None, None)      # Rock Ridge placeholder of a relocated directory
            else:
                out[p] = ('file', c.length, tuple(c.extents))
    return out


def api_tree(iso, ns):
    """{path: (kind, length)} through the library's walk/get_record, plus file bytes reader"""
    kw = {'iso': 'iso_path', 'jol': 'joliet_path', 'udf': 'udf_path'}[ns]
    out = {}
    for dirname, dirlist, filelist in iso.walk(**{kw: '/'}):
        for name in dirlist:
            out[dirname.rstrip('/') + '/' + name] = ('dir', None)
        for name in filelist:
            p = dirname.rstrip('/') + '/' + name
            rec = iso.get_record(**{kw: p})
            out[p] = ('file', rec.get_data_length() if ns != 'udf' else rec.get_data_length())
    return out


def api_read(iso, ns, path):
    kw = {'iso': 'iso_path', 'jol': 'joliet_path', 'udf': 'udf_path'}[ns]
    o = io.BytesIO()
    iso.get_file_from_iso_fp(o, **{kw: path})
    return o.getvalue()


def oracle_c03(b, report):
    """report(signature, text, extra) is called for every violation."""
    if b.rd_fatal is not None:
        report('reader-fatal:' + b.rd_fatal.rule, 'independent reader cannot decode the image: %s' % b.rd_fatal, None)
        return
    iso_rules = ('vd-', 'both-endian', 'pvd-duplicates', 'root-record', 'extent-out', 'dir-', 'dr-', 'dot', 'ptable-',
                 'beyond-volume', 'truncated', 'lbs-')
    for m in b.rd.problems:
        if m.rule.startswith(iso_rules):
            report('rule:' + m.rule, 'ECMA-119 well-formedness rule [%s] violated: %s' % (m.rule, m.detail), m.offset)
    # the object that wrote the image must agree with what an independent reader finds in it
    w = getattr(b, 'iso', None)
    if w is not None:
        for ns, root in (('iso', b.rd.iso_root), ('jol', b.rd.joliet_root)):
            if root is None:
                continue
            rt = reader_tree(root, ns)
            try:
                at = api_tree(w, ns)
            except Exception:
                continue
            if set(rt) != set(at):
                report('tree-writer:' + ns, 'the image does not hold the %s tree that the writing object reports: only in the image %s, '
                       'only in the API %s' % (ns, sorted(set(rt) - set(at))[:4], sorted(set(at) - set(rt))[:4]), None)
    if b.iso2 is None:
        return
    for ns, root in (('iso', b.rd.iso_root), ('jol', b.rd.joliet_root)):
        if root is None:
            continue
        rt = reader_tree(root, ns)
        at = api_tree(b.iso2, ns)
        if ns == 'iso' and b.rd.rr_root is not None:
            # the API walks the ISO9660 names of the physical tree; relocated dirs appear under RR_MOVED in both
            pass
        if set(rt) != set(at):
            report('tree:' + ns, 'independent reader and library API disagree on the %s tree: only reader %s, only API %s'
                   % (ns, sorted(set(rt) - set(at))[:4], sorted(set(at) - set(rt))[:4]), None)
            continue
        for p, (kind, ln, ext) in rt.items():
            if kind == 'cl':
                continue
            if kind != at[p][0]:
                report('tree-kind:' + ns, '%s %s is a %s for the reader and a %s for the API' % (ns, p, kind, at[p][0]), None)
            elif kind == 'file':
                try:
                    data = api_read(b.iso2, ns, p)
                except Exception as e:
                    if 'Symlinks have no data' in str(e) or 'without data' in str(e):
                        continue
                    report('api-read:' + ns, 'API cannot read %s %s: %s' % (ns, p, e), None)
                    continue
                node_bytes = b''.join(b.img[s * LBS:s * LBS + n] for (s, n) in ext if s is not None)
                if data != node_bytes:
                    report('content:' + ns, '%s %s: bytes at the extents decoded by the reader (%d bytes) differ from '
                           'what the API returns (%d bytes)' % (ns, p, len(node_bytes), len(data)), None)


# ---------------------------------------------------------------- C04: allocation

def oracle_c04(b, report, linked=None):
    """linked: optional {(ns, path): blob} from the specification, for 'shared iff linked'."""
    if b.rd_fatal is not None:
        report('reader-fatal:' + b.rd_fatal.rule, 'independent reader cannot decode the image: %s' % b.rd_fatal, None)
        return
    rd = b.rd
    for a, s in reader.overlaps(rd):
        report('overlap:%s/%s' % tuple(sorted((a[2], s[2]))),
               'two distinct on-disc objects overlap: %s and %s' % (a[:3] + (a[3][:2],), s[:3] + (s[3][:2],)), None)
    for m in rd.problems:
        if m.rule in ('beyond-volume-size', 'extent-out-of-image', 'ce-out-of-sector', 'ce-out-of-volume', 'ce-overlap',
                      'udf-outside-partition', 'udf-partition-bounds'):
            report('rule:' + m.rule, 'allocation rule [%s] violated: %s' % (m.rule, m.detail), m.offset)
    space = rd.pvd['space_size']
    pad = 0
    if rd.hybrid is not None:
        pad = len(b.img) - space * LBS
        cyl = rd.hybrid.get('cylinder_bytes') if isinstance(rd.hybrid, dict) else None
        if pad < 0 or (cyl and (pad >= cyl + 16896 or len(b.img) % cyl)):
            report('length:hybrid', 'hybrid image length %d is not the declared %d sectors plus cylinder padding' % (len(b.img), space), None)
    elif len(b.img) != space * LBS:
        report('length', 'image length %d bytes differs from the declared volume size %d sectors (%d bytes)'
               % (len(b.img), space, space * LBS), None)
    # exact size: the declared volume ends where the last object ends (no dangling sectors that an
    # accounting delta forgot to release)
    segs = [sg for sg in rd.segments if sg[1] > 0]
    if segs:
        last_end = max((sg[0] + sg[1] + LBS - 1) // LBS for sg in segs)
        if last_end < space:
            lastseg = max(segs, key=lambda sg: sg[0] + sg[1])
            report('slack:trailing-unused-sectors', 'the declared volume size is %d sectors but the last on-disc object (%s at '
                   'sector %d) ends at sector %d: %d sector(s) at the end belong to nothing' % (space, lastseg[2], lastseg[0] // LBS,
                                                                                             last_end, space - last_end), None)
    # every VD copy declares the same size
    for vd in rd.vds:
        if isinstance(vd, dict) and vd.get('space_size') not in (None, space):
            report('space-size-differs', 'volume descriptor at sector %s declares %s sectors, the PVD %d'
                   % (vd.get('sector'), vd.get('space_size'), space), None)
    # the write log: no byte written twice, except the boot info table patch (56 bytes at +8 of a boot file)
    if b.writes is not None:
        ev = sorted(b.writes)
        end = -1
        last = None
        for (o, n) in ev:
            if o < end:
                if n == 56 or (last is not None and last[1] == 56):
                    pass
                else:
                    report('written-twice', 'mastering wrote bytes [%d,%d) twice (write of %d bytes at %d overlaps write '
                           'of %d bytes at %d; sector %d)' % (o, min(end, o + n), n, o, last[1], last[0], o // LBS), None)
                    break
            if o + n > end:
                end = o + n
                last = (o, n)
    # shared iff linked
    if linked:
        ext_of = {}
        for ns, root in (('iso', rd.iso_root), ('jol', rd.joliet_root)):
            if root is None:
                continue
            for p, (kind, ln, ext) in reader_tree(root, ns).items():
                if kind == 'file' and ln:
                    ext_of[(ns, p)] = ext
        if rd.udf is not None and rd.udf.get('root') is not None:
            for p, node in udf_files(rd.udf['root']).items():
                if node.length and node.inline is None:
                    ext_of[('udf', p)] = tuple(node.extents)
        by_ext = {}
        for k, e in ext_of.items():
            by_ext.setdefault(e, []).append(k)
        for k, blob in linked.items():
            if k not in ext_of:
                continue
            for k2, blob2 in linked.items():
                if k2 <= k or k2 not in ext_of:
                    continue
                same_ext = ext_of[k] == ext_of[k2]
                if (blob == blob2) != same_ext:
                    report('shared-iff-linked:%s' % ('linked-not-shared' if blob == blob2 else 'shared-not-linked'),
                           '%s and %s are %s but their data extents are %s (%s / %s)'
                           % (k, k2, 'links to one content' if blob == blob2 else 'different contents',
                              'the same' if same_ext else 'different', ext_of[k][:2], ext_of[k2][:2]), None)
                    return


def udf_files(root):
    out = {}
    stack = [(root, '')]
    while stack:
        node, prefix = stack.pop()
        for c in node.children:
            nm = c.name if isinstance(c.name, str) else c.name.decode('latin-1')
            p = prefix + '/' + nm
            if c.is_dir:
                stack.append((c, p))
            else:
                out[p] = c
    return out


# ---------------------------------------------------------------- C05: remastering fixpoint

def mask_dates(img):
    """volume-modification date fields of every PVD/SVD are not part of the fixpoint claim"""
    a = bytearray(img)
    s = 16
    while (s + 1) * LBS <= len(a):
        t = a[s * LBS]
        if a[s * LBS + 1:s * LBS + 6] != b'CD001':
            break
        if t in (1, 2):
            a[s * LBS + 830:s * LBS + 847] = b'\x00' * 17
        if t == 255:
            break
        s += 1
    return bytes(a)


def first_diff(x, y):
    n = min(len(x), len(y))
    if x[:n] == y[:n]:
        return n if len(x) != len(y) else None
    lo, hi = 0, n
    while hi - lo > 1:
        mid = (lo + hi) // 2
        if x[:mid] == y[:mid]:
            lo = mid
        else:
            hi = mid
    return lo


def attribute(rd, off):
    """name the structure that holds byte `off` using the reader's segment map"""
    if rd is None:
        return 'sector %d' % (off // LBS)
    best = None
    for (o, ln, kind, keys) in rd.segments:
        span = max(ln, 1)
        if kind not in ('ce', 'pad'):
            span = (span + LBS - 1) // LBS * LBS
        if o <= off < o + span:
            best = kind
    return best or ('sector %d' % (off // LBS))


def oracle_c05(b, report):
    if b.iso2 is None:
        return
    try:
        img2, _ = master(b.iso2)
    except Exception as e:
        report('rewrite-fails:' + type(e).__name__, 'opening the written image and writing it again fails: %s: %s'
               % (type(e).__name__, str(e)[:100]), None)
        return
    x, y = mask_dates(b.img), mask_dates(img2)
    d = first_diff(x, y)
    if d is not None:
        report('not-a-fixpoint:' + attribute(b.rd, d),
               'open+write does not reproduce the image: first difference at byte %d (sector %d, +%d) in %s; lengths %d / %d'
               % (d, d // LBS, d % LBS, attribute(b.rd, d), len(x), len(y)), d)
        return
    try:
        iso3 = syslevel.reopen(img2)
        img3, _ = master(iso3)
        iso3.close()
    except Exception as e:
        report('rewrite2-fails:' + type(e).__name__, 'second open+write fails: %s' % e, None)
        return
    d = first_diff(mask_dates(img2), mask_dates(img3))
    if d is not None:
        report('not-idempotent:' + attribute(b.rd, d), 'second open+write differs at byte %d in %s' % (d, attribute(b.rd, d)), d)
