"""Worker of the C15 check: opens corrupted images with the real library under a wall-clock alarm and
an address-space limit, one JSON result per line.  usage: python -m harness.c15_worker <specfile> <outfile>"""
import io
import json
import os
import resource
import signal
import sys
import time
import traceback


class Hang(BaseException):
    pass


def _alarm(signum, frame):
    raise Hang()


def innermost_site(tb):
    site = None
    for fr in traceback.extract_tb(tb):
        if '/pycdlib/' in fr.filename:
            site = '%s:%s' % (os.path.basename(fr.filename), fr.name)
    return site


def main():
    spec_path, out_path = sys.argv[1], sys.argv[2]
    repo = os.environ.get('VERIF_REPO', '/repo')
    sys.path.insert(0, repo)
    import pycdlib
    from pycdlib import pycdlibexception as pe
    limit = int(os.environ.get('C15_MEM', str(1536 * 1024 * 1024)))
    resource.setrlimit(resource.RLIMIT_AS, (limit, limit))
    signal.signal(signal.SIGALRM, _alarm)
    tmo = float(os.environ.get('C15_TIMEOUT', '6'))
    bases = {}
    with open(spec_path) as fp, open(out_path, 'w') as out:
        for line in fp:
            sp = json.loads(line)
            if sp['base'] not in bases:
                with open(sp['base'], 'rb') as bf:
                    bases = {sp['base']: bf.read()}
            img = bytearray(bases[sp['base']])
            for (off, hexdata) in sp.get('patch', []):
                d = bytes.fromhex(hexdata)
                if off < len(img):
                    img[off:off + len(d)] = d[:max(0, len(img) - off)] if off + len(d) > len(img) else d
            if sp.get('trunc') is not None:
                del img[sp['trunc']:]
            if sp.get('append'):
                img.extend(b'\x00' * sp['append'])
            res = {'id': sp['id']}
            t0 = time.monotonic()
            iso = pycdlib.PyCdlib()
            signal.setitimer(signal.ITIMER_REAL, tmo)
            try:
                iso.open_fp(io.BytesIO(bytes(img)))
                res['outcome'] = 'ok'
            except Hang:
                res['outcome'] = 'hang'
            except MemoryError:
                res['outcome'] = 'memory'
            except (pe.PyCdlibInvalidISO, pe.PyCdlibInvalidInput, pe.PyCdlibInternalError) as e:
                res['outcome'] = type(e).__name__
                res['msg'] = str(e)[:60]
            except RecursionError as e:
                res['outcome'] = 'fault'
                res['type'] = 'RecursionError'
                res['site'] = innermost_site(sys.exc_info()[2])
            except BaseException as e:   # noqa
                res['outcome'] = 'fault'
                res['type'] = type(e).__name__
                res['site'] = innermost_site(sys.exc_info()[2])
            finally:
                signal.setitimer(signal.ITIMER_REAL, 0)
            res['ms'] = int((time.monotonic() - t0) * 1000)
            try:
                iso.close()
            except BaseException:
                pass
            out.write(json.dumps(res) + '\n')
            out.flush()


if __name__ == '__main__':
    main()
