"""Execute edit histories on the implementation, compare with the Coq FsSpec, shrink disagreements.
Shared by the system-level properties (C01 C02 C07 C13 C14 ...)."""
from harness import common, syslevel
from harness.common import z


class Run:
    """What the implementation did with one history (possibly several generations)."""

    def __init__(self):
        self.outs = []          # per-op outcome strings
        self.fail = None        # None | ('write'|'reopen'|'view', exception text)
        self.view = None        # API view of the final reopened image
        self.img = None         # final image bytes
        self.catalog_paths = set()


def content_key_fn(ops, catalog_paths):
    table = {}
    for op in ops:
        if op['k'] == 'add_fp':
            c = syslevel.blob_content(op['blob'], op['size'])
            table.setdefault(c, op['blob'] if op['size'] > 0 else 0)

    def key(data, path):
        if path in catalog_paths:
            return -1
        if data == b'':
            return 0
        return table.get(data, -2)
    return key


def execute(cfg, ops, sizes, reopen_points=(), keep_iso=False, pre=None):
    """Run ops on a fresh image of configuration cfg.  `reopen_points`: indices i such that the
    image is written and reopened BEFORE op i (a new generation).  The final image is always
    written and reopened, and its API view taken."""
    r = Run()
    iso = cfg.new()
    if pre:
        pre(iso)
    try:
        for i, op in enumerate(ops):
            if i in reopen_points:
                try:
                    img = syslevel.write_image(iso)
                except Exception as e:
                    r.fail = ('write', '%s: %s' % (type(e).__name__, str(e)[:80]), i)
                    return r
                iso.close()
                try:
                    iso = syslevel.reopen(img)
                except Exception as e:
                    r.fail = ('reopen', '%s: %s' % (type(e).__name__, str(e)[:80]), i)
                    return r
            o = syslevel.apply_op(iso, op, sizes)
            r.outs.append(o)
            if op['k'] == 'add_eltorito' and o == 'ok':
                r.catalog_paths.add(op['catalog'])
                for m in ('jol', 'udf'):
                    if m in op:
                        r.catalog_paths.add(op[m])
        try:
            r.img = syslevel.write_image(iso)
        except Exception as e:
            r.fail = ('write', '%s: %s' % (type(e).__name__, str(e)[:80]), len(ops))
            return r
        iso.close()
        try:
            iso = syslevel.reopen(r.img)
        except Exception as e:
            r.fail = ('reopen', '%s: %s' % (type(e).__name__, str(e)[:80]), len(ops))
            return r
        try:
            r.view = syslevel.api_view(iso, cfg, content_key_fn(ops, r.catalog_paths))
        except Exception as e:
            r.fail = ('view', '%s: %s' % (type(e).__name__, str(e)[:80]), len(ops))
            return r
        return r
    finally:
        if keep_iso:
            r.iso = iso
        else:
            try:
                iso.close()
            except Exception:
                pass


def blob_table(ops):
    return '[' + '; '.join('(%s, 0)' % z(op['blob']) for op in ops if op['k'] == 'add_fp' and op['size'] == 0) + ']'


def render_case(cfg, ops, outs, view, reopen_points=()):
    """Coq syscase; a `Reopen empties base` spec op (outcome ok) is inserted before every op index in
    reopen_points.  Outcome disagreement codes 1000+i then index this extended list: see op_index()."""
    names = syslevel.Names()
    code = {'ok': 0, 'refused': 1}
    empties = '[' + '; '.join(z(op['blob']) for op in ops if op['k'] == 'add_fp' and op['size'] == 0) + ']'
    cops, couts = [], []
    gen = 0
    for i, op in enumerate(ops):
        if i in reopen_points:
            gen += 1
            cops.append('Reopen %s %s' % (empties, z(-1000000 * gen)))
            couts.append('0')
        cops.append(syslevel.coq_op(op, names, cfg))
        couts.append(str(code.get(outs[i], 2)))
    return ('{| y_ops := [%s]; y_outcomes := [%s]; y_view := %s; y_tbl := %s; y_start := empty_fs |}'
            % ('; '.join(cops), '; '.join(couts), syslevel.coq_view(view, names), blob_table(ops)))


def coq_results(case_texts, prefix='sys'):
    """0 = agree, 1 = final views differ, 1000+i = outcome of op i differs."""
    return common.coq_map_cases(prefix, ['From PV.Spec Require Import FsSpec FsCases.'], [], 'syscase',
                                case_texts, 'results', shard=150)


def classify(code):
    if code == 0:
        return 'agree'
    if code == 1:
        return 'view'
    return 'outcome'


def shrink_against_spec(cfg, ops, sizes, reopen_points, kind, prefix='shr'):
    """ddmin where every round evaluates all candidate sub-histories in one Coq call.
    `kind`: 'view' or 'outcome' -- the candidate must still disagree in the same way."""
    cur = list(ops)
    rp = sorted(reopen_points)
    n = 2
    rounds = 0
    while len(cur) >= 2 and rounds < 12:
        rounds += 1
        chunk = max(1, len(cur) // n)
        cands = []
        for i in range(0, len(cur), chunk):
            cand = cur[:i] + cur[i + chunk:]
            if not cand:
                continue
            # map reopen points: keep a reopen before the op that followed it, by identity
            crp = _map_reopen(cur, cand, rp)
            run = execute(cfg, cand, sizes, crp)
            if run.fail is not None:
                continue
            cands.append((cand, crp, render_case(cfg, cand, run.outs, run.view, crp)))
        if not cands:
            if chunk == 1:
                break
            n = min(len(cur), n * 2)
            continue
        res, err = coq_results([c[2] for c in cands], prefix)
        if res is None:
            break
        hit = None
        for (cand, crp, _), code in zip(cands, res):
            if classify(code) == kind:
                hit = (cand, crp)
                break
        if hit:
            cur, rp = hit
            n = max(n - 1, 2)
        else:
            if chunk == 1:
                break
            n = min(len(cur), n * 2)
    return cur, rp


def _map_reopen(cur, cand, rp):
    ids = [id(o) for o in cand]
    out = []
    for p in rp:
        # the op originally at index p (or the next surviving one)
        j = p
        while j < len(cur) and id(cur[j]) not in ids:
            j += 1
        out.append(ids.index(id(cur[j])) if j < len(cur) else len(cand))
    return sorted(set(out))


def shrink_failure(cfg, ops, sizes, reopen_points, fail_kind, fail_text):
    """ddmin for write/reopen/view exceptions (no Coq involved)."""
    state = {'rp': sorted(reopen_points)}

    def still(cand):
        crp = _map_reopen(state['cur'], cand, state['rp'])
        run = execute(cfg, cand, sizes, crp)
        ok = run.fail is not None and run.fail[0] == fail_kind and run.fail[1].split(':')[0] == fail_text.split(':')[0]
        if ok:
            state['next_rp'] = crp
        return ok
    cur = list(ops)
    state['cur'] = cur
    changed = True
    while changed and len(cur) > 1:
        changed = False
        for k in range(len(cur) - 1, -1, -1):
            cand = cur[:k] + cur[k + 1:]
            if still(cand):
                state['rp'] = state['next_rp']
                cur = cand
                state['cur'] = cur
                changed = True
                break
    return cur, state['rp']


def shape_with_reopen(ops, rp):
    parts = syslevel.op_shape(ops).split(',') if ops else []
    out = []
    for i, p in enumerate(parts):
        if i in rp:
            out.append('REOPEN')
        out.append(p)
    return ','.join(out)


# ---------------------------------------------------------------- minimisation driven by the Python mirror

def disagreement(cfg, ops, sizes, rp, _nested=False):
    """None if the implementation agrees with the (Python mirror of the) spec on this history."""
    from harness import pyspec
    run = execute(cfg, ops, sizes, rp)
    if run.fail is not None:
        return ('fail', run.fail[0], run.fail[1].split(':')[0])
    s, outs = pyspec.run(ops, rp)
    for i, (a, b) in enumerate(zip(run.outs, outs)):
        if a != b:
            # An edit that both sides refused must be a no-op.  If the later outcomes disagree only because such a refused
            # edit is in the history (the history without it agrees), the refused edit left something behind: the same
            # defect class as ('view', 'after-refused-edit') -- C14's business -- seen through a later outcome.
            refused = [j for j in range(i) if run.outs[j] != 'ok' and outs[j] != 'ok']
            if refused and not _nested:
                rest = [o for j, o in enumerate(ops) if j not in refused]
                if disagreement(cfg, rest, sizes, _map_reopen(ops, rest, rp), _nested=True) is None:
                    return ('outcome', 'after-refused-edit')
            return ('outcome', ops[i]['k'], a, ops[i].get('why', 'valid'), i == len(ops) - 1)
    if run.view != pyspec.view(s):
        # a history in which a refused edit left something behind is C14's business: keep the two classes apart
        return ('view',) if all(o == 'ok' for o in run.outs) else ('view', 'after-refused-edit')
    return None


def _strip_feature(cfg, ops, feat):
    """configuration without `feat` and the history adapted to it, or None if impossible"""
    c = syslevel.Config(cfg.level, cfg.joliet, cfg.rr, cfg.udf, cfg.xa)
    new = []
    if feat == 'xa':
        if not cfg.xa:
            return None
        c.xa = False
        return c, [dict(o) for o in ops]
    if feat == 'level':
        if cfg.level == 3:
            return None
        c.level = 3
        return c, [dict(o) for o in ops]
    key = {'joliet': 'jol', 'udf': 'udf', 'rr': 'rr'}[feat]
    if not getattr(cfg, feat):
        return None
    setattr(c, feat, None)
    for o in ops:
        o = dict(o)
        if feat == 'rr':
            if o['k'] == 'add_symlink_rr':
                continue
            o.pop('rr', None)
        else:
            if o.get('ns') == key or o.get('src_ns') == key:
                continue
            if o['k'] == 'add_symlink_udf' and key == 'udf':
                continue
            o.pop(key, None)
            if o['k'] in ('add_fp', 'add_dir', 'rm_dir') and not any(n in o for n in ('iso', 'jol', 'udf')):
                continue
        new.append(o)
    return c, new


def minimize(cfg, ops, sizes, rp, want=None):
    """Shrink (history, arguments, configuration) while the same kind of disagreement persists.
    Returns (cfg, ops, rp, what)."""
    rp = sorted(rp)
    if want is None:
        want = disagreement(cfg, ops, sizes, rp)
    if want is None:
        return cfg, ops, rp, None
    cur = list(ops)
    if want[0] == 'outcome':
        # cut the history at the first edit whose outcome differs; that edit stays last
        from harness import pyspec
        run = execute(cfg, cur, sizes, rp)
        s, outs = pyspec.run(cur, rp)
        for i, (a, b) in enumerate(zip(run.outs, outs)):
            if a != b:
                cur = cur[:i + 1]
                rp = [q for q in rp if q <= i]
                break
        if want[1:2] != ('after-refused-edit',):
            want = want[:4] + (True,)
    # 1. drop edits (last edit is kept for outcome disagreements)
    changed = True
    budget = 400
    while changed and len(cur) > 1 and budget > 0:
        changed = False
        for k in range(len(cur) - 1, -1, -1):
            if want[0] == 'outcome' and k == len(cur) - 1:
                continue
            cand = cur[:k] + cur[k + 1:]
            crp = _map_reopen(cur, cand, rp)
            budget -= 1
            if disagreement(cfg, cand, sizes, crp) == want:
                cur, rp = cand, crp
                changed = True
                break
    # drop reopen points
    for p in list(rp):
        crp = [q for q in rp if q != p]
        if disagreement(cfg, cur, sizes, crp) == want:
            rp = crp
    # 2. drop namespaces from multi-namespace edits, shrink sizes
    for i, o in enumerate(cur):
        for key in ('udf', 'jol', 'iso'):
            if key in o and o['k'] in ('add_fp', 'add_dir', 'rm_dir') and sum(1 for n in ('iso', 'jol', 'udf') if n in o) > 1:
                o2 = dict(o)
                o2.pop(key)
                if key == 'iso':
                    o2.pop('rr', None)
                cand = cur[:i] + [o2] + cur[i + 1:]
                if disagreement(cfg, cand, sizes, rp) == want:
                    cur = cand
                    o = o2
        if o['k'] == 'add_fp' and o.get('size', 0) > 1:
            o2 = dict(o)
            o2['size'] = 1
            cand = cur[:i] + [o2] + cur[i + 1:]
            if disagreement(cfg, cand, sizes, rp) == want:
                cur = cand
    # 3. simplify the configuration
    for feat in ('xa', 'joliet', 'udf', 'rr', 'level'):
        r = _strip_feature(cfg, cur, feat)
        if r is None:
            continue
        c2, ops2 = r
        if want[0] == 'outcome' and (not ops2 or ops2[-1]['k'] != cur[-1]['k']):
            continue
        if ops2 and len(ops2) == len(cur) and disagreement(c2, ops2, sizes, rp) == want:
            cfg, cur = c2, ops2
    return cfg, cur, rp, want


def cfg_features(cfg):
    f = 'L%d' % cfg.level
    if cfg.joliet:
        f += 'J'
    if cfg.rr:
        f += 'R'
    if cfg.udf:
        f += 'U'
    if cfg.xa:
        f += 'X'
    return f


def signature(pid, cfg, ops, rp, want):
    return '%s:%s:%s:%s' % (pid.lower(), '/'.join(str(w) for w in want if not isinstance(w, bool)), cfg_features(cfg), shape_with_reopen(ops, rp))
