"""`python -m harness.build --all`: regenerate translated files and build the whole development."""
import sys
from harness import common

if __name__ == '__main__':
    # everything the property theorems depend on (not: unclaimed work in progress under theories/)
    common.coq_build(['theories/Gen/GenConst.vo', 'theories/Gen/GenFun.vo', 'theories/Gen/GenObj.vo'])
    br = common.coq_build([f[:-2] + '.vo' for f in common.closure_files()])
    bad = common.hygiene()
    if bad:
        print('HYGIENE FAILURES:', bad)
    print(br.log[-3000:])
    if br.changed:
        print('translated items differing from golden:', br.changed)
    sys.exit(0 if br.ok and not bad else 1)
