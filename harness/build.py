"""`python -m harness.build --all`: regenerate translated files and build the whole development."""
import sys
from harness import common

if __name__ == '__main__':
    br = common.coq_build(None)
    bad = common.hygiene()
    if bad:
        print('HYGIENE FAILURES:', bad)
    print(br.log[-3000:])
    if br.changed:
        print('translated items differing from golden:', br.changed)
    sys.exit(0 if br.ok and not bad else 1)
