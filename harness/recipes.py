"""Boundary-directed history recipes (DESIGN.md section 4): every case split a proof needed is a
generator target -- a directory whose records fill a block exactly, a path table crossing 4096
bytes (with and without duplicate PVDs), continuation-area gaps of exactly the needed size +-1,
large records with poor packing, deep trees, UDF identifier areas crossing a block.
Each recipe returns (ops, sizes); ops use the alphabet of syslevel.apply_op plus
'dup_pvd' and 'rm_dir'.  Record lengths are PROBED on a scratch image of the same configuration
(attribute read `dr_len` of the record just added), so recipes adapt to RR / XA / level."""
import io

from harness import syslevel

LBS = 2048


def _probe_dr_len(cfg, iso_name, rr_name=None, is_dir=False):
    iso = cfg.new()
    try:
        kw = {}
        if cfg.rr:
            kw['rr_name'] = rr_name or 'n'
        if is_dir:
            iso.add_directory(iso_path='/' + iso_name, **kw)
            rec = iso.get_record(iso_path='/' + iso_name)
        else:
            iso.add_fp(io.BytesIO(b'x'), 1, iso_path='/' + iso_name, **kw)
            rec = iso.get_record(iso_path='/' + iso_name)
        dot = iso.get_record(iso_path='/')
        root = iso.pvd.root_directory_record()
        return rec.dr_len, root.children[0].dr_len, root.children[1].dr_len
    finally:
        iso.close()


def file_ident(cfg, k, length):
    """a legal, distinct file identifier whose name part has about `length` characters"""
    if cfg.level == 1:
        base = ('F%07d' % k)[:8]
        return base + '.;1'
    stem = 'F%05d' % k
    stem = stem + 'X' * max(0, length - len(stem))
    return stem + '.;1'


def exact_fill(cfg, rng, delta=0, in_subdir=True):
    """A directory whose records fill its first block exactly (delta = 0), or with one record
    fewer / more (delta = -1 / +1)."""
    ops, sizes = [], {}
    lengths = [8] if cfg.level == 1 else [6, 7, 8, 9, 10, 11, 12, 14, 16, 20, 24, 28]
    table = {}
    rrn = 'r'
    for ln in lengths:
        ident = file_ident(cfg, 1, ln)
        d, dot, dotdot = _probe_dr_len(cfg, ident, rrn)
        table[d] = ln
    # subdirectory dot/dotdot lengths: probe inside a subdirectory
    iso = cfg.new()
    try:
        kw = {'rr_name': 'sub'} if cfg.rr else {}
        iso.add_directory(iso_path='/SUB', **kw)
        sub = iso.get_record(iso_path='/SUB')
        base = sub.children[0].dr_len + sub.children[1].dr_len if in_subdir else \
            iso.pvd.root_directory_record().children[0].dr_len + iso.pvd.root_directory_record().children[1].dr_len
    finally:
        iso.close()
    target = LBS - base
    if not in_subdir:
        target -= 0
    # coin change over record lengths (<= 80 records)
    sizes_avail = sorted(table)
    best = None
    for a in sizes_avail:
        for b in sizes_avail:
            for na in range(0, 81):
                rest = target - na * a
                if rest < 0:
                    break
                if rest % b == 0 and na + rest // b <= 80:
                    best = [(a, na), (b, rest // b)]
                    break
            if best:
                break
        if best:
            break
    if best is None:
        return None
    parent = '/SUB' if in_subdir else ''
    if in_subdir:
        op = {'k': 'add_dir', 'iso': '/SUB'}
        if cfg.rr:
            op['rr'] = 'sub'
        ops.append(op)
    k = 0
    recs = []
    for (d, n) in best:
        for _ in range(n):
            k += 1
            recs.append(table[d])
    if delta < 0:
        recs = recs[:-1]
    elif delta > 0:
        recs.append(recs[-1])
    for i, ln in enumerate(recs):
        op = {'k': 'add_fp', 'blob': i + 1, 'size': 1, 'iso': parent + '/' + file_ident(cfg, i + 1, ln)}
        if cfg.rr:
            op['rr'] = rrn
        sizes[i + 1] = 1
        ops.append(op)
    # a directory that sorts after, so that whatever follows the block is another object
    op = {'k': 'add_dir', 'iso': '/ZDIR'}
    if cfg.rr:
        op['rr'] = 'zdir'
    ops.append(op)
    return ops, sizes


def ptable_boundary(cfg, rng, dup_at=None, churn=True):
    """Directories until the path table crosses 4096 bytes, optional duplicate_pvd before the
    crossing, then removals and re-additions across the boundary."""
    ops = []
    name_len = 8 if cfg.level == 1 else 15
    rec = 8 + name_len + (name_len % 2)
    n_cross = (4096 - 10) // rec + 1            # this many top-level dirs make the table > 4096
    per_top = 12
    names = []
    tops = max(2, n_cross // (per_top + 1) + 1)
    count = 0
    for t in range(tops):
        top = ('T%07d' % t)[:name_len] if cfg.level == 1 else ('T%02d' % t).ljust(name_len, 'X')
        names.append('/' + top)
        count += 1
        for s in range(per_top):
            if count >= n_cross + 3:
                break
            sub = ('S%07d' % s)[:name_len] if cfg.level == 1 else ('S%02d' % s).ljust(name_len, 'Y')
            names.append('/' + top + '/' + sub)
            count += 1
    dup_at = n_cross - 2 if dup_at is None else dup_at
    for i, p in enumerate(names):
        if dup_at >= 0 and i == dup_at:
            ops.append({'k': 'dup_pvd'})
        op = {'k': 'add_dir', 'iso': p}
        if cfg.rr:
            op['rr'] = 'd%d' % i
        if cfg.joliet:
            op['jol'] = '/' + '/'.join('j' + c for c in p.strip('/').split('/'))
        ops.append(op)
    if churn:
        leaves = [p for p in names if p.count('/') == 2][-6:]
        for p in leaves:
            op = {'k': 'rm_dir', 'iso': p}
            if cfg.joliet:
                op['jol'] = '/' + '/'.join('j' + c for c in p.strip('/').split('/'))
            ops.append(op)
        for i, p in enumerate(leaves[:4]):
            op = {'k': 'add_dir', 'iso': p}
            if cfg.rr:
                op['rr'] = 'again%d' % i
            if cfg.joliet:
                op['jol'] = '/' + '/'.join('j' + c for c in p.strip('/').split('/'))
            ops.append(op)
    return ops, {}


def _ce_len(cfg, rr_name, is_dir=True):
    iso = cfg.new()
    try:
        iso.add_directory(iso_path='/PROBE', rr_name=rr_name)
        rec = iso.get_record(iso_path='/PROBE')
        ce = rec.rock_ridge.dr_entries.ce_record
        return ce.len_cont_area if ce is not None else 0
    finally:
        iso.close()


def ce_gap(cfg, rng, delta=1):
    """Rock Ridge: three directories whose long names share one continuation block; the middle one
    is removed (rm_directory frees its continuation area) and a directory whose continuation area
    is `delta` bytes longer than the freed gap is added."""
    if not cfg.rr:
        return None
    base = 180 + rng.randrange(0, 30)
    n1, n2, n3 = 'a' * base, 'b' * (base + 10), 'c' * (base + 20)
    l2 = _ce_len(cfg, n2)
    if not l2:
        return None
    # find a name whose continuation length is l2 + delta
    want = l2 + delta
    cand = None
    for ln in range(max(1, base + 10 + delta - 6), base + 10 + delta + 7):
        if _ce_len(cfg, 'd' * ln) == want:
            cand = 'd' * ln
            break
    if cand is None:
        return None
    ops = [{'k': 'add_dir', 'iso': '/DIRA', 'rr': n1}, {'k': 'add_dir', 'iso': '/DIRB', 'rr': n2},
           {'k': 'add_dir', 'iso': '/DIRC', 'rr': n3}, {'k': 'rm_dir', 'iso': '/DIRB'},
           {'k': 'add_dir', 'iso': '/DIRD', 'rr': cand}]
    return ops, {}


def big_records(cfg, rng, n=80, removals=3):
    """Level-4 records of 228 bytes (8 per block): many blocks with unusable tails, then removals."""
    if cfg.level != 4:
        return None
    ops, sizes = [], {}
    op = {'k': 'add_dir', 'iso': '/BIG'}
    if cfg.rr:
        op['rr'] = 'big'
    ops.append(op)
    ln = 195 if not (cfg.rr or cfg.xa) else 150
    for i in range(n):
        op = {'k': 'add_fp', 'blob': i + 1, 'size': 1, 'iso': '/BIG/' + ('%03d' % i) + 'n' * (ln - 3)}
        if cfg.rr:
            op['rr'] = 'b%d' % i
        sizes[i + 1] = 1
        ops.append(op)
    op = {'k': 'add_dir', 'iso': '/ZDIR'}
    if cfg.rr:
        op['rr'] = 'zdir'
    ops.append(op)
    for j in range(removals):
        i = rng.randrange(n)
        ops.append({'k': 'rm_file', 'ns': 'iso', 'path': '/BIG/' + ('%03d' % i) + 'n' * (ln - 3)})
    return ops, sizes


def deep_tree(cfg, rng, depth=10):
    """Rock Ridge relocation: a chain deeper than eight levels with files at several depths."""
    if not cfg.rr:
        return None
    ops, sizes = [], {}
    p = ''
    blob = 0
    for d in range(depth):
        p = p + '/D%d' % d
        ops.append({'k': 'add_dir', 'iso': p, 'rr': 'dir%d' % d})
        if d % 3 == 2 or d >= 7:
            blob += 1
            sizes[blob] = 5
            ops.append({'k': 'add_fp', 'blob': blob, 'size': 5, 'iso': p + '/F%d.;1' % d, 'rr': 'file%d' % d})
    return ops, sizes


def reloc_churn(cfg, rng):
    """Rock Ridge relocation under removal and re-creation: a chain of depth 7, relocated directories below it, all of
    them removed (RR_MOVED disappears with the last one) and some added again, files inside; sometimes a user-made
    /RR_MOVED exists first (it must then be used)"""
    if not cfg.rr:
        return None
    ops, sizes = [], {}
    if rng.random() < 0.4:
        ops.append({'k': 'add_dir', 'iso': '/RR_MOVED', 'rr': 'rr_moved'})
    p = ''
    for d in range(7):
        p = p + '/E%d' % d
        ops.append({'k': 'add_dir', 'iso': p, 'rr': 'e%d' % d})
    names = ['H', 'I', 'J'][:rng.randrange(1, 4)]
    longn = rng.random() < 0.5      # relocated directories whose names need a continuation area (placeholder AND real record)
    for n in names:
        ops.append({'k': 'add_dir', 'iso': p + '/' + n, 'rr': n.lower() * (230 if longn else 1)})
    order = list(names)
    rng.shuffle(order)
    for n in order:
        ops.append({'k': 'rm_dir', 'iso': p + '/' + n})
    again = names[:rng.randrange(1, len(names) + 1)]
    for n in again:
        ops.append({'k': 'add_dir', 'iso': p + '/' + n, 'rr': n.lower() + '2'})
    sizes[1] = 7
    ops.append({'k': 'add_fp', 'blob': 1, 'size': 7, 'iso': p + '/' + again[0] + '/INSIDE.;1', 'rr': 'inside'})
    if rng.random() < 0.5:
        ops.append({'k': 'add_dir', 'iso': p + '/' + again[0] + '/SUB', 'rr': 'sub'})
    return ops, sizes


def reloc_same_names(cfg, rng):
    """Rock Ridge relocation of directories with EQUAL names of the maximum length from different parents: inside RR_MOVED
    the library must invent distinct identifiers that still obey the rules of the interchange level"""
    if not cfg.rr or (cfg.level != 1 and rng.random() < 0.7):      # level 1 is where the length rule bites
        return None
    ops = []
    name = 'ABCDEFGH' if cfg.level == 1 else 'ABCDEFGH' * 3 + 'ABCDEFG'
    tops = ['A', 'B', 'C'][:rng.randrange(2, 4)]
    for top in tops:
        p = '/' + top
        ops.append({'k': 'add_dir', 'iso': p, 'rr': top.lower()})
        for n in 'DEFGHI':
            p += '/' + n
            ops.append({'k': 'add_dir', 'iso': p, 'rr': n.lower()})
        ops.append({'k': 'add_dir', 'iso': p + '/' + name, 'rr': 'deep-' + top.lower()})
    return ops, {}


def udf_fid_cross(cfg, rng, n=60):
    """UDF: enough names in one directory to push the identifier area across a block, then removals."""
    if not cfg.udf:
        return None
    ops, sizes = [], {}
    ops.append({'k': 'add_dir', 'udf': '/udir'})
    for i in range(n):
        sizes[i + 1] = i % 3
        ops.append({'k': 'add_fp', 'blob': i + 1, 'size': i % 3, 'udf': '/udir/name-%03d-%s' % (i, 'x' * (i % 17))})
    for j in range(4):
        i = rng.randrange(n)
        ops.append({'k': 'rm_link', 'ns': 'udf', 'path': '/udir/name-%03d-%s' % (i, 'x' * (i % 17))})
    return ops, sizes


def udf_fid_churn(cfg, rng):
    """UDF: the identifier area of one directory grows past a block, shrinks back into one block by removals and grows past the
    block again (and once more); every crossing in either direction must move the partition size"""
    if not cfg.udf:
        return None
    ops, sizes = [], {}
    ops.append({'k': 'add_dir', 'udf': '/churn'})

    def nm(i):
        return '/churn/n%03d-%s' % (i, 'y' * (i % 9))
    k = 0
    live = []

    def add(n):
        nonlocal k
        for _ in range(n):
            k += 1
            sizes[k] = k % 2
            ops.append({'k': 'add_fp', 'blob': k, 'size': k % 2, 'udf': nm(k)})
            live.append(k)

    def rm(n):
        for _ in range(min(n, len(live))):
            i = live.pop(rng.randrange(len(live)))
            ops.append({'k': 'rm_link', 'ns': 'udf', 'path': nm(i)})
    add(rng.randrange(44, 52))     # ~48 bytes per descriptor: past 2048
    rm(rng.randrange(12, 30))      # back into one block
    add(rng.randrange(14, 34))     # past the block again
    if rng.random() < 0.5:
        rm(rng.randrange(12, 30))
        add(rng.randrange(14, 34))
    if rng.random() < 0.5:
        rm(max(0, len(live) - rng.randrange(5, 30)))      # end in the shrunk state: one block again
    return ops, sizes


def boot_hide_after_reopen(cfg, rng):
    """El Torito boot file with names in every namespace; image reopened; then every file-system name of the boot
    file is removed (a documented way to hide it); optionally rm_eltorito afterwards.  Returns (ops, sizes, reopen_points)"""
    ops, sizes = [], {1: 2049, 2: 7}
    op = {'k': 'add_fp', 'blob': 1, 'size': 2049, 'iso': '/BOOT.;1'}
    if cfg.rr:
        op['rr'] = 'boot'
    if cfg.joliet:
        op['jol'] = '/boot'
    if cfg.udf:
        op['udf'] = '/boot'
    ops.append(op)
    op2 = {'k': 'add_fp', 'blob': 2, 'size': 7, 'iso': '/OTHER.;1'}
    if cfg.rr:
        op2['rr'] = 'other'
    ops.append(op2)
    cat = {'k': 'add_eltorito', 'bootfile': '/BOOT.;1', 'catalog': '/BOOT.CAT;1'}
    if cfg.rr:
        cat['rr'] = 'boot.cat'
    if cfg.joliet:
        cat['jol'] = '/boot.cat'
    if cfg.udf:
        cat['udf'] = '/boot.cat'
    ops.append(cat)
    rp = [len(ops)]
    names = [('iso', '/BOOT.;1')] + ([('jol', '/boot')] if cfg.joliet else []) + ([('udf', '/boot')] if cfg.udf else [])
    rng.shuffle(names)
    for ns, p in names:
        ops.append({'k': 'rm_link', 'ns': ns, 'path': p})
    if rng.random() < 0.5:
        ops.append({'k': 'rm_eltorito'})
    return ops, sizes, rp


def boot_partial_names(cfg, rng):
    """El Torito boot file with names in every namespace; a proper SUBSET of its names is removed (possibly all ISO9660
    ones, leaving only Joliet / UDF names), then rm_eltorito: the content must live on under the names that are left, and
    go away with the last of them.  Optional reopen before the removals.  Returns (ops, sizes, reopen_points)"""
    ops, sizes = [], {1: rng.choice([64, 2049, 5000]), 2: 7}
    op = {'k': 'add_fp', 'blob': 1, 'size': sizes[1], 'iso': '/BOOT.;1'}
    if cfg.rr:
        op['rr'] = 'boot'
    if cfg.joliet:
        op['jol'] = '/boot'
    if cfg.udf:
        op['udf'] = '/boot'
    ops.append(op)
    op2 = {'k': 'add_fp', 'blob': 2, 'size': 7, 'iso': '/OTHER.;1'}
    if cfg.rr:
        op2['rr'] = 'other'
    ops.append(op2)
    cat = {'k': 'add_eltorito', 'bootfile': '/BOOT.;1', 'catalog': '/BOOT.CAT;1'}
    if cfg.rr:
        cat['rr'] = 'boot.cat'
    if cfg.joliet:
        cat['jol'] = '/boot.cat'
    ops.append(cat)
    rp = [len(ops)] if rng.random() < 0.4 else []
    names = [('iso', '/BOOT.;1')] + ([('jol', '/boot')] if cfg.joliet else []) + ([('udf', '/boot')] if cfg.udf else [])
    keep = rng.randrange(1, len(names)) if len(names) > 1 else 0
    rng.shuffle(names)
    if rng.random() < 0.6 and ('iso', '/BOOT.;1') in names[:keep] and len(names) > 1:
        # make sure the ISO9660 name is among the removed ones most of the time
        names.remove(('iso', '/BOOT.;1'))
        names.append(('iso', '/BOOT.;1'))
    for ns, p in names[keep:]:
        ops.append({'k': 'rm_link', 'ns': ns, 'path': p})
    ops.append({'k': 'rm_eltorito'})
    op3 = {'k': 'add_fp', 'blob': 3, 'size': 2048, 'iso': '/AFTER.;1'}
    sizes[3] = 2048
    if cfg.rr:
        op3['rr'] = 'after'
    ops.append(op3)
    if rng.random() < 0.5:
        for ns, p in names[:keep]:
            ops.append({'k': 'rm_link', 'ns': ns, 'path': p})
    return ops, sizes, rp


def same_name_links(cfg, rng):
    """hard links that carry the SAME identifier in different directories (records compare equal field by field),
    then removal of one of them; more edits afterwards that move data around"""
    ops, sizes = [], {1: 5000, 2: 3, 3: 2048}
    for d in ('/DOCS', '/BACKUP'):
        op = {'k': 'add_dir', 'iso': d}
        if cfg.rr:
            op['rr'] = d.strip('/').lower()
        if cfg.joliet:
            op['jol'] = d.lower()
        ops.append(op)
    op = {'k': 'add_fp', 'blob': 1, 'size': 5000, 'iso': '/DOCS/README.TXT;1'}
    if cfg.rr:
        op['rr'] = 'readme.txt'
    if cfg.joliet:
        op['jol'] = '/docs/readme.txt'
    ops.append(op)
    which = rng.choice(['iso'] + (['jol'] if cfg.joliet else []))
    if which == 'iso':
        ln = {'k': 'add_link', 'src_ns': 'iso', 'src': '/DOCS/README.TXT;1', 'ns': 'iso', 'path': '/BACKUP/README.TXT;1'}
        if cfg.rr:
            ln['rr'] = 'readme.txt'
        rm = {'k': 'rm_link', 'ns': 'iso', 'path': rng.choice(['/BACKUP/README.TXT;1', '/DOCS/README.TXT;1'])}
    else:
        ln = {'k': 'add_link', 'src_ns': 'jol', 'src': '/docs/readme.txt', 'ns': 'jol', 'path': '/backup/readme.txt'}
        rm = {'k': 'rm_link', 'ns': 'jol', 'path': rng.choice(['/backup/readme.txt', '/docs/readme.txt'])}
    ops.append(ln)
    op = {'k': 'add_fp', 'blob': 2, 'size': 3, 'iso': '/AAA.;1'}
    if cfg.rr:
        op['rr'] = 'aaa'
    ops.append(op)
    ops.append(rm)
    rp = [len(ops)] if rng.random() < 0.5 else []
    op = {'k': 'add_fp', 'blob': 3, 'size': 2048, 'iso': '/AAB.;1'}
    if cfg.rr:
        op['rr'] = 'aab'
    ops.append(op)
    if rng.random() < 0.5:
        ops.append({'k': 'rm_file', 'ns': 'iso', 'path': '/AAA.;1'})
    return ops, sizes, rp


def fat_dir_churn(cfg, rng):
    """a directory spanning several blocks with mixed record lengths; then an add that lands in the SLACK of an early
    block (so that nothing after that block moves) followed by removals of entries of later blocks, and more adds:
    exercises the cached per-child positions and indices across insertions."""
    if cfg.level == 1:
        return None
    ops, sizes = [], {}
    d = '/FAT'
    op = {'k': 'add_dir', 'iso': d}
    if cfg.rr:
        op['rr'] = 'fat'
    ops.append(op)
    lens = {}
    for ln in (6, 14, 22, 28):
        lens[ln] = _probe_dr_len(cfg, file_ident(cfg, 101, ln), 'f000')[0]
    iso = cfg.new()
    try:
        kw = {'rr_name': 'sub'} if cfg.rr else {}
        iso.add_directory(iso_path='/SUB', **kw)
        sub = iso.get_record(iso_path='/SUB')
        base = sub.children[0].dr_len + sub.children[1].dr_len
    finally:
        iso.close()
    n = rng.randrange(60, 110)
    entries = []          # (sort key number, name length)
    for i in range(n):
        entries.append((100 + 2 * i, rng.choice((6, 14, 22, 28, 28))))
    # layout of the sorted directory (names sort by their number)
    def layout(ents):
        blocks, off, cur = [], base, []
        for num, ln in sorted(ents):
            x = lens[ln]
            if off + x > LBS:
                blocks.append((cur, LBS - off))
                cur, off = [], 0
            cur.append(num)
            off += x
        blocks.append((cur, LBS - off))
        return blocks
    for i, (num, ln) in enumerate(entries):
        op = {'k': 'add_fp', 'blob': i + 1, 'size': 3, 'iso': d + '/' + file_ident(cfg, num, ln)}
        if cfg.rr:
            op['rr'] = 'f%03d' % i
        sizes[i + 1] = 3
        ops.append(op)
    nb = n
    live = dict(entries)
    for _ in range(rng.randrange(2, 6)):
        blocks = layout(live.items())
        cands = [bi for bi, (nums, slack) in enumerate(blocks[:-1]) if slack >= lens[6] and len(nums) >= 2]
        if cands and rng.random() < 0.8:
            bi = rng.choice(cands)
            nums = blocks[bi][0]
            num = nums[rng.randrange(0, len(nums) - 1)] + 1          # odd: free, sorts inside this block
            if num in live:
                continue
            nb += 1
            live[num] = 6
            op = {'k': 'add_fp', 'blob': nb, 'size': 3, 'iso': d + '/' + file_ident(cfg, num, 6)}
            if cfg.rr:
                op['rr'] = 'g%03d' % nb
            sizes[nb] = 3
            ops.append(op)
            later = [x for (nums2, _) in blocks[bi + 1:] for x in nums2]
        else:
            later = [x for (nums2, _) in blocks[1:] for x in nums2]
        if later:
            num = rng.choice(later)
            ops.append({'k': 'rm_file', 'ns': 'iso', 'path': d + '/' + file_ident(cfg, num, live[num])})
            del live[num]
    return ops, sizes


LINK_RECIPES = {'boot_hide_after_reopen': boot_hide_after_reopen, 'same_name_links': same_name_links,
                'boot_partial_names': boot_partial_names}


def long_symlinks(cfg, rng, lo=None):
    """Rock Ridge symlinks whose targets cross every SL record / component boundary: a first component of every
    length around the room left in the directory record and in a 250-byte continuation piece, followed by more
    components; '.'/'..'/'' pieces; targets of many short components"""
    if not cfg.rr:
        return None
    ops = []
    lo = rng.randrange(100, 125) if lo is None else lo
    k = 0
    for L in range(lo, lo + 40):
        k += 1
        ops.append({'k': 'add_symlink_rr', 'iso': '/' + file_ident(cfg, k, 8), 'rr': 's%d' % k, 'target': 'a' * L + '/b'})
    for tgt in ('a' * 248 + '/b/c', 'a' * 249 + '/b', 'a' * 250 + '/b', 'a' * 251 + '/b', 'x' * 300 + '/' + 'y' * 270,
                '/'.join(['ab'] * 40), '/'.join(['a'] * 90), '/abs/' + 'p' * 130 + '/q', '../up/' + 'u' * 128 + '/v',
                './' + 'h' * 127 + '/i', 'a//b', 'trail/', '/'):
        k += 1
        ops.append({'k': 'add_symlink_rr', 'iso': '/' + file_ident(cfg, k, 8), 'rr': 's%d' % k, 'target': tgt})
    return ops, {}


def symlink_ce_release(cfg, rng):
    """Rock Ridge symlinks (and long-named files) whose entries live in a continuation area, removed again by rm_file
    and by rm_hard_link in changing order: every continuation entry and every continuation block that the adds took
    must be released (declared size = end of the layout), gaps must be reused by later adds"""
    if not cfg.rr:
        return None
    ops = []
    n = rng.randrange(9, 14)
    for k in range(n):
        tgt = '/'.join(['x' * rng.randrange(30, 60)] * rng.randrange(5, 9))
        ops.append({'k': 'add_symlink_rr', 'iso': '/' + file_ident(cfg, k, 8), 'rr': 'sym%d' % k, 'target': tgt})
    order = list(range(n))
    rng.shuffle(order)
    all_gone = rng.random() < 0.6       # then no continuation block may remain
    keep = 0 if all_gone else rng.randrange(1, 3)
    for j, k in enumerate(order[:n - keep]):
        ops.append({'k': 'rm_file' if j % 3 else 'rm_link', 'ns': 'iso', 'path': '/' + file_ident(cfg, k, 8)})
    for k in range(n, n + (0 if all_gone else rng.randrange(0, 3))):
        ops.append({'k': 'add_symlink_rr', 'iso': '/' + file_ident(cfg, k, 8), 'rr': 'sym%d' % k, 'target': 't' * 200 + '/u'})
    return ops, {}


def ce_second_block_release(cfg, rng):
    """Rock Ridge: so many long-named files that a SECOND continuation block is needed, then exactly the entries of a later
    block are removed again WITHOUT any mastering in between (all blocks still carry their placeholder extent): the emptied
    block -- and only it -- must be released; the survivors' continuation areas must still be found"""
    if not cfg.rr:
        return None
    ops, sizes = [], {}
    n = rng.randrange(12, 20)           # names of ~240 bytes: about 8 continuation entries per block
    for k in range(n):
        sizes[k + 1] = 3
        ops.append({'k': 'add_fp', 'blob': k + 1, 'size': 3, 'iso': '/' + file_ident(cfg, k, 8), 'rr': ('n%02d-' % k) + 'x' * rng.randrange(236, 244)})
    m = rng.randrange(1, n - 8)         # remove the last m: they live in the last block(s)
    for k in range(n - 1, n - 1 - m, -1):
        ops.append({'k': 'rm_file' if k % 2 else 'rm_link', 'ns': 'iso', 'path': '/' + file_ident(cfg, k, 8)})
    return ops, sizes


def udf_fid_exact(cfg, rng):
    """UDF directory whose File Identifier Descriptors end exactly on a 2048-byte boundary, with more entries after it:
    parent FID 40 bytes, names of 2..5 bytes -> 44, names of 6..9 bytes -> 48: 40 + 2*44 + 40*48 = 2048"""
    if not cfg.udf:
        return None
    ops, sizes = [], {}
    d = rng.choice(['', '/ud'])
    if d:
        ops.append({'k': 'add_dir', 'udf': d})
    k = 0
    names = ['ab%02d' % i for i in range(2)] + ['name%04d' % i for i in range(40)] + ['z%d' % i for i in range(rng.randrange(1, 5))]
    for nm in names:
        k += 1
        sizes[k] = k % 3
        ops.append({'k': 'add_fp', 'blob': k, 'size': k % 3, 'udf': d + '/' + nm})
    return ops, sizes


def udf_symlinks(cfg, rng):
    """UDF symlinks whose targets hold Latin-1, CJK and Cyrillic components, '.', '..', absolute paths"""
    if not cfg.udf or cfg.rr:
        return None
    ops, sizes = [], {}
    tg = ['foo', '/abs/path', '../up/x', 'a/b/c', '中文/файл', 'dir/\u65e5\u672c/x', 'é/ü', '/\u4e2d', 'x' * 100 + '/\u0444', 'a//b', 'trail/', 'c/./d//e/']
    for i, t in enumerate(tg):
        ops.append({'k': 'add_symlink_udf', 'iso': '/' + file_ident(cfg, i + 1, 8), 'udf': '/sym%d' % i, 'target': t})
    return ops, sizes

def multi_name_file(cfg, rng):
    """one content with several names in every namespace the image has (links in ISO9660, two in Joliet, UDF)"""
    ops, sizes = [], {1: rng.choice([1, 100, 2047, 2048, 3000, 5000]), 2: 7}
    for d in ('/DIRA', '/DIRB'):
        op = {'k': 'add_dir', 'iso': d}
        if cfg.rr:
            op['rr'] = d.strip('/').lower()
        if cfg.joliet:
            op['jol'] = d.lower()
        if cfg.udf:
            op['udf'] = d.lower()
        ops.append(op)
    op = {'k': 'add_fp', 'blob': 1, 'size': sizes[1], 'iso': '/DIRA/FOO.;1'}
    if cfg.rr:
        op['rr'] = 'foo'
    if cfg.joliet:
        op['jol'] = '/dira/foo'
    if cfg.udf:
        op['udf'] = '/dira/foo'
    ops.append(op)
    ln = {'k': 'add_link', 'src_ns': 'iso', 'src': '/DIRA/FOO.;1', 'ns': 'iso', 'path': '/DIRB/BARBAZ.TXT;1'}
    if cfg.rr:
        ln['rr'] = 'barbaz.txt'
    ops.append(ln)
    if cfg.joliet:
        ops.append({'k': 'add_link', 'src_ns': 'jol', 'src': '/dira/foo', 'ns': 'jol', 'path': '/dirb/a longer joliet name'})
        ops.append({'k': 'add_link', 'src_ns': 'iso', 'src': '/DIRA/FOO.;1', 'ns': 'jol', 'path': '/third'})
    if cfg.udf:
        ops.append({'k': 'add_link', 'src_ns': 'udf', 'src': '/dira/foo', 'ns': 'udf', 'path': '/dirb/udf link'})
    op = {'k': 'add_fp', 'blob': 2, 'size': 7, 'iso': '/OTHER.;1'}
    if cfg.rr:
        op['rr'] = 'other'
    ops.append(op)
    return ops, sizes

RECIPES = {
    'exact_fill': lambda cfg, rng: exact_fill(cfg, rng, 0, True),
    'exact_fill_root': lambda cfg, rng: exact_fill(cfg, rng, 0, False),
    'exact_fill_minus': lambda cfg, rng: exact_fill(cfg, rng, -1, True),
    'exact_fill_plus': lambda cfg, rng: exact_fill(cfg, rng, 1, True),
    'ptable_boundary': lambda cfg, rng: ptable_boundary(cfg, rng),
    'ptable_boundary_dup_late': lambda cfg, rng: ptable_boundary(cfg, rng, dup_at=10 ** 9),
    'ce_gap_plus': lambda cfg, rng: ce_gap(cfg, rng, 1),
    'ce_gap_exact': lambda cfg, rng: ce_gap(cfg, rng, 0),
    'ce_gap_minus': lambda cfg, rng: ce_gap(cfg, rng, -1),
    'big_records': lambda cfg, rng: big_records(cfg, rng),
    'fat_dir_churn': lambda cfg, rng: fat_dir_churn(cfg, rng),
    'multi_name_file': lambda cfg, rng: multi_name_file(cfg, rng),
    'deep_tree': lambda cfg, rng: deep_tree(cfg, rng),
    'reloc_churn': lambda cfg, rng: reloc_churn(cfg, rng),
    'reloc_same_names': lambda cfg, rng: reloc_same_names(cfg, rng),
    'long_symlinks': lambda cfg, rng: long_symlinks(cfg, rng),
    'symlink_ce_release': lambda cfg, rng: symlink_ce_release(cfg, rng),
    'ce_second_block_release': lambda cfg, rng: ce_second_block_release(cfg, rng),
    'udf_fid_cross': lambda cfg, rng: udf_fid_cross(cfg, rng),
    'udf_fid_churn': lambda cfg, rng: udf_fid_churn(cfg, rng),
    'udf_fid_exact': lambda cfg, rng: udf_fid_exact(cfg, rng),
    'udf_symlinks': lambda cfg, rng: udf_symlinks(cfg, rng),
}


def make(name, cfg, rng):
    try:
        return RECIPES[name](cfg, rng)
    except Exception:
        return None
