"""Regenerates /verif/MANIFEST.json from the table below (kept valid at all times)."""
import json
import os

VERIF = os.path.dirname(os.path.dirname(os.path.abspath(__file__)))
ALL = ['C%02d' % i for i in range(1, 21)]

CLAIMS = {
 'C16': dict(
  category='proof',
  text=('Theorem C16_refines (Coq, closed under the global context): for every backing file, every set of streams '
        'over files inside it and every interleaved script of read/readall/readinto/seek/tell/close calls of any '
        'stream and arbitrary movements of the shared OS-level file position by other readers, every value returned '
        'by the model of PyCdlibIO equals what an in-memory stream over that file\'s content returns (refinement, '
        'unbounded in file size, number of streams and script length).  The model (Model/Stream.v, hand-written, '
        'statement by statement) is tied to /repo by a differential run on every check: generated scripts over '
        '1-3 open files on reopened ISO/Joliet/Rock Ridge and UDF images and on unwritten images are executed on the '
        'real PyCdlibIO, on the Coq model by vm_compute, and on the specification; whole-file extraction with '
        'block sizes 1/7/2048/8192 is compared with the supplied content.'),
  note=('Trusted: Coq kernel + vm_compute; the hand model and the harness; Python file-object semantics. '
        'Not modelled: short reads on truncated images, PyCdlibIO over a boot-info-table file, manage_fp=True (own fp per open).'),
  technique='Coq refinement proof (stream model -> in-memory stream spec) + model/implementation differential run',
  design='§8.16'), 'C19': dict(
  category='proof',
  text=('Theorems C19_offset, C19_decode_dr, C19_decode_vd, C19_decode_udf (Coq, closed): for EVERY instant t in '
        '1970-01-01..2099-12-31 and EVERY zone offset 900*q s, -48<=q<=56, in force at t, the TRANSLATED '
        'utils.gmtoffset_from_tm returns q, and the 7-byte (also Rock Ridge TF), 17-byte and UDF timestamps made '
        'from t decode (local fields minus recorded offset in the field\'s unit) to t exactly, fit their fields, '
        'and parse-then-record is the identity.  Pointwise in (t,q), so DST/year/leap boundaries are included. '
        'Proved from a vm_compute sweep of all 47487 days of the range (finite, bound in the statement) plus lia. '
        'Tie: gmtoffset_from_tm is regenerated from /repo on every run; the hand models of new/record/parse are '
        'compared byte-for-byte with pycdlib under ~40 (quick) / all ~600 (thorough) TZ settings x ~300-420 instants '
        '(every DST transition of each zone +-1s), and an independent decoder evaluates the property on the bytes.'),
  note=('Trusted: Coq kernel + vm_compute; translator; libc localtime modelled as gmtime(t+off) (validated per instant); '
        'VolumeDescriptorDate.new(0.0) is the documented "unspecified" sentinel and is excluded (theorem C19_vd_zero_is_unspecified). '
        'Offsets that are not multiples of 15 min (historic LMT) are outside the property and skipped (counted).'),
  technique='Coq proof over translated gmtoffset_from_tm + calendar sweep; byte-level model/implementation differential run over TZ x instants',
  design='§8.19'), 'C18': dict(
  category='proof',
  text=('Theorems C18_file_legal / C18_dir_legal (Coq, closed): for EVERY non-empty code-point string, every level 1-3 '
        'and EVERY upper-casing function that never returns the empty string, the identifier derived by the model of '
        'mangle_file_for_iso9660 / mangle_dir_for_iso9660 / truncate_basename is accepted by the model of '
        '_check_iso9660_filename / _check_iso9660_directory and satisfies the declarative legality predicate; '
        'C18_fixed_*: already-legal input is returned unchanged apart from ";1" (upper() identity on d-characters); '
        'C18_level4_partial + refuted witnesses state exactly where the full claim fails (level 4 names with ";", '
        'legal level-2/3 extensions > 3 and directory names > 31 characters: known findings).  The d-character set is '
        'TRANSLATED from /repo on every run.  Tie: the models are evaluated in Coq on ~35k (quick) / ~400k (thorough) '
        '(name, level, kind) triples and compared with the real helpers and checkers; the property itself is evaluated '
        'on the implementation with independent legality predicates, real add_fp/add_directory+write_fp edits and the '
        'Rock Ridge facade end to end.'),
  note=('Trusted: Coq kernel + vm_compute; translator (d1 set); hand model Names.v tied by differential run; '
        'str.upper treated as an arbitrary function; names are non-empty, without "/" or NUL, valid Unicode. '
        'Collision of two source names on one derived identifier is outside this property (C13/C20).'),
  technique='Coq proof of mangling legality for all strings and all upper() functions + model/implementation differential run',
  design='§8.18'),
}

NA_REASON = 'check not built yet (work in progress; see DESIGN.md section 8)'


def main():
    checks = []
    for pid in ALL:
        if pid not in CLAIMS:
            continue
        c = CLAIMS[pid]
        checks.append({
            'property_id': pid,
            'quick_cmd': './check %s --tier quick' % pid,
            'thorough_cmd': './check %s --tier thorough' % pid,
            'evidence_file': '/verif/evidence/%s.json' % pid,
            'replay_cmd_template': './check %s --replay {path}' % pid,
            'engine': 'coq+harness',
            'level_claimed': {'category': c['category'], 'text': c['text'], 'design_ref': 'DESIGN.md ' + c['design']},
            'level_note': c['note'],
            'technique': c['technique'],
        })
    m = {
        'version': 1,
        'setup_cmd': 'make -C /verif setup',
        'hooks': {'guard': 'PYCDLIB_VERIF',
                  'enable': 'no source hooks are used; checks run /venv/bin/python with PYTHONPATH=/repo on the working tree',
                  'baseline_off_cmd': 'cd /repo && /venv/bin/python -m pytest -ra -q -p no:cacheprovider --timeout=900 --continue-on-collection-errors',
                  'source_commits': [], 'add_only': True},
        'engines': [
            {'name': 'coq', 'path': '/verif/coq', 'serves_properties': sorted(CLAIMS), 'kind_free_text': 'Coq 8.16.1 development: models, proofs, property theorems (full .vo build)'},
            {'name': 'translator', 'path': '/verif/translator/translate.py', 'serves_properties': sorted(CLAIMS), 'kind_free_text': 'fail-closed Python-ast -> Gallina translator, regenerated on every run'},
            {'name': 'harness', 'path': '/verif/harness', 'serves_properties': sorted(CLAIMS), 'kind_free_text': 'correspondence (model vs implementation), property oracles on the implementation, failing-input search, evidence'},
        ],
        'checks': checks,
        'not_applicable': [{'property_id': p, 'reason': NA_REASON} for p in ALL if p not in CLAIMS],
        'notes': 'Fixes to /repo are separate fix: commits listed in known_findings.json; no hooks.',
    }
    with open(os.path.join(VERIF, 'MANIFEST.json'), 'w') as fp:
        json.dump(m, fp, indent=1)


if __name__ == '__main__':
    main()
