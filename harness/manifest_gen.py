"""Regenerates /verif/MANIFEST.json from the table below (kept valid at all times)."""
import json
import os

VERIF = os.path.dirname(os.path.dirname(os.path.abspath(__file__)))
ALL = ['C%02d' % i for i in range(1, 21)]

CLAIMS = {
 'C16': dict(
  category='proof',
  text=('Theorem C16_refines (Coq, closed under the global context): for every backing file, every set of streams '
        'over files inside it and every interleaved script of read/readall/readinto/seek/tell/close calls of any '
        'stream and arbitrary movements of the shared OS-level file position by other readers, every value returned '
        'by the model of PyCdlibIO equals what an in-memory stream over that file\'s content returns (refinement, '
        'unbounded in file size, number of streams and script length).  The model (Model/Stream.v, hand-written, '
        'statement by statement) is tied to /repo by a differential run on every check: generated scripts over '
        '1-3 open files on reopened ISO/Joliet/Rock Ridge and UDF images and on unwritten images are executed on the '
        'real PyCdlibIO, on the Coq model by vm_compute, and on the specification; whole-file extraction with '
        'block sizes 1/7/2048/8192 is compared with the supplied content.'),
  note=('The model IS the source: PyCdlibIO.seek / readall / read / readinto are TRANSLATED on every run (Gen/GenIO.v; self._fp.seek = the shared file position, self._fp.read = PyIO.py_fread) and '
        'C16_model_is_the_source proves Stream.do_seek/do_readall/do_read/do_readinto (repaired code) equal to them; dropping the seek before a read breaks the proof obligation (demonstrated).  '
        'Trusted: Coq kernel + vm_compute; the translator; the harness; Python file-object semantics. '
        'Not modelled: short reads on truncated images, PyCdlibIO over a boot-info-table file, manage_fp=True (own fp per open).'),
  technique='Coq refinement proof (stream model -> in-memory stream spec) + model/implementation differential run',
  design='§8.16'), 'C19': dict(
  category='proof',
  text=('Theorems C19_offset, C19_decode_dr, C19_decode_vd, C19_decode_udf (Coq, closed): for EVERY instant t in '
        '1970-01-01..2099-12-31 and EVERY zone offset 900*q s, -48<=q<=56, in force at t, the TRANSLATED '
        'utils.gmtoffset_from_tm returns q, and the 7-byte (also Rock Ridge TF), 17-byte and UDF timestamps made '
        'from t decode (local fields minus recorded offset in the field\'s unit) to t exactly, fit their fields, '
        'and parse-then-record is the identity.  Pointwise in (t,q), so DST/year/leap boundaries are included. '
        'Proved from a vm_compute sweep of all 47487 days of the range (finite, bound in the statement) plus lia. '
        'Tie: gmtoffset_from_tm is regenerated from /repo on every run; the hand models of new/record/parse are '
        'compared byte-for-byte with pycdlib under ~40 (quick) / all ~600 (thorough) TZ settings x ~300-420 instants '
        '(every DST transition of each zone +-1s), and an independent decoder evaluates the property on the bytes.'),
  note=('Trusted: Coq kernel + vm_compute; translator; libc localtime modelled as gmtime(t+off) (validated per instant); '
        'VolumeDescriptorDate.new(0.0) is the documented "unspecified" sentinel and is excluded (theorem C19_vd_zero_is_unspecified). '
        'Offsets that are not multiples of 15 min (historic LMT) are outside the property and skipped (counted).'),
  technique='Coq proof over translated gmtoffset_from_tm + calendar sweep; byte-level model/implementation differential run over TZ x instants',
  design='§8.19'), 'C18': dict(
  category='proof',
  text=('Theorems C18_file_legal / C18_dir_legal (Coq, closed): for EVERY non-empty code-point string, every level 1-3 '
        'and EVERY upper-casing function that never returns the empty string, the identifier derived by the model of '
        'mangle_file_for_iso9660 / mangle_dir_for_iso9660 / truncate_basename is accepted by the model of '
        '_check_iso9660_filename / _check_iso9660_directory and satisfies the declarative legality predicate; '
        'C18_fixed_*: already-legal input is returned unchanged apart from ";1" (upper() identity on d-characters); '
        'C18_level4_partial + refuted witnesses state exactly where the full claim fails (level 4 names with ";", '
        'legal level-2/3 extensions > 3 and directory names > 31 characters: known findings).  The d-character set is '
        'TRANSLATED from /repo on every run.  Tie: the models are evaluated in Coq on ~35k (quick) / ~400k (thorough) '
        '(name, level, kind) triples and compared with the real helpers and checkers; the property itself is evaluated '
        'on the implementation with independent legality predicates, real add_fp/add_directory+write_fp edits and the '
        'Rock Ridge facade end to end.'),
  note=('Trusted: Coq kernel + vm_compute; translator (d1 set); hand model Names.v tied by differential run; '
        'str.upper treated as an arbitrary function; names are non-empty, without "/" or NUL, valid Unicode. '
        'Collision of two source names on one derived identifier is outside this property (C13/C20).'),
  technique='Coq proof of mangling legality for all strings and all upper() functions + model/implementation differential run',
  design='§8.18'),
}

CLAIMS.update({
 'C01': dict(category='proof',
  text=('What "the sequence of edits implies" is made precise as a Coq specification (Spec/FsSpec.v: three namespaces as finite maps, '
        'blobs, hard links, El Torito catalog names, hidden flags, reopening).  Proved (closed): every reachable specification state is a '
        'well-formed file system (unique names, every entry inside an existing directory) for ALL edit histories, a refused edit changes '
        'nothing, add_fp binds exactly the names given and nothing else.  For images with ISO9660 level 3 + Joliet the library\'s OBJECT GRAPH '
        'is modelled as a state machine (Model/AccountNs.v) and proved to REFINE the specification for all histories: '
        'C01_object_graph_refines_the_specification, C01_api_view_is_the_specification_view (what the API can observe = the specification\'s view), '
        'C01_late_refusal_is_spec_refusal_with_leftover, C01_declared_sizes_exact_two_namespaces; that model is compared with the library after '
        'EVERY operation of random histories (outcome, both space sizes, both path tables, inode table, extents end, API views).  The claim about pycdlib in general -- the written-and-reopened image shows '
        'exactly the specification\'s view in every namespace, every file reads back its bytes, the image opens -- is decided by a '
        'differential run on every check: generated histories over a pairwise-covering configuration set are executed on the library, '
        'the final API view is compared with FsSpec.run evaluated INSIDE Coq (vm_compute), disagreements are shrunk and reported.'),
  note=('Level: refinement object graph -> specification proved for the ISO9660(level 3)+Joliet fragment (no Rock Ridge/UDF/El Torito, names ASCII, '
        'one extent per file); outside it the theorems are about the specification and pycdlib is tied to it by sampling (histories x configurations).  Trusted: Coq kernel + vm_compute, FsSpec.v as the reading of the property, harness generators/API view. '
        'ISO9660 paths <= 6 deep (relocation: C08); Rock Ridge names in bijection with ISO names.'),
  technique='Coq specification with invariant/frame theorems + differential run of pycdlib against the specification evaluated in Coq',
  design='§8.1'),
 'C02': dict(category='proof',
  text=('Same specification as C01 with an explicit Reopen step (write + open): proved frame theorems C02_rm_link_frame (rm_hard_link removes one '
        'name of one namespace and nothing else) and C02_rm_file_exact (rm_file removes exactly the names bound to the addressed content), '
        'well-formedness across any number of generations.  Tie: histories cut into 1-4 (thorough 1-8) generations at random points; every '
        'generation edits the image the previous one wrote; the final API view is compared with the specification of the whole history '
        'evaluated in Coq.'),
  note=('Added Model/Parse.v: pycdlib\'s OWN parser of the directory area (_walk_directories / DirectoryRecord.parse / the Inode table built on open), statement by statement, '
        'composed with the writer model Model/Master.v: for EVERY well-formed plain ISO9660 tree the opened object IS the object graph that wrote the image (C02_open_gives_the_object_graph_that_wrote, '
        'also from any larger medium), no raise statement is reached (C02_open_rejects_nothing_valid); for ANY image the parser accepts two file records share an Inode iff both have data and the same '
        'extent, every empty file gets its own Inode (C02_open_shares_inodes_iff_same_extent), truncated files carry the bytes that are left (C02_open_of_a_truncated_image_lengths; the code before fix '
        '10cfb30 is refuted); tied by parseleaf.py (the model parser run on the bytes the library wrote vs the object the library opened; open+write = identity).  '
        'Rock Ridge: Model/ParseRR.v (RockRidge.parse on every System Use / continuation area, the continuation-block table rebuilt on open, the version inference) composed with Model/MasterRR.v: '
        'for every edit history with distinct sibling identifiers the opened object is the writer\'s graph (C02_open_of_a_rock_ridge_image_gives_the_writers_graph) with the writer\'s version '
        '(C02_open_recognizes_the_rock_ridge_version); tied by parserrleaf.py (parsed graph read off the opened object; the same further edits on the original and on the reopened object).  '
        'El Torito: Model/BootParse.v, theorems in C11.  '
        'Reopen semantics in the specification: zero-length contents lose cross-namespace link identity on disc (stated in FsSpec.Reopen). '
        'No foreign-image corpus exists offline: only images pycdlib wrote are edited.  Trusted as for C01.'),
  technique='Coq specification with frame theorems + multi-generation differential run against the specification evaluated in Coq',
  design='§8.2'),
 'C03': dict(category='proof',
  text=('Proved for all inputs (closed): records packed by the model of DirectoryRecord._recalculate_extents_and_offsets never cross a block '
        'boundary nor overlap (C03_records_inside_blocks); the writer loop of _write_directory_records puts every record exactly at its cached '
        'place (C03_written_where_cached; false with >= instead of >: C03_writer_test_is_decisive); restarting the recomputation at an index is '
        'sound; after ANY sequence of insertions/removals a directory length is a whole number of blocks covering its records '
        '(C03_dir_length_inv, via insert_le1 / remove_le0); path-table extents = 2*ceil(size/4096) after any add/remove sequence and the removal '
        'path never raises (C03_ptr_extents_inv, on the TRANSLATED add_to_ptr_size/remove_from_ptr_size/ceiling_div).  The packing model IS the source: '
        '_recalculate_extents_and_offsets is TRANSLATED on every run (object lists read/written attribute-wise) and C03_recalculate_is_the_model proves the '
        'generated function equal to Pack.nf/nf_pos from any restart index with any stale cache.  Model/PathTable.v (breadth-first directory numbering, '
        'extents and the written path table of _reassign_vd_dirrecord_extents / _write_directory_records): for EVERY tree the numbers are 1..n in BFS order with correct parent '
        'numbers, the table is sorted by (level, parent, identifier), extents are consecutive, and a reader rebuilds every path from the table alone (C03_path_table_*; the '
        'ECMA padding order is refuted for identifiers with bytes below 0x20).  Model/Master.v: the BYTES of every directory extent of a plain ISO9660 image as _write_directory_records emits them, '
        'and an independent mount-style reader: for EVERY well-formed tree the reader recovers names, kinds, lengths and extents (C03_reader_recovers_the_mastered_tree, also from any larger image), the '
        'directory extents are pairwise disjoint and exactly the directories, `.` and `..` carry the extent and length of the directory itself and of its parent (masterleaf.py: the model\'s bytes = the '
        'extents cut out of images written by the library, and the model\'s reader run on the library\'s bytes).  Tie: ptableleaf.py on the hierarchies of generated images; translator validation run + Pack.v vs the real '
        'method on an exhaustive small-block grid + insert/remove edits + positions decoded from real images (judged in Coq).  The property itself: '
        'every generated image (random histories + boundary recipes: block filled exactly, path table crossing 4 KiB with duplicate PVDs, ...) is '
        'decoded by an independent reader checking every listed ECMA-119 rule and compared with the API tree and contents of both the writing and a reopened object.'),
  note=('Trusted: Coq kernel + vm_compute; translator; hand model Pack.v tied by leaf runs; harness/reader.py (independent, stdlib only). '
        'Descriptor-set/both-endian/sort-order/dot-dotdot rules are decided by the reader on sampled images, not by a theorem.  Equal names are '
        'accepted in any version order.'),
  technique='Coq proofs over packing model and translated path-table accounting + independent-reader oracle on generated images',
  design='§8.3'),
 'C04': dict(category='proof',
  text=('Proved for all inputs (closed): a bump allocation (the discipline of _reshuffle_extents: current extent, advance by size) places every two '
        'objects disjointly and inside [start, start+sum) whatever the traversal order (C04_bump_disjoint/_inside); the sizes suffice: translated '
        'ceiling_div covers the bytes, a directory\'s blocks cover its records, the path-table reservation covers the table; the Rock Ridge '
        'continuation allocator (model of RockRidgeContinuationBlock.add_entry/remove_entry/track_entry and add_rr_ce_entry) keeps entries pairwise '
        'disjoint and inside the block for EVERY add/remove history (C04_ce_blocks_inv) and the off-by-one gap variant is refuted.  The two ways of '
        'computing the allocation agree: Model/Account.v is a state machine of the plain ISO9660 core (directory tree, file lengths, path table, '
        'space_size; add_fp/add_directory/rm_file/rm_directory with exactly the per-edit byte deltas of the source) and C04_declared_size_is_exact proves '
        'space = end of the from-scratch layout for EVERY history, objects disjoint and inside, refused edits change nothing.  Model/AccountRR.v does the same WITH Rock Ridge '
        '(record lengths and continuation needs from RRPlace.place, continuation blocks from CeAlloc, add_symlink, versions 1.09/1.10/1.12): C04_rr_declared_size_is_exact, '
        'C04_rr_continuation_entries_sound (every entry of every tracked block is owned by exactly one live record, areas inside 2048 bytes and disjoint, no empty block tracked), '
        'C04_rr_refused_edit_changes_nothing; the code before fix 958cd03 is refuted (rm_file of a symlink kept its continuation entry; reproduced, repaired).  Tie: allocator and '
        'packing models vs the real objects on exhaustive small-block sequences; Account.run_probe/flags/ends and AccountRR.run_obs (counters, every continuation block\'s entries and extent, end of layout) vs the library after EVERY operation of random histories.  The property itself on every generated image: objects decoded by '
        'the independent reader pairwise disjoint and inside the declared size, image length exact, write log of the mastering run free of double '
        'writes (except the boot-info patch), data extents shared iff linked.'),
  note=('The accounting of UDF / El Torito / relocation edits is NOT modelled in C04 (Account.v / AccountRR.v: one name per content, files of one '
        'extent, depth <= 7; hard links and Joliet are in C07 AccountLinks.v / C01 AccountNs.v, the UDF partition in C10 UdfLayout.v); for them under-/over-declaration is decided on the sampled images (length, bounds, overlaps, failed writes, and the '
        'trailing-slack rule: the declared size ends where the last object ends). '
        'Trusted: Coq kernel, translator, hand models tied by leaf runs, reader segment map, recording sink.'),
  technique='Coq proofs (bump allocation, CE allocator invariant, translated size functions) + reader/write-log oracle on generated images',
  design='§8.4'),
 'C06': dict(category='proof',
  text=('Theorem C06_bytes_depend_only_on_edits (closed): in the state machine of PyCdlib\'s deferred recomputation (Model/Lazy.v), for ANY object '
        'graph, mutation, recomputation and mastering functions, any two schedules (lazy / always-consistent, force_consistency, record queries, '
        'walks and extra writes interleaved anywhere) with the same edits produce the same image, and every intermediate write is the from-scratch '
        'image of the edits so far -- under the single hypothesis that an accepted edit either flags the metadata stale or does not influence it; '
        'C06_flag_hypothesis_necessary refutes the claim without it.  Tie: that hypothesis is validated against PyCdlib._needs_reshuffle after EVERY call '
        'of generated schedules (flag trace computed by the model in Coq).  The property itself: every history mastered under 4 (thorough 12) '
        'schedules, byte comparison; record queries after force_consistency compared with extents decoded from the image written next.'),
  note=('_reshuffle_extents is treated as a function of the object graph (its purity/idempotence is exercised by the k-schedule byte comparison, not proved). '
        'Trusted: Coq kernel + vm_compute, Lazy.v tied by the flag-trace run, harness/reader.py.'),
  technique='Coq proof of schedule independence over the lazy-recomputation state machine + flag-trace correspondence + k-schedule byte comparison',
  design='§8.6'),
})

CLAIMS.update({
 'C05': dict(category='proof',
  text=('Proved for all values (closed): the parse/record codecs of the core structures are mutually inverse -- directory records (C05_dr_roundtrip, '
        'C05_dr_record_parse_record: what parse returns records to the same bytes; false for arbitrary foreign bytes: _refuted), path table records in both '
        'byte orders, both-byte-order integers, 7-byte dates; a record fits iff dr_len <= 255 and fields in range.  The model (Model/Codec.v) splits and '
        'joins fields with the struct layouts TRANSLATED from the FMT strings of /repo, and is compared byte for byte with DirectoryRecord.record / '
        'PathTableRecord.record_*_endian on every record of generated images plus extreme field values.  The whole-image fixpoint for every structure the '
        'library knows (Rock Ridge incl. version inference, Joliet, XA, El Torito, UDF, isohybrid MBR/GPT/APM) is evaluated directly: open+write twice, '
        'bytes compared except volume-modification dates, on every generated image incl. boundary recipes and SL-boundary symlinks.'),
  note=('Added Model/Parse.v + Model/Master.v: for EVERY well-formed plain ISO9660 tree, mastering the tree of the opened object reproduces the directory area byte for byte with the same layout '
        '(C05_remaster_fixpoint_every_tree) and write_fp of the opened, unedited object gives the image back (C05_reopen_write_fixpoint_every_tree); tied by parseleaf.py.  Added model VolDesc.v (PVD / Joliet SVD / enhanced VD / terminator / boot record codecs, 17-byte dates, both-endian discipline, space counters): C05_vd_roundtrip (identity except the modification date that record() stamps), C05_vd_parse_rejects_altered_half; tied by vdleaf.py on the descriptor sectors of generated images. Rock Ridge / UDF / El Torito / hybrid parse-record pairs are NOT modelled in Coq; for them the fixpoint is sampled.  Trusted: Coq kernel + vm_compute, '
        'translator (FMT layouts), hand model tied by leaf run, pinned time.time.'),
  technique='Coq round-trip proofs for record codecs over translated layouts + byte-level leaf run + open/write fixpoint on generated images',
  design='§8.5'),
 'C07': dict(category='proof',
  text=('Proved (closed) on the specification, where the multiplicity of a blob in live_blobs is its reference count (names in any namespace + El Torito '
        'entries): add_hard_link adds exactly one reference; rm_hard_link removes exactly one name and one reference and touches no other content; the content '
        'survives iff another reference remains and is released exactly at the last one; rm_file removes precisely the names of the addressed content (count -> 0, '
        'all other counts unchanged) and is refused while an El Torito entry references it; rm_eltorito releases only contents without another name; reopening '
        'preserves the counts of non-empty contents.  Tie on every run: the data space held by the object after EVERY edit (sum over PyCdlib.inodes) equals the '
        'space of the distinct live blobs of the specification evaluated in Coq; API views after write+reopen (1-3 generations) equal the specification; data '
        'extents in the image shared iff linked.  Recipes: same-named links in different directories, boot file names removed after reopen.'),
  note=('Added model AccountLinks.v (the space accounting state machine with hard links inside the ISO9660 namespace: shared inodes, add_hard_link / rm_hard_link / rm_file): C07_space_exact, C07_stored_once, C07_content_released_at_last_name_in_the_accounting, C07_rm_file_exact_in_the_accounting for EVERY history; tied by accountlinksleaf.py after every operation. The theorems are about the specification; pycdlib is tied by the per-edit probe and the view comparison (sampling).  Zero-length contents hold no space and lose '
        'cross-namespace link identity when reopened (stated in FsSpec.Reopen).'),
  technique='Coq reference-count theorems on the specification + per-edit data-space probe and view correspondence evaluated in Coq',
  design='§8.7'),
 'C08': dict(category='proof',
  text=('Proved for all inputs (closed) over hand models of RockRidge._add_name/_new_symlink/RRSLRecord/symlink_path and of the continuation allocator: a name of ANY length '
        'splits into NM entries that concatenate to it, each fitting its entry; a symlink target of ANY length reassembles (RRIP 4.1.3 reader) to exactly the target provided '
        'no path piece starts with "." other than "."/".." (C08_symlink_roundtrip); the unguarded claim and the no-continuation-entry case are REFUTED with witnesses reproduced '
        'on pycdlib (known findings); record- vs component-level CONTINUE discipline; continuation areas disjoint and inside their sector for every add/remove history.  Tie: the '
        'models vs the real methods on every run (targets around every record/component boundary).  The property itself on generated Rock Ridge images (1.09/1.10/1.12 x XA, long '
        'names, CE gaps of exactly the needed size +-1, trees deeper than 8): an independent SUSP/RRIP reader recovers names, types, PX mode types, link counts, targets, the logical '
        'tree; entry lengths, CE/CL/PL pointers.'),
  note=('Added model RRPlace.v (which System Use entries RockRidge.new creates and where: record vs continuation area; C08_placement_fits_the_record, C08_ce_entry_length_is_the_area, C08_placed_name_reads_back, C08_no_continuation_iff_first_fit, C08_placement_total for ALL inputs; tied by rrplaceleaf.py on a boundary grid incl. every record length 120..257 with every relocation flag).  The entry lengths all these models use are the length() static methods of rockridge.py TRANSLATED on every run (Gen/GenRR.v): C08_entry_lengths_are_the_source.  Continuation entries over whole edit histories (allocation, sharing, release with the last owner): Model/AccountRR.v, theorems in C04.  Added models: Nlink.v (directory link counts: 2 + #subdirs on the record, its dot and the children\'s dotdot after EVERY add/rm_directory history incl. refused edits, C08_nlink; depth <= 7, no relocation) and RREntries.v/RRWalk.v (every System Use entry codec, the walker and the recorder: entry round trips, self-describing lengths, C08_area_walk for any entry list; the two known symlink findings as _refuted theorems); tied by nlinkleaf.py (PX counts of the record objects) and rrleaf.py (System Use areas of generated images).  Relocation: Model/Reloc.v (RR_MOVED, CL placeholders, RE, PL as a state machine with the physical layout and an isofs-style reader): for EVERY accepted history the reader sees exactly the logical tree the edits imply (C08_relocation_reader_sees_the_logical_tree), every CL/PL/RE link lands where it should and is unique (C08_relocation_links_consistent), refused edits change nothing; what the recorded link counts are is proved, and where they deviate from 2 + logical sub-directories is stated as refuted theorems (root counts RR_MOVED; `..` of a relocated directory carries RR_MOVED\'s count; physical depth can exceed 8) -- link counts are not compared on images with a relocation directory; tied by relocleaf.py after EVERY operation incl. reopen and the written image.  Relocation together with continuation areas, Joliet or UDF is decided on sampled images by the reader.  The whole image as BYTES: Model/MasterRR.v renders every directory extent (records with their System Use areas) and every continuation block over the states of Model/AccountRR.v, with an isofs-style SUSP/RRIP reader on those bytes: for EVERY edit history (names and targets of any length, versions 1.09/1.10/1.12) the reader recovers every Rock Ridge name, mode, link count and symlink target (C08_rr_reader_recovers_every_entry_after_every_history), continuation areas of different records never meet and never lie in the ER sector (C08_rr_continuation_areas_disjoint_after_every_history); System Use well-formedness and root SP/ER in Proofs/MasterRRProofs.v; tied by masterrrleaf.py (model bytes = the bytes cut out of written images; the reader run on the library\'s bytes).  Continuation areas of a PARSED image: C08_open_tracks_exactly_the_written_continuation_entries (Model/ParseRR.v).'),
  technique='Coq round-trip proofs for NM/SL splitting and CE allocator invariant + leaf runs + independent SUSP/RRIP reader on generated images',
  design='§8.8'),
 'C09': dict(category='proof',
  text=('Proved (closed): UTF-16BE encode/decode is lossless for every Unicode scalar sequence; a name accepted by the rule as coded (<= 64 UTF-8 bytes) needs <= 64 UCS-2 units, its identifier <= 128 bytes '
        'and its directory record <= 254 bytes with or without XA -- accepted names are never truncated; the rule over-refuses (refusal, allowed).  Frame theorem: a Joliet-only edit leaves the other '
        'namespaces untouched.  Tie: codec model vs Python\'s codec on every run.  The property itself: name grid around 64 units/64 bytes (BMP, non-BMP; files and directories; levels 1-3): refused or stored '
        'exactly; on generated Joliet images the independent reader\'s Joliet tree equals the tree built, every Joliet file shares the extents of its ISO9660 link, SVD sizes/path tables consistent.'),
  note='Added Model/MasterJoliet.v: the BYTES of every Joliet directory extent and of both Joliet path tables over the ISO9660+Joliet object graph of Model/AccountNs.v, and an independent reader that starts at the SVD root pointer and decodes identifiers as UTF-16BE: for every well-formed state and for every state reached by an accepted history the reader recovers exactly the Joliet tree (C09_joliet_reader_recovers_the_tree, ..._after_every_history), every Joliet file record carries the extent and length of its ISO9660 link and data of different contents never meet (C09_joliet_same_sectors_as_the_iso9660_link); path table consistency, region disjointness and the sort order (ascending by UTF-16BE code units = ECMA-119 order with (00) padding; refuted for (20) padding) are proved in Proofs/MasterJoliet*.v; hypothesis: at most 65535 directories (beyond that the library accepts the edits and cannot write: known finding); tied by masterjolietleaf.py (Joliet directory blocks and path tables cut out of written images; the reader run on the library\'s bytes).  Trusted: Coq kernel + vm_compute, LongNames.v (UTF-16 part), reader.',
  technique='Coq codec round-trip and fit proofs + name-limit grid + independent reader on generated Joliet images',
  design='§8.9'),
 'C10': dict(category='proof',
  text=('Proved (closed) about functions TRANSLATED from /repo on every run: the table-driven tag CRC equals bitwise CRC-16/XMODEM for ALL byte strings (256-entry table sweep + induction), a tag carrying '
        '_compute_csum verifies, File Identifier Descriptor lengths are multiples of 4 covering header+name, ceiling_div covers.  The translations are validated against the Python functions on every run.  '
        'Everything else is decided on generated UDF images (fresh and reopened-then-edited; identifier areas ending exactly on a sector boundary; Latin-1/UCS-2 names; non-Latin-1 symlink components; '
        'cross-namespace links; empty files) by an independent ECMA-167 reader that starts from the recognition sequence and the anchors, verifies every tag it passes, partition bounds and information '
        'lengths, and must recover exactly the tree, names, targets and bytes.'),
  note='partial: Model/UdfVds.v (recognition sequence, anchors, volume descriptor sequence, integrity, file set: every descriptor verifies and round-trips, sizes and counters stay in step) and Model/UdfDir.v (one directory under adds/removals: information length, blocks granted, Logical Blocks Recorded, placement) were added, tied by vdleaf.py / udfdirleaf.py; Model/Udf.v covers tag, short/long AD, ICB tag, FID and File Entry (+ splitting into allocation descriptors): recorded descriptors verify for an independent checker, parse.record = id, extents sum to the length and chain; tied by udfleaf.py incl. descriptors cut out of written images.  Model/UdfLayout.v: where _reshuffle_extents puts every File Entry, identifier area and file content of a WHOLE UDF tree and what every pointer says -- for every well-formed tree a reader that follows recorded pointers only recovers the namespace (C10_udf_reader_recovers_the_namespace), the regions tile the partition exactly and shared inodes are stored once (C10_udf_layout_disjoint), every directory starts with a parent FID pointing at its parent\'s File Entry, the integrity descriptor counts file NAMES and directories incl. the root after EVERY history (C10_udf_counts_after_every_history); for files over 0xfffff800 bytes disjointness is REFUTED (C10_udf_layout_disjoint_refuted: the File Entry is linked to the last piece with the full length) -- reproduced on pycdlib, recorded as a known finding; tied by udflayoutleaf.py (per history, every extent/ICB/tag location/descriptor/counter read off the object graph; descriptor-overlap oracle).  Model/UdfParse.v: pycdlib\'s OWN parser of the UDF tree (_walk_udf_directories / _parse_udf_file_entry) on the recorded summaries: for every well-formed tree the opened object IS the writer\'s graph (C10_udf_open_gives_the_writers_graph), nothing valid is rejected, every name gets a File Entry object of its own (C10_udf_open_file_entry_objects_never_shared), two names share an Inode iff same first data block / same File Entry block for empty files (C10_udf_open_shares_inode_iff_same_extent), laying the opened tree out again gives the same layout (C10_udf_reopen_layout_fixpoint); an empty file with an ISO9660 name loses the link on reopen (refuted theorem = the stated Reopen semantics); tied by udfparseleaf.py (graph read off the opened object; reopen layout and bytes).  UDF beside Joliet/Rock Ridge and descriptor BYTES of whole trees are checked by the reader on sampled images only.',
  technique='Coq proofs over translated CRC/checksum/length functions + independent ECMA-167 reader on generated images',
  design='§8.10'),
 'C11': dict(category='proof',
  text=('Proved (closed) about the TRANSLATED EltoritoValidationEntry._checksum: for every 32-byte entry the sixteen LE words plus the checksum sum to 0 mod 2^16 and the stored entry verifies; in the specification '
        'rm_eltorito removes exactly the catalog names and boot references.  Translation validated against the Python method on every run.  The property itself on generated bootable images (1-6 entries, '
        'platform ids, load sizes, boot info tables, multi-sector boot files followed by data, edits after add_eltorito, reopen in the middle): boot record at 17, validation entry, every entry of the header '
        'chain vs the boot file\'s sector and bytes, boot-info-table fields as stored and as read back, catalog readable under all its names; add+rm_eltorito gives byte-identically the image without El Torito.'),
  note='Added Model/AccountBoot.v (El Torito over whole EDIT HISTORIES on top of the hard-link accounting model; plain ISO9660 level 3): for every history the declared size is the end of the layout, every catalog entry points at the extent of a live, NON-EMPTY boot file of its own -- also for boot files whose names were removed -- (C11_catalog_points_at_files, C11_load_rba_is_the_files_own_extent), boot info tables sit only on boot files, rm_eltorito removes exactly the catalog (C11_rm_eltorito_exact_after_every_history), refused calls change nothing except the known first-call late refusals (C11_late_refusal_only_on_first_call); the code before fixes d8f44b3/6a3f4a5 is refuted; tied by accountbootleaf.py after EVERY operation (counters, catalog extent, every load_rba, written image reopened and the catalog followed).  Added Model/BootParse.v: what open reconstructs of El Torito (catalog bytes, entries, boot files with and without names) composed with AccountBoot: C11_open_reconstructs_the_boot_state (open(write s) = an explicit reopened s), C11_reopened_state_differs_only_by_padding (a nameless boot file keeps its extent and all its bytes), C11_invariants_after_any_edit_write_open_rounds / C11_space_exact_after_any_edit_write_open_rounds / C11_catalog_points_at_files_after_reopen / C11_rm_eltorito_after_reopen; the code before the two repairs this model exposed (nameless boot files overlapping after reopen; tail of a nameless boot file lost) is refuted; tied by bootparseleaf.py (reopened state read off the opened object; the same further edits on the never-closed original and on the reopened object, images compared).  Model/Eltorito.v (entries, section headers, catalog record/parse state machine, add_section, the reader loop, boot info table): C11_catalog_extent_roundtrip for every buildable catalog incl. 31 sections and non-bootable entries, entry totality, checksum over the file\'s own bytes; four _refuted witnesses of the first model were repaired in /repo; tied by etleaf.py.  Pointer assignment (load RBA = boot file sector) is not modelled in Coq (sampled). floppy/hdemul media are generated at leaf level only.',
  technique='Coq proof over translated validation checksum + independent reader and byte comparison on generated bootable images',
  design='§8.11'),
 'C12': dict(category='proof',
  text=('Proved (closed) about TRANSLATED functions: _calc_cc pads every size to whole cylinders for every geometry and the cylinder count is exact up to 1024 cylinders; beyond it is clamped and the partition '
        'no longer covers the image (explicit theorem + witness: known finding); table-driven crc32 equals the bitwise reflected CRC-32 for ALL byte strings.  Leaf: IsoHybrid.record decoded independently over '
        '8 geometries x cylinder counts around 1/256/512/768/1024.  Image level: MBR signature, exactly one active partition covering the padded image, boot address = 4 x boot sector, GPT CRCs and mirror, padding, '
        'no overlap of the backup GPT with the volume, rest of the image equal to the non-hybrid image; also write - add files - write schedules.'),
  note='Model/Hybrid.v (MBR, CHS, GPT header/entries/placement, APM): MBR layout and round trip, CHS decode, GPT header verifies, and the three known findings as _refuted theorems (clamped partition size, GPT array CRC over used entries only, backup GPT over the volume tail); tied by hybridleaf.py.  Model/HybridHist.v (isohybrid over EDIT HISTORIES: the AccountBoot El Torito state machine + add_isohybrid / rm_isohybrid / write_fp, the hybrid object updated only by the extent assignment of a write): refused calls change nothing, rm_isohybrid exact, every history keeps the hybrid well formed, a write after ANY history fails only when the accepted partition offset lies beyond the padded image (known finding, _refuted witness), padding / partition size / GPT positions for every hybrid and size; tied by hybridhistleaf.py (decoded images of random histories).  Whole-image GPT/APM contents: reader on sampled images.',
  technique='Coq proofs over translated _calc_cc and crc32 + MBR leaf grid + independent reader on generated hybrid images',
  design='§8.12'),
})

CLAIMS.update({
 'C13': dict(category='proof',
  text=('Proved for ALL byte strings (closed) over the hand model of _check_iso9660_filename/_check_iso9660_directory/_split_iso9660_filename with the d-character set TRANSLATED from /repo: an accepted '
        'identifier obeys every documented rule of its level (C13_accepted_*_is_legal), the checkers only accept or refuse with the invalid-input error (the pinned original leaked ValueError: _refuted), '
        'level-1 and directory names are bounded so that they fit their record, file names at levels 2-4 are NOT bounded by the checker (explicit witness; the record-length refusal happens when the record is '
        'built, fix ce58dfc); uniqueness of names per directory and namespace is an invariant of the specification for every history.  Tie: model vs the real checkers on an exhaustive short-string grid (~45k '
        'cases).  The property itself: a catalogue of rule-breaking edits (duplicates of every kind in every namespace, illegal identifiers per level, over-long names for record / Joliet / UDF, depth) issued '
        'against generated images must raise PyCdlibInvalidInput at once; identifiers of written images unique and legal (independent reader).'),
  note='Duplicate detection in the object graph (_add_child, add_file_ident_desc) is checked by the edit catalogue on sampled images (and, for the fragments they cover, by the history models AccountNs / AccountRR / UdfLayout / Reloc, whose refusals are compared with the library after every operation).  Directed probes: empty Joliet/UDF names, Rock Ridge entries beyond one continuation block, negative lengths, equal names relocated at level 1, more than 65535 directories (known finding).',
  technique='Coq soundness proofs for the identifier checkers + exhaustive checker grid + rule-breaking-edit catalogue on generated images',
  design='§8.13'),
 'C14': dict(category='proof',
  text=('Proved (closed): in the specification a refused edit changes nothing; in the staged-execution model of a multi-namespace call (Model/Atomic.v) a call that validates before it mutates is atomic, a '
        'refusal raised before the first mutation is atomic in any call, a refusal raised after a mutation leaves exactly the partially applied state, and one check after an effective mutation breaks '
        'atomicity.  pycdlib interleaves validation and mutation per namespace, so the full claim is FALSE for late causes: the catalogue of ~45 (call, cause) pairs classifies each as EARLY or LATE '
        '(transcribed from the code) and is validated on every run by fork-and-compare: the refused call is issued on a fresh fork of a generated object, write_fp bytes are compared with the untouched '
        'object, then three further edits are applied to both.  An EARLY cause observed non-atomic is a violation; the 13 LATE causes observed non-atomic are known findings identified by (call, cause).'),
  note='The stage order of each call is transcribed by hand into the catalogue (trusted, but falsified by the run when wrong in the EARLY direction).  Also: "candidate" calls (issued on a fork and compared only if they raise, so that refusal causes a changed library adds are covered), base objects with a renamed and used relocation directory, refused new()/open_fp() on a fresh object followed by new().  The history models prove "a refused edit changes nothing" for their fragments (C04_refused_edit_changes_nothing, C04_rr_..., C08_relocation_..., C11_boot_..., C17_refused_call_writes_nothing) with the late refusals modelled as they are.',
  technique='Coq atomicity theorems for staged execution + fork-and-compare of refused calls against a per-cause early/late catalogue',
  design='§8.14'),
 'C15': dict(category='other',
  text=('PROVED (closed) for the control skeleton of the two directory walks of _open_fp (Model/Walk.v, breadth-first queue over the sub-directory extents an ADVERSARIAL image lists, with the seen-set of fix 279a8b6): '
        'each directory extent is read at most once, the walk ends within |extents|+1 iterations with success or the documented refusal, its queue is bounded by the image, the check never fires on tree-shaped '
        'images; for the pinned original the claim is refuted (self-listing directory: runs for every fuel with unbounded memory).  Model tied to the code on redirected directory graphs of real images.  '
        'EXPLORED, not proved: that no undocumented exception type escapes the ~3000 lines of record parsers -- ~60 (thorough 220) structured corruptions of each of 24 (200) base images (truncations at every '
        'structure boundary, field mutations in every structure kind, consistent both-endian extent/length rewrites incl. self/parent/beyond-EOF, El Torito and boot-info fields, path tables, UDF tags) opened in '
        'subprocesses under a 6 s alarm and a 1.5 GiB address-space limit.'),
  note='level "other": proofs for the directory walk, structured exploration for the rest.  Added: Model/Parse.v is a FAITHFUL model of _walk_directories (plain ISO9660 records; Rock Ridge / XA / multi-extent records leave the fragment) and for EVERY byte string and root pointer C15_directory_walk_terminates_on_any_bytes (fuel linear in the file length), C15_directory_walk_work_is_linear_in_the_file (33 * records <= length + 2048, same for Inodes), C15_walk_fails_only_at_documented_raise_points (nine raise points, each PyCdlibInvalidISO / PyCdlibInvalidInput after the conversion in _open_fp_checked); the walk before fix 863c802 is refuted (directories inside one another walked once per claiming directory: 0.9 MB image, 54 s, 3.2 million objects -- reproduced, repaired); tied by parsehostileleaf.py (damaged directory areas: the library\'s outcome -- graph or raise point -- vs the model).  Known finding: work quadratic in the records of ONE unsorted directory (deterministic line-count probe).  The UDF / El Torito / Rock Ridge parsers, memory use and the ~3000 lines of record parsers are explored, not proved.  open()/open_fp() convert builtin exception types into PyCdlibInvalidISO at one place (fix 92e3564).',
  technique='Coq termination/bound proofs for the directory-walk skeleton + structured corruption run under time and memory limits',
  design='§8.15'),
 'C17': dict(category='proof',
  text=('Proved for all directories (closed, Model/Pack.v + translated ceiling_div): the cached (extent, offset) at which modify_file_in_place rewrites a record is exactly where the writer put it, the record lies '
        'inside one block and is disjoint from every other record, and with an unchanged sector count the new data and padding stay inside the file\'s own sectors.  Tie: Pack.v vs dr.py on every run.  The '
        'property itself on generated images (exactly-filled and multi-sector directories, several names per content in ISO9660/Joliet/UDF, XA, Rock Ridge): bytes of the backing file before/after diffed and '
        'every changed byte attributed by the independent reader to the file\'s sectors, its own records / file entries or a volume descriptor; every name re-read by the reader and through the API; unrelated '
        'files re-read; other sector counts and directory targets must be refused leaving the file byte-identical.'),
  note='Added Model/InPlace.v: modify_file_in_place as a function from the opened image and object graph to the ordered list of writes (copy_data / zero_pad, every linked directory record and UDF File Entry re-recorded, volume descriptors rewritten): for EVERY well-formed state C17_frame_only_allowed_bytes_change (allowed = the data sectors, bytes 10..17 of each linked record, the length/checksum fields of each linked File Entry, the modification date of the volume descriptors), C17_data_region_after_the_call, C17_rewritten_directory_record_decodes / _file_entry_decodes, C17_accepted_iff_same_sector_count, C17_refused_call_writes_nothing (every integer length; the code before fix 0411073 is refuted), C17_state_stays_well_formed_for_the_next_call; tied by inplaceleaf.py (every write issued by the real call is logged and compared with the model\'s list).  Stated, not required by the property: after a shrink the old bytes behind the new data stay (C17_zero_padding_after_a_shrink_refuted).',
  technique='Coq position/disjointness proofs over the packing model + byte-diff attribution on generated images',
  design='§8.17'),
 'C20': dict(category='proof',
  text=('partial.  Proved (closed) over the hand model of build_iso_path\'s collision numbering and of mm3hashfromfile\'s block chaining over the TRANSLATED mm3hash: every ISO9660 name handed out within a '
        'directory is new (any sequence); the numbered name is not always legal (refuted: "AB.C;000.C;1"); duplicate linking on size + 32-bit hash alone is unsound (refuted with two 8-byte contents of equal '
        'murmur3 value); without chaining only the last block counts.  Ties: translated mm3hash and the numbering model vs the tool\'s functions on every run; block chaining vs mm3hashfromfile on files around '
        '32 KiB multiples.  The round trip with the real tools on generated source trees (mangling collisions, symlinks, Unicode, identical / near-identical / hash-colliding contents, depth 10, names > 64) x '
        'option sets: extracted tree == source tree per requested view; ISO9660 identifiers distinct and legal; requested extensions present.'),
  note='argument parsing, os.walk order, per-entry decisions and extraction I/O are covered by the sampled round trip only.',
  technique='Coq proofs over name-numbering model and translated murmur3 + real-tool round trip on generated trees',
  design='§8.20'),
})

NA_REASON = 'check not built yet (work in progress; see DESIGN.md section 8)'


def main():
    checks = []
    for pid in ALL:
        if pid not in CLAIMS:
            continue
        c = CLAIMS[pid]
        checks.append({
            'property_id': pid,
            'quick_cmd': './check %s --tier quick' % pid,
            'thorough_cmd': './check %s --tier thorough' % pid,
            'evidence_file': '/verif/evidence/%s.json' % pid,
            'replay_cmd_template': './check %s --replay {path}' % pid,
            'engine': 'coq+harness',
            'level_claimed': {'category': c['category'], 'text': c['text'], 'design_ref': 'DESIGN.md ' + c['design']},
            'level_note': c['note'],
            'technique': c['technique'],
        })
    m = {
        'version': 1,
        'setup_cmd': 'make -C /verif setup',
        'hooks': {'guard': 'PYCDLIB_VERIF',
                  'enable': 'no source hooks are used; checks run /venv/bin/python with PYTHONPATH=/repo on the working tree',
                  'baseline_off_cmd': 'cd /repo && /venv/bin/python -m pytest -ra -q -p no:cacheprovider --timeout=900 --continue-on-collection-errors',
                  'source_commits': [], 'add_only': True},
        'engines': [
            {'name': 'coq', 'path': '/verif/coq', 'serves_properties': sorted(CLAIMS), 'kind_free_text': 'Coq 8.16.1 development: models, proofs, property theorems (full .vo build)'},
            {'name': 'translator', 'path': '/verif/translator/translate.py', 'serves_properties': sorted(CLAIMS), 'kind_free_text': 'fail-closed Python-ast -> Gallina translator, regenerated on every run'},
            {'name': 'harness', 'path': '/verif/harness', 'serves_properties': sorted(CLAIMS), 'kind_free_text': 'correspondence (model vs implementation), property oracles on the implementation, failing-input search, evidence'},
        ],
        'checks': checks,
        'not_applicable': [{'property_id': p, 'reason': NA_REASON} for p in ALL if p not in CLAIMS],
        'notes': 'Fixes to /repo are separate fix: commits listed in known_findings.json; no hooks.',
    }
    with open(os.path.join(VERIF, 'MANIFEST.json'), 'w') as fp:
        json.dump(m, fp, indent=1)


if __name__ == '__main__':
    main()
