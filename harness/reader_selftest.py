"""Self test of harness.reader against images built in memory with pycdlib.

Run:  cd /verif && PYTHONPATH=/repo:/verif /venv/bin/python -m harness.reader_selftest [-v] [--quick]

For a matrix of PyCdlib.new() options an image with a known content model is built; the reader
must accept it (apart from the violations listed in KNOWN), recover exactly the model in every
namespace (ISO physical tree, Joliet, logical Rock Ridge tree, UDF), return the exact file data,
and report no overlapping segments.  A second part mutates bytes of valid images and expects the
matching rule id; a third part feeds randomly corrupted images and only accepts Malformed.
"""
import hashlib
import io
import itertools
import random
import re
import struct
import sys
import time

import pycdlib

from harness import reader

# Violations the reader is EXPECTED to report on unmodified pycdlib output (rule id -> predicate on
# the combo).  Everything listed here is documented in reader.__doc__ "Observed on pycdlib images".
def _dotdot_len_only(c, p):
    m = re.search(r"second record is b'\\x01' \((\d+), 2048\), expected '\.\.' with the parent's extent \((\d+), (\d+)\)", p.detail)
    return bool(m) and m.group(1) == m.group(2) and int(m.group(3)) > 2048


def _enhanced_root_len_only(c, p):
    m = re.search(r"directory enhanced:/: first record is b'\\x00' \((\d+), (\d+)\), expected '\.' with extent \((\d+), 2048\)", p.detail)
    return bool(m) and m.group(1) == m.group(3) and int(m.group(2)) > 2048


# rule id -> (expected(c): True = must be reported, False = must not, None = may (data dependent);
#             accept(c, problem): is this particular report the known one?)
KNOWN = {
    # UEFI 5.3.2: PartitionEntryArrayCRC32 covers NumberOfPartitionEntries*SizeOfPartitionEntry bytes;
    # pycdlib computes it over the 2 or 3 used entries only.
    'gpt-crc': (lambda c: c.get('hybrid') in ('efi', 'mac'), lambda c, p: True),
    # ECMA-119 6.8.2.2 / 9.1: '..' describes the parent directory; pycdlib leaves its data length at
    # 2048 when the parent directory has grown beyond one sector (/MANY/SUB/.. in the 'bigsub' test images).
    # (repaired in /repo by a fix: commit; must not be reported any more)
    'dotdot-wrong': (lambda c: False, _dotdot_len_only),
    # The root record inside the enhanced (ISO 9660:1999) descriptor keeps data length 2048 when the root
    # directory needs more than one sector, so it disagrees with the '.' record of the root directory.
    # (repaired in /repo as well)
    'dot-wrong': (lambda c: False, _enhanced_root_len_only),
}

# check_rr_nlink() findings expected on every image with a relocated directory (physical view of the
# root link count, CL placeholder with st_nlink 2); nothing is expected on the other images.
NLINK_ON_RELOCATION = {"'.' of /", "'..' of /", "'..' of child b'd1' of /", "'..' of child b'long' of /",
                       "'..' of child b'many' of /", 'entry of /RR_MOVED/D8'}

VERBOSE = '-v' in sys.argv
QUICK = '--quick' in sys.argv


def blob(tag, n):
    out = b''
    i = 0
    while len(out) < n:
        out += hashlib.sha256(('%s:%d' % (tag, i)).encode()).digest()
        i += 1
    return out[:n]


class Entry(object):
    def __init__(self, kind, logical, data=None, target=None, iso=None, rr=None, joliet=None, udf=None):
        self.kind, self.logical, self.data, self.target = kind, logical, data, target
        self.iso, self.rr, self.joliet, self.udf = iso, rr, joliet, udf


def iso_component(name, is_dir, level):
    if level == 4 and name.startswith('l4-'):
        return name                       # level 4: anything goes, no version
    up = name.upper().replace('-', '_')
    if is_dir:
        return up
    if '.' not in up:
        up += '.'
    return up + ';1'


def make_model(c):
    """The content of the test image for combo c, as a list of Entry (parents before children)."""
    level, rr, udf = c['interchange_level'], c['rock_ridge'], c['udf']
    model = []

    def add(kind, comps, data=None, target=None, rrname=None, udfname=None):
        dirs, last = comps[:-1], comps[-1]
        e = Entry(kind, tuple(comps), data, target)
        e.iso = tuple(iso_component(d, True, level) for d in dirs) + (iso_component(last, kind == 'dir', level),)
        e.rr = tuple(dirs) + (rrname or last,)
        e.joliet = tuple(comps)
        e.udf = tuple(dirs) + (udfname or last,)
        model.append(e)
        return e
    add('file', ['foo'], b'hello')
    add('file', ['empty'], b'')
    add('file', ['one'], b'\x01')
    add('file', ['sect.bin'], blob('sect', 2048))
    add('file', ['big.dat'], blob('big', 5000))
    if level == 4:
        add('file', ['l4-lower case+name.with.dots'], blob('l4', 300))
    # a directory that needs several sectors
    add('dir', ['many'])
    for i in range(60):
        add('file', ['many', 'f%02d.txt' % i], blob('many%d' % i, (i * 37) % 700))
    if c.get('bigsub'):
        # a subdirectory of a multi-sector directory (its '..' is a known pycdlib deviation, see KNOWN)
        add('dir', ['many', 'sub'])
        add('file', ['many', 'sub', 'x'], b'xx')
    # nested directories, added level by level
    if rr or level == 4:
        depth = 9
    else:
        depth = 7
    comps = []
    for d in range(1, depth + 1):
        comps = comps + ['d%d' % d]
        add('dir', comps)
        if rr or level == 4 or len(comps) < 7:
            add('file', comps + ['leaf%d' % d], blob('leaf%d' % d, 100 + d))
    if rr:
        add('dir', ['d1', 'side'])          # sibling subtree next to the relocated chain
        add('file', ['d1', 'side', 'y'], b'y' * 3)
        add('dir', ['long'])
        for i in range(5):
            longname = ('long-rock-ridge-name-%d-' % i) + 'n' * (205 + i)
            add('file', ['long', 'ln%d' % i], blob('ln%d' % i, 64 + i), rrname=longname,
                udfname=longname[:120] if udf else None)
    return model


def build(c, filler=0):
    """Build the image for combo c; returns (bytes, model, extras)."""
    level, rr, udf, joliet = c['interchange_level'], c['rock_ridge'], c['udf'], c['joliet']
    iso = pycdlib.PyCdlib()
    iso.new(interchange_level=level, joliet=joliet, rock_ridge=rr, udf=udf, xa=c['xa'], vol_ident='SELFTEST')
    model = make_model(c)
    if filler:
        e = Entry('file', ('filler',), blob('filler', filler))
        e.iso, e.rr, e.joliet, e.udf = (iso_component('filler', False, level),), ('filler',), ('filler',), ('filler',)
        model.append(e)

    def kw(e):
        k = {}
        if rr:
            k['rr_name'] = e.rr[-1]
        if joliet:
            k['joliet_path'] = '/' + '/'.join(e.joliet)
        if udf:
            k['udf_path'] = '/' + '/'.join(e.udf)
        return k
    for e in model:
        if e.kind == 'dir':
            iso.add_directory(iso_path='/' + '/'.join(e.iso), **kw(e))
        else:
            iso.add_fp(io.BytesIO(e.data), len(e.data), iso_path='/' + '/'.join(e.iso), **kw(e))
    # symbolic links (Rock Ridge and / or UDF; no Joliet entry)
    symlinks = []
    if rr or udf:
        for name, target in (('sym', 'foo'), ('sym2', '/abs/./path/../x'), ('sym3', 'many/' + 't' * 300 + '/u')):
            if not rr and len(target) >= 200:
                continue        # the long target is only used for Rock Ridge (several SL entries)
            k = {'symlink_path': '/' + iso_component(name, False, level)}
            if rr:
                k['rr_symlink_name'] = name
                k['rr_path'] = target
            if udf and len(target) < 200:
                k['udf_symlink_path'] = '/' + name
                k['udf_target'] = target
            iso.add_symlink(**k)
            symlinks.append((name, target, 'udf_target' in k))
    extras = {'symlinks': symlinks, 'hardlink': False}
    # a hard link in the ISO namespace: two names, one extent
    if c.get('hardlink'):
        k = {'rr_name': 'foolink'} if rr else {}
        iso.add_hard_link(iso_old_path='/' + iso_component('foo', False, level),
                          iso_new_path='/' + iso_component('foolink', False, level), **k)
        extras['hardlink'] = True
    # El Torito (+ isohybrid)
    boot = b'\x00' * 0x40 + b'\xfb\xc0\x78\x70' + blob('boot', 2048 - 0x44)
    extras['boot'] = boot
    bk = {}
    if rr:
        bk['rr_name'] = 'boot'
    if joliet:
        bk['joliet_path'] = '/boot'
    if udf:
        bk['udf_path'] = '/boot'
    iso.add_fp(io.BytesIO(boot), len(boot), iso_path='/' + iso_component('boot', False, level), **bk)
    ek = {}
    if rr:
        ek['rr_bootcatname'] = 'boot.cat'
    if joliet:
        ek['joliet_bootcatfile'] = '/boot.cat'
    iso.add_eltorito('/' + iso_component('boot', False, level), bootcatfile='/' + iso_component('boot.cat', False, level),
                     boot_load_size=4, **ek)
    hy = c.get('hybrid')
    if hy in ('efi', 'mac'):
        for nm in (['efi.img'] if hy == 'efi' else ['mac.img', 'efi.img']):
            data = blob(nm, 1000)
            k = {}
            if rr:
                k['rr_name'] = nm
            if joliet:
                k['joliet_path'] = '/' + nm
            if udf:
                k['udf_path'] = '/' + nm
            iso.add_fp(io.BytesIO(data), len(data), iso_path='/' + iso_component(nm, False, level), **k)
            iso.add_eltorito('/' + iso_component(nm, False, level), efi=True)
            e = Entry('file', (nm,), data)
            e.iso, e.rr, e.joliet, e.udf = (iso_component(nm, False, level),), (nm,), (nm,), (nm,)
            model.append(e)
    if hy == 'plain':
        iso.add_isohybrid()
    elif hy == 'efi':
        iso.add_isohybrid(efi=True)
    elif hy == 'mac':
        iso.add_isohybrid(mac=True)
    out = io.BytesIO()
    iso.write_fp(out)
    iso.close()
    return out.getvalue(), model, extras


# ---------------------------------------------------------------------------------------------

def flatten(root, name_of=lambda n: n.name):
    """{path tuple: node} of a decoded tree."""
    out = {}

    def walk(n, path):
        for ch in n.children:
            p = path + (name_of(ch),)
            assert p not in out, 'duplicate path %r' % (p,)
            out[p] = ch
            walk(ch, p)
    walk(root, ())
    return out


def expect(cond, msg):
    if not cond:
        raise AssertionError(msg)


def verify(c, img, model, extras):
    """Decode img and compare with the model; returns the list of accepted known rule ids."""
    level, rr, udf, joliet = c['interchange_level'], c['rock_ridge'], c['udf'], c['joliet']
    accepted = []
    try:
        im = reader.read_image(img)
    except reader.Malformed:
        im = reader.read_image(img, check=False)
        for p in im.problems:
            known = KNOWN.get(p.rule)
            expect(known is not None and known[0](c) is not False and known[1](c, p), 'unexpected violation: %s' % p)
            accepted.append(p.rule)
    expect(im.size == len(img) and im.lbs == 2048, 'size/lbs')
    expect(im.n_pvd == 1 and im.pvd['volume_id'].rstrip() == b'SELFTEST', 'pvd')
    expect(im.pvd['space_size'] * 2048 <= len(img), 'space size')
    expect((im.joliet_root is not None) == bool(joliet) and len(im.svds) == (1 if joliet else 0), 'joliet presence')
    expect((im.enhanced_root is not None) == (level == 4), 'enhanced presence')
    expect(im.rr_version == {None: None, '1.09': '1.09', '1.10': '1.09', '1.12': '1.12'}[rr], 'rr version %r' % im.rr_version)
    expect((im.rr_root is not None) == bool(rr), 'rr_root presence')
    expect((im.udf is not None) == bool(udf), 'udf presence')
    expect(im.xa == c['xa'], 'xa flag')

    boot_iso = iso_component('boot', False, level)
    cat_iso = iso_component('boot.cat', False, level)

    # ---- ISO physical tree ----
    exp = {}
    placeholders = {}
    moved = {}
    for e in model:
        exp[e.iso] = e
    if rr and level < 4:
        # directories at depth 8 are relocated to /RR_MOVED, a placeholder file stays behind
        for e in list(model):
            if e.kind == 'dir' and len(e.iso) % 8 == 0:
                moved[e.iso] = ('RR_MOVED', e.iso[-1])
        new = {}
        for path, e in exp.items():
            for src, dst in moved.items():
                if path[:len(src)] == src:
                    if path == src:
                        placeholders[path] = e
                    new[dst + path[len(src):]] = e
                    break
            else:
                new[path] = e
        exp = new
    got = flatten(im.iso_root)
    names = set(got)
    want = set(exp) | set(placeholders) | {(boot_iso,), (cat_iso,)}
    if moved:
        want.add(('RR_MOVED',))
    for name, target, in_udf in extras['symlinks']:
        if rr or in_udf:
            want.add((iso_component(name, False, level),))
    if extras['hardlink']:
        want.add((iso_component('foolink', False, level),))
    want = set(tuple(x.encode() for x in p) for p in want)
    expect(names == want, 'ISO tree differs: missing %r extra %r' % (sorted(want - names)[:5], sorted(names - want)[:5]))
    for path, e in exp.items():
        n = got[tuple(x.encode() for x in path)]
        expect(n.is_dir == (e.kind == 'dir'), 'ISO kind of %r' % (path,))
        if e.kind == 'file':
            expect(n.length == len(e.data) and reader.read_file(img, n) == e.data, 'ISO data of %r' % (path,))
        expect((n.xa is not None) == c['xa'], 'XA record of %r' % (path,))
        expect((n.rr is not None) == bool(rr), 'RR of %r' % (path,))
        if rr:
            expect(n.rr.name == e.rr[-1].encode(), 'NM of %r: %r' % (path, n.rr.name))
            expect(n.rr.px_len == (44 if rr == '1.12' else 36), 'PX length')
            if len(e.rr[-1]) > 200:
                expect(n.rr.ce, 'long name %r should use a continuation area' % (path,))
    expect(reader.read_file(img, got[(boot_iso.encode(),)]) == extras['boot'], 'boot file data')
    if level == 4:
        expect(sorted(flatten(im.enhanced_root)) == sorted(got), 'enhanced tree differs from the primary tree')
    if extras['hardlink']:
        a, b = got[(iso_component('foo', False, level).encode(),)], got[(iso_component('foolink', False, level).encode(),)]
        expect(a.extents == b.extents and reader.read_file(img, b) == b'hello', 'hard link')
        seg = [s for s in im.segments if s[0] == a.extents[0][0] * 2048 and s[2] == 'file-data']
        expect(len(seg) == 1 and len([k for k in seg[0][3] if k.startswith('iso:')]) == 2, 'hard link segment %r' % seg)

    # ---- path tables (decoded form; consistency is checked inside the reader) ----
    ndirs = 1 + sum(1 for n in got.values() if n.is_dir)
    expect(len(im.path_tables['pvd']['L']) == ndirs == len(im.path_tables['pvd']['M']), 'path table record count')

    # ---- Joliet ----
    if joliet:
        gotj = flatten(im.joliet_root)
        wantj = {e.joliet: e for e in model}
        expect(set(gotj) == set(wantj) | {('boot',), ('boot.cat',)},
               'Joliet tree differs: %r' % sorted(set(gotj) ^ (set(wantj) | {('boot',), ('boot.cat',)}))[:6])
        for path, e in wantj.items():
            n = gotj[path]
            expect(n.is_dir == (e.kind == 'dir'), 'Joliet kind of %r' % (path,))
            if e.kind == 'file':
                expect(reader.read_file(img, n) == e.data, 'Joliet data of %r' % (path,))

    # ---- logical Rock Ridge tree ----
    if rr:
        gotr = flatten(im.rr_root)
        wantr = {tuple(x.encode() for x in e.rr): e for e in model}
        extra = {(b'boot',), (b'boot.cat',)} | {(s[0].encode(),) for s in extras['symlinks']}
        if extras['hardlink']:
            extra.add((b'foolink',))
        expect(set(gotr) == set(wantr) | extra, 'RR tree differs: %r' % sorted(set(gotr) ^ (set(wantr) | extra))[:6])
        for path, e in wantr.items():
            n = gotr[path]
            expect(n.is_dir == (e.kind == 'dir'), 'RR kind of %r' % (path,))
            if e.kind == 'file':
                expect(reader.read_file(img, n) == e.data, 'RR data of %r' % (path,))
                expect(n.mode is not None and n.mode & 0o170000 == 0o100000, 'RR mode of %r' % (path,))
            else:
                expect(n.mode & 0o170000 == 0o040000, 'RR dir mode of %r' % (path,))
        for name, target, _ in extras['symlinks']:
            n = gotr[(name.encode(),)]
            expect(n.symlink == target.encode(), 'RR symlink %s -> %r' % (name, n.symlink))
            expect(n.mode & 0o170000 == 0o120000, 'RR symlink mode')
        if moved:
            for src in moved:
                phys = got[tuple(x.encode() for x in moved[src])]
                expect(phys.rr.re, 'relocated directory lacks RE')
                ph = got[tuple(x.encode() for x in src)]
                expect(not ph.is_dir and ph.rr.cl == phys.extents[0][0], 'CL placeholder')
                expect(phys.dotdot.rr.pl == ph.parent.extents[0][0], 'PL')
        nl = reader.check_rr_nlink(im)
        extras['nlink'] = nl

    # ---- UDF ----
    if udf:
        gotu = flatten(im.udf['root'])
        wantu = {e.udf: e for e in model}
        extra = {('boot',), ('boot.cat',)} | {(s[0],) for s in extras['symlinks'] if s[2]}
        expect(set(gotu) == set(wantu) | extra, 'UDF tree differs: %r' % sorted(set(gotu) ^ (set(wantu) | extra))[:6])
        for path, e in wantu.items():
            n = gotu[path]
            expect(n.is_dir == (e.kind == 'dir'), 'UDF kind of %r' % (path,))
            if e.kind == 'file':
                expect(reader.read_file(img, n) == e.data, 'UDF data of %r' % (path,))
        for name, target, in_udf in extras['symlinks']:
            if in_udf:
                expect(gotu[(name,)].symlink == target, 'UDF symlink %s -> %r' % (name, gotu[(name,)].symlink))
        ndir = 1 + sum(1 for n in gotu.values() if n.is_dir)
        nfile = sum(1 for n in gotu.values() if not n.is_dir)
        integ = im.udf['integrity']
        extras['udf_counts'] = (integ['num_files'], nfile, integ['num_dirs'], ndir)
        expect(256 in im.udf['anchors'] and im.pvd['space_size'] - 1 in im.udf['anchors'], 'anchors')
        expect([v[0] for v in im.udf['vrs']] == ['BEA01', 'NSR03', 'TEA01'] or [v[0] for v in im.udf['vrs']] == ['BEA01', 'NSR02', 'TEA01'], 'vrs')

    # ---- El Torito / isohybrid ----
    et = im.eltorito
    expect(et is not None and et['boot_record_sector'] == 17, 'El Torito')
    expect(et['validation']['checksum_ok'] and et['validation']['key_ok'], 'validation entry')
    expect(et['catalog_sector'] == got[(cat_iso.encode(),)].extents[0][0], 'catalog sector')
    expect(et['initial']['load_rba'] == got[(boot_iso.encode(),)].extents[0][0], 'initial entry load rba')
    expect(et['initial']['boot_indicator'] == 0x88 and et['initial']['sector_count'] == 4, 'initial entry')
    hy = c.get('hybrid')
    nsec = {None: 0, 'plain': 0, 'efi': 1, 'mac': 2}[hy]
    expect(len(et['sections']) == nsec and all(len(s['entries']) == 1 for s in et['sections']), 'sections')
    if nsec:
        expect(et['sections'][-1]['header_indicator'] == 0x91, 'last section header')
    expect((im.hybrid is not None) == bool(hy), 'hybrid presence')
    if hy:
        mbr = im.hybrid['mbr']
        expect(mbr['signature_ok'] and mbr['rba'] == 4 * et['initial']['load_rba'], 'isohybrid rba')
        expect(mbr['partitions'][0]['status'] == 0x80, 'isohybrid partition 1')
        expect((im.hybrid['gpt'] is not None) == (hy in ('efi', 'mac')), 'gpt presence')
        expect((im.hybrid['apm'] is not None) == (hy == 'mac'), 'apm presence')
        if im.hybrid['gpt']:
            g = im.hybrid['gpt']
            expect(g['primary']['header_crc_ok'] and g['secondary'] is not None and g['secondary']['header_crc_ok'], 'gpt header crc')
            expect(len(g['primary']['partitions']) == (3 if hy == 'mac' else 2), 'gpt partitions')
            expect(g['primary']['parts_crc_used_only_ok'], 'gpt partition crc (used entries)')
        if hy == 'mac':
            expect(len(im.hybrid['apm']) == 3, 'apm entries')

    # ---- segments ----
    ov = reader.overlaps(im)
    expect(not ov, 'overlapping segments: %r' % (ov[:3],))
    covered = bytearray(len(img) // 2048 + 1)
    for (o, ln, kind, key) in im.segments:
        for s in range(o // 2048, (o + max(ln, 0) + 2047) // 2048):
            covered[s] = 1
    for s in range(len(img) // 2048):
        if not covered[s]:
            expect(not any(img[s * 2048:(s + 1) * 2048]), 'sector %d holds data but no decoded object claims it' % s)
    return im, accepted


def gpt_backup_inside_volume(img):
    """True if an 'EFI PART' backup header sits in the last 512 bytes and its 16 KiB partition array
    starts below the end of the ISO volume space (decided from raw bytes, not through the reader)."""
    if img[512:520] != b'EFI PART' or img[len(img) - 512:len(img) - 504] != b'EFI PART':
        return False
    space = struct.unpack_from('<I', img, 16 * 2048 + 80)[0] * 2048
    return len(img) - 512 - 128 * 128 < space


def check_gpt_clobber(c, img):
    im = reader.read_image(img, check=False)
    rules = set(p.rule for p in im.problems)
    ov = reader.overlaps(im)
    expect(ov and all(a[2].startswith('gpt-backup') or b[2].startswith('gpt-backup') for a, b in ov),
           'backup GPT inside the volume space not reported by overlaps(): %r' % (ov[:2],))
    if c['udf']:
        expect('udf-anchor-missing' in rules, 'clobbered last anchor not reported')
    expect(rules <= set(KNOWN) | {'udf-anchor-missing'}, 'unexpected rules on clobbered image: %r' % rules)


# ---------------------------------------------------------------------------------------------
# mutation tests: corrupt one thing in a valid image, expect the matching rule

def put(img, off, data):
    return img[:off] + data + img[off + len(data):]


def retag(img, off, crc_len=None):
    """Recompute CRC and checksum of the UDF descriptor tag at off (after a body mutation)."""
    import binascii
    if crc_len is None:
        crc_len = struct.unpack_from('<H', img, off + 10)[0]
    crc = binascii.crc_hqx(img[off + 16:off + 16 + crc_len], 0)
    img = put(img, off + 8, struct.pack('<H', crc))
    cs = (sum(img[off:off + 16]) - img[off + 4]) & 0xff
    return put(img, off + 4, bytes([cs]))


def mutations(img, im):
    """Yield (label, expected rule, mutated image)."""
    root = im.iso_root
    foo = [c for c in root.children if c.name.startswith(b'FOO.')][0]
    many = [c for c in root.children if c.name == b'MANY'][0]
    pvd = im.pvd['sector'] * 2048
    yield 'pvd ident', 'vd-bad-header', put(img, pvd + 1, b'CD002')
    yield 'pvd version', 'vd-bad-header', put(img, pvd + 6, b'\x03')
    term = [v for v in im.vds if v['type'] == 255][0]['sector'] * 2048
    yield 'no terminator', 'vd-no-terminator', put(img, term, b'\x00' * 2048)
    yield 'space size BE', 'both-endian-mismatch', put(img, pvd + 84, b'\x00\x00\x00\x01')
    yield 'root record length', 'root-record-bad', put(img, pvd + 156, b'\x24')
    yield 'root record flags', 'root-record-bad', put(img, pvd + 156 + 25, b'\x00')
    yield 'space size small', 'beyond-volume-size', put(img, pvd + 80, struct.pack('<I', 40) + struct.pack('>I', 40))
    yield 'space size huge', 'beyond-volume-size', put(img, pvd + 80, struct.pack('<I', 1 << 24) + struct.pack('>I', 1 << 24))
    yield 'file extent BE', 'both-endian-mismatch', put(img, foo.dr_offset + 6, b'\x7f\x00\x00\x00')
    yield 'file extent outside', 'extent-out-of-image', put(img, foo.dr_offset + 2, struct.pack('<I', 1 << 22) + struct.pack('>I', 1 << 22))
    yield 'dir length', 'dir-length-not-multiple', put(img, many.dr_offset + 10, struct.pack('<I', many.length + 1) + struct.pack('>I', many.length + 1))
    yield 'dr length odd identifier', 'dr-length-inconsistent', put(img, foo.dr_offset + 32, bytes([foo.dr_len]))
    roff = root.extents[0][0] * 2048
    yield 'dot extent', 'dot-wrong', put(img, roff + 2, struct.pack('<I', 99) + struct.pack('>I', 99))
    yield 'dotdot extent', 'dotdot-wrong', put(img, root.dotdot.dr_offset + 2, struct.pack('<I', 99) + struct.pack('>I', 99))
    moff = many.extents[0][0] * 2048
    yield 'child dot length', 'dot-wrong', put(img, moff + 10, struct.pack('<I', 2048 * 9) + struct.pack('>I', 2048 * 9))
    a, b = many.children[3], many.children[4]
    if a.dr_len == b.dr_len and a.dr_offset + a.dr_len == b.dr_offset:
        ra, rb = img[a.dr_offset:a.dr_offset + a.dr_len], img[b.dr_offset:b.dr_offset + b.dr_len]
        yield 'swap records', 'dir-not-sorted', put(img, a.dr_offset, rb + ra)
    last = many.children[-1]
    end = last.dr_offset + last.dr_len
    if end % 2048:
        yield 'padding', 'dir-padding-nonzero', put(img, end + 1, b'\x01')
    for x, y in zip(many.children, many.children[1:]):
        if x.dr_offset // 2048 != y.dr_offset // 2048:      # x is the last record of its sector
            room = 2048 - x.dr_offset % 2048
            if room + 2 <= 255:
                yield 'record crosses sector', 'dr-crosses-sector', put(img, x.dr_offset, bytes([room + 2]))
            break
    d1 = [c for c in root.children if c.name == b'D1'][0]
    d2 = [c for c in d1.children if c.name == b'D2'][0]
    yield 'dir cycle', 'dir-cycle', put(img, d2.dr_offset + 2, struct.pack('<I', d1.extents[0][0]) + struct.pack('>I', d1.extents[0][0]))
    L = im.path_tables['pvd']['L']
    M = im.path_tables['pvd']['M']
    yield 'ptable L extent', 'ptable-LM-differ', put(img, L[2]['offset'] + 2, struct.pack('<I', 77))
    both = put(put(img, L[2]['offset'] + 2, struct.pack('<I', 77)), M[2]['offset'] + 2, struct.pack('>I', 77))
    yield 'ptable extent', 'ptable-extent-wrong', both
    k = len(L) - 1
    both = put(put(img, L[k]['offset'] + 6, struct.pack('<H', 1)), M[k]['offset'] + 6, struct.pack('>H', 1))
    yield 'ptable parent', 'ptable-parent-wrong', both
    sz = im.pvd['path_tbl_size']
    yield 'ptable size', 'ptable-size-mismatch', put(img, pvd + 132, struct.pack('<I', sz - 2) + struct.pack('>I', sz - 2))
    drop = 8 + len(L[k]['name']) + (len(L[k]['name']) & 1)
    yield 'ptable shorter', 'ptable-missing-dir', put(img, pvd + 132, struct.pack('<I', sz - drop) + struct.pack('>I', sz - drop))
    # swap two sibling records (same parent, same record length) in both tables
    for i in range(1, len(L) - 1):
        if L[i]['parent'] == L[i + 1]['parent'] and len(L[i]['name']) == len(L[i + 1]['name']):
            m = img
            for T in (L, M):
                n = 8 + len(T[i]['name']) + (len(T[i]['name']) & 1)
                ra, rb = img[T[i]['offset']:T[i]['offset'] + n], img[T[i + 1]['offset']:T[i + 1]['offset'] + n]
                m = put(m, T[i]['offset'], rb + ra)
            yield 'ptable order', 'ptable-order', m
            break
    if im.joliet_root is not None:
        svd = im.svds[0]['sector'] * 2048
        yield 'joliet escape', 'joliet-escape', put(img, svd + 88, b'%/A')
    if im.rr_root is not None:
        px = None
        su = foo.su_offset + (14 if foo.xa else 0)
        pos = su
        for (sig, ln, ver, where) in foo.rr.entries:
            if where != 'dr':
                break
            if sig == b'PX':
                px = pos
            pos += ln
        yield 'rr entry length 0', 'rr-entry-overrun', put(img, su + 2, b'\x00')
        yield 'rr entry too long', 'rr-entry-overrun', put(img, su + 2, b'\xf0')
        yield 'rr PX BE', 'rr-both-endian-mismatch', put(img, px + 8, b'\x12\x34\x56\x78')
        lng = [c for c in root.children if c.name == b'LONG'][0]
        l0, l1 = lng.children[0], lng.children[1]

        def ce_entry(n):
            pos = n.su_offset + (14 if n.xa else 0)
            for (sig, ln, ver, where) in n.rr.entries:
                if sig == b'CE':
                    return pos
                pos += ln
        c0, c1 = ce_entry(l0), ce_entry(l1)
        blk, off, ln = l0.rr.ce[0]
        yield 'ce offset', 'ce-out-of-sector', put(img, c0 + 12, struct.pack('<I', 2040) + struct.pack('>I', 2040))
        yield 'ce block', 'ce-out-of-volume', put(img, c0 + 4, struct.pack('<I', 1 << 22) + struct.pack('>I', 1 << 22))
        yield 'ce shared', 'ce-overlap', put(img, c1 + 4, img[c0 + 4:c0 + 28])
        yield 'ce length -1', 'rr-entry-overrun', put(img, c0 + 20, struct.pack('<I', ln - 1) + struct.pack('>I', ln - 1))
        yield 'ce length +2', 'rr-len-mismatch', put(img, c0 + 20, struct.pack('<I', ln + 2) + struct.pack('>I', ln + 2))
        blk1, off1, ln1 = l1.rr.ce[0]
        if off1 >= 8:
            yield 'ce partial overlap', ('ce-overlap', ('rr-len-mismatch', 'rr-entry-overrun')), put(img, c0 + 4, struct.pack('<I', blk1) + struct.pack('>I', blk1)
                                                          + struct.pack('<I', off1 - 8) + struct.pack('>I', off1 - 8)
                                                          + struct.pack('<I', 12) + struct.pack('>I', 12))
        ph = [n for n in flatten(root).values() if n.rr is not None and n.rr.cl is not None]
        if ph:
            p = ph[0]
            pos = p.su_offset + (14 if p.xa else 0)
            for (sig, ln, ver, where) in p.rr.entries:
                if sig == b'CL':
                    break
                pos += ln
            yield 'cl target', 'cl-target-not-dir', put(img, pos + 4, struct.pack('<I', foo.extents[0][0]) + struct.pack('>I', foo.extents[0][0]))
            tgt = [n for n in flatten(root).values() if n.is_dir and n.extents[0][0] == p.rr.cl][0]
            dd = tgt.dotdot
            pos = dd.su_offset + (14 if dd.xa else 0)
            for (sig, ln, ver, where) in dd.rr.entries:
                if sig == b'PL':
                    break
                pos += ln
            yield 'pl', 'pl-wrong', put(img, pos + 4, struct.pack('<I', 5) + struct.pack('>I', 5))
    et = im.eltorito
    if et is not None:
        cat = et['catalog_sector'] * 2048
        yield 'eltorito ident', None, put(img, 17 * 2048 + 7, b'XL TORITO')     # no longer El Torito: accepted, eltorito None
        yield 'eltorito key', 'eltorito-validation', put(img, cat + 30, b'\x55\xab')
        yield 'eltorito checksum', 'eltorito-validation', put(img, cat + 4, b'Z')
        yield 'eltorito rba', 'eltorito-entry-rba', put(img, cat + 32 + 8, struct.pack('<I', 1 << 24))
        yield 'eltorito catalog', 'eltorito-boot-record', put(img, 17 * 2048 + 71, struct.pack('<I', 1 << 24))
        if et['sections']:
            yield 'eltorito last header', 'eltorito-sections', put(img, et['sections'][-1]['offset'], b'\x90')
    if im.hybrid is not None:
        yield 'mbr signature', 'mbr-signature', put(img, 510, b'\x55\xab')
    u = im.udf
    if u is not None:
        yield 'udf vrs', 'udf-vrs', put(img, u['vrs'][1][1] * 2048 + 1, b'BOOT2')
        yield 'udf anchor 256', 'udf-anchor-missing', put(img, 256 * 2048, b'\x00' * 16)
        last = (im.pvd['space_size'] - 1) * 2048
        yield 'udf anchor last', 'udf-anchor-missing', put(img, last, b'\x00' * 16)
        yield 'udf tag checksum', 'udf-tag-checksum', put(img, 32 * 2048 + 4, bytes([(img[32 * 2048 + 4] + 1) & 0xff]))
        yield 'udf tag crc', 'udf-tag-crc', put(img, 32 * 2048 + 30, bytes([img[32 * 2048 + 30] ^ 1]))
        o = u['partition']['sector'] * 2048
        m = put(img, o + 12, struct.pack('<I', 999))
        m = put(m, o + 4, bytes([(sum(m[o:o + 16]) - m[o + 4]) & 0xff]))
        yield 'udf tag location', 'udf-tag-location', m
        m = img
        for base in (u['main_vds_extent'][0], u['reserve_vds_extent'][0]):
            o = (base + u['partition']['sector'] - u['main_vds_extent'][0]) * 2048
            m = retag(put(m, o + 192, struct.pack('<I', 1 << 24)), o)
        yield 'udf partition length', 'udf-partition-bounds', m
        o = u['partition']['sector'] * 2048
        yield 'udf reserve differs', 'udf-reserve-vds-differs', retag(put(img, o + 188, struct.pack('<I', 258)), o)
        r = u['root']
        fe = r.fe_sector * 2048
        yield 'udf info length', 'udf-info-length', retag(put(img, fe + 56, struct.pack('<Q', r.length + 4)), fe)
        yield 'udf fid area', 'udf-fid-area', retag(put(put(img, fe + 56, struct.pack('<Q', r.length - 4)),
                                                    fe + 176, struct.pack('<I', r.length - 4)), fe)
        yield 'udf outside partition', 'udf-outside-partition', retag(put(img, fe + 180, struct.pack('<I', 1 << 24)), fe)
        f0 = r.children[0]
        yield 'udf fid crc', 'udf-tag-crc', put(img, f0.dr_offset + 40, bytes([img[f0.dr_offset + 40] ^ 0x20]))


def run_mutations(img, im, label):
    n = 0
    for item in mutations(img, im):
        name, rule, m = item
        also = ()
        if isinstance(rule, tuple):       # (rule that must be reported, rules that may be raised before it)
            rule, also = rule
        n += 1
        assert len(m) == len(img), name
        try:
            reader.read_image(m)
            got = None
        except reader.Malformed as e:
            got = e.rule
        if got != rule and got not in also:
            soft = reader.read_image(m, check=False).problems if got is not None else []
            raise AssertionError('%s: mutation %r gave %r, expected %r (all: %r)' % (label, name, got, rule, [p.rule for p in soft]))
        if rule is not None:
            # check=False must report the same rule without raising anything but Malformed
            try:
                soft = reader.read_image(m, check=False)
                assert rule in [p.rule for p in soft.problems], (label, name, [p.rule for p in soft.problems])
            except reader.Malformed as e:
                assert e.rule == rule or e.rule in also, (label, name, e.rule)
    return n


def run_fuzz(img, rounds, seed):
    rnd = random.Random(seed)
    interesting = [16 * 2048, 17 * 2048, 18 * 2048, 19 * 2048, 32 * 2048, 256 * 2048, 257 * 2048, 258 * 2048, 259 * 2048]
    ok = bad = 0
    for i in range(rounds):
        m = bytearray(img)
        for _ in range(rnd.choice((1, 2, 8, 64))):
            if rnd.random() < 0.5:
                base = rnd.choice(interesting)
                pos = base + rnd.randrange(0, 2048 * 4)
            else:
                pos = rnd.randrange(0, len(m))
            if pos < len(m):
                m[pos] = rnd.randrange(256)
        if rnd.random() < 0.1:
            m = m[:rnd.randrange(0, len(m))]
        t0 = time.time()
        for check in (True, False):
            try:
                reader.read_image(bytes(m), check=check)
                ok += 1
            except reader.Malformed:
                bad += 1
        assert time.time() - t0 < 20, 'reader too slow on corrupted input'
    return ok, bad


# ---------------------------------------------------------------------------------------------

def extra_cases():
    """Small dedicated images: features outside the matrix and known pycdlib deviations."""
    def write(iso):
        out = io.BytesIO()
        iso.write_fp(out)
        iso.close()
        return out.getvalue()
    n = 0
    # duplicate PVD, hidden flag
    iso = pycdlib.PyCdlib()
    iso.new(interchange_level=2, joliet=3, rock_ridge='1.09')
    iso.add_fp(io.BytesIO(b'abc'), 3, iso_path='/HIDDEN.;1', rr_name='hidden', joliet_path='/hidden')
    iso.add_fp(io.BytesIO(b'def'), 3, iso_path='/SHOWN.;1', rr_name='shown', joliet_path='/shown')
    iso.set_hidden(iso_path='/HIDDEN.;1')
    iso.duplicate_pvd()
    img = write(iso)
    im = reader.read_image(img)
    expect(im.n_pvd == 2 and [v['type'] for v in im.vds] == [1, 1, 2, 255], 'duplicate PVD: %r' % [v['type'] for v in im.vds])
    kids = {c.name: c for c in im.iso_root.children}
    expect(kids[b'HIDDEN.;1'].hidden and kids[b'HIDDEN.;1'].flags & 1 and not kids[b'SHOWN.;1'].hidden, 'hidden flag')
    expect(kids[b'SHOWN.;1'].date is not None and len(kids[b'SHOWN.;1'].date) == 7, 'recording date')
    m = put(img, 17 * 2048 + 40, b'X')
    try:
        reader.read_image(m)
        raise AssertionError('differing duplicate PVD accepted')
    except reader.Malformed as e:
        expect(e.rule == 'pvd-duplicates-differ', 'duplicate PVD rule: %s' % e.rule)
    n += 1
    # synthetic multi-extent file: give F01 the identifier of F00 and set the multi-extent flag on F00
    iso = pycdlib.PyCdlib()
    iso.new(interchange_level=3)
    for i in range(4):
        iso.add_fp(io.BytesIO(blob('me%d' % i, 2048 * (i + 1))), 2048 * (i + 1), iso_path='/F%02d.;1' % i)
    img = write(iso)
    im = reader.read_image(img)
    f0, f1 = im.iso_root.children[0], im.iso_root.children[1]
    m = put(put(img, f1.dr_offset + 33, f0.name), f0.dr_offset + 25, bytes([f0.flags | 0x80]))
    im2 = reader.read_image(m)
    g = im2.iso_root.children[0]
    expect(len(im2.iso_root.children) == 3 and len(g.extents) == 2 and g.length == 2048 * 3 and len(g.records) == 2
           and reader.read_file(m, g) == blob('me0', 2048) + blob('me1', 4096), 'multi-extent file')
    expect(not reader.overlaps(im2), 'multi-extent overlaps')
    try:
        reader.read_image(put(img, f0.dr_offset + 25, bytes([f0.flags | 0x80])))
        raise AssertionError('dangling multi-extent flag accepted')
    except reader.Malformed as e:
        expect(e.rule == 'dir-not-sorted', 'multi-extent rule: %s' % e.rule)
    n += 1
    # known deviation: plain byte order of the whole identifier instead of ECMA-119 9.3
    iso = pycdlib.PyCdlib()
    iso.new(interchange_level=3)
    iso.add_fp(io.BytesIO(b'a'), 1, iso_path='/A.B;1')
    iso.add_fp(io.BytesIO(b'b'), 1, iso_path='/A.B1;1')
    im = reader.read_image(write(iso), check=False)
    expect([p.rule for p in im.problems] == ['dir-not-sorted'] and [c.name for c in im.iso_root.children] == [b'A.B1;1', b'A.B;1'],
           'sort order deviation: %r' % [str(p) for p in im.problems])
    n += 1
    # former deviation (repaired in /repo): '..' of a directory created inside an already multi-sector directory
    iso = pycdlib.PyCdlib()
    iso.new()
    iso.add_directory('/A')
    for i in range(60):
        iso.add_fp(io.BytesIO(b'a'), 1, iso_path='/A/F%02d.;1' % i)
    iso.add_directory('/A/B')
    im = reader.read_image(write(iso), check=False)
    expect([p.rule for p in im.problems] == [], 'dotdot deviation: %r' % [str(p) for p in im.problems])
    n += 1
    # known deviation: root record of the enhanced descriptor is not updated when the root grows
    iso = pycdlib.PyCdlib()
    iso.new(interchange_level=4)
    for i in range(60):
        iso.add_fp(io.BytesIO(b'a'), 1, iso_path='/F%02d.;1' % i)
    im = reader.read_image(write(iso), check=False)
    expect([p.rule for p in im.problems] == [] and len(im.enhanced_root.children) == 60,
           'enhanced root deviation: %r' % [str(p) for p in im.problems])
    n += 1
    # a non-image
    for junk in (b'', b'\x00' * 40000, b'\xff' * 70000, blob('junk', 100000)):
        try:
            reader.read_image(junk)
            raise AssertionError('junk accepted')
        except reader.Malformed as e:
            expect(e.rule in ('vd-bad-header', 'vd-no-terminator', 'truncated'), 'junk rule %s' % e.rule)
    n += 1
    return n


def combos():
    out = []
    i = 0
    for level, joliet, rr, udf, xa in itertools.product((1, 2, 3, 4), (None, 3), (None, '1.09', '1.10', '1.12'),
                                                        (None, '2.60'), (False, True)):
        c = {'interchange_level': level, 'joliet': joliet, 'rock_ridge': rr, 'udf': udf, 'xa': xa}
        c['hybrid'] = (None, 'plain', None, 'efi', None, None, 'mac', None)[i % 8]
        c['hardlink'] = i % 3 == 0
        c['bigsub'] = i % 2 == 0
        i += 1
        out.append(c)
    if QUICK:
        out = out[::3]
    return out


def label(c):
    return 'L%d jol=%s rr=%s udf=%s xa=%d hy=%s hl=%d sub=%d' % (c['interchange_level'], c['joliet'], c['rock_ridge'], c['udf'],
                                                               c['xa'], c['hybrid'], c['hardlink'], c['bigsub'])


def main():
    t0 = time.time()
    done = 0
    skipped = []
    nlink_notes = {}
    count_notes = {}
    known_seen = {}
    mutated = 0
    fuzz = [0, 0]
    clobbered = 0
    for idx, c in enumerate(combos()):
        try:
            img, model, extras = build(c)
            filler = 0
            while gpt_backup_inside_volume(img):
                # known pycdlib defect (see reader.__doc__): the backup GPT is written over the end of
                # the volume.  The reader must notice; then retry with a slightly larger image.
                check_gpt_clobber(c, img)
                clobbered += 1
                filler += 12 * 2048
                img, model, extras = build(c, filler)
        except pycdlib.pycdlibexception.PyCdlibInvalidInput as e:
            skipped.append((label(c), str(e)))
            continue
        try:
            im, accepted = verify(c, img, model, extras)
        except Exception:
            print('FAILED on %s' % label(c))
            raise
        for r in accepted:
            known_seen[r] = known_seen.get(r, 0) + 1
        for k, (pred, _) in KNOWN.items():
            assert pred(c) is not True or k in accepted, 'known violation %s did not show up on %s' % (k, label(c))
        cats = set(m.detail.split(' has ')[0] for m in extras.get('nlink', []))
        relocating = bool(c['rock_ridge']) and c['interchange_level'] < 4
        assert cats == (NLINK_ON_RELOCATION if relocating else set()), 'check_rr_nlink findings on %s: %r' % (label(c), sorted(cats))
        for k in cats:
            nlink_notes.setdefault(k, []).append(label(c))
        if 'udf_counts' in extras:
            nf, ef, nd, ed = extras['udf_counts']
            if (nf, nd) != (ef, ed):
                count_notes[label(c)] = extras['udf_counts']
        done += 1
        if VERBOSE:
            print('ok  %-60s %7d bytes %4d segments' % (label(c), len(img), len(im.segments)))
        # mutation + fuzz tests on a spread of combos
        if not accepted and (idx % 6 == 1 or (c['rock_ridge'] and c['joliet'] and c['udf'] and c['interchange_level'] == 3)):
            mutated += run_mutations(img, im, label(c))
            ok, bad = run_fuzz(img, 15 if QUICK else 40, idx)
            fuzz[0] += ok
            fuzz[1] += bad
    extra = extra_cases()
    print('%d dedicated cases (duplicate PVD, hidden, multi-extent, known deviations, junk) passed' % extra)
    print('%d images verified, %d skipped (combination rejected by pycdlib), %.1fs' % (done, len(skipped), time.time() - t0))
    for s in skipped[:5]:
        print('  skipped: %s: %s' % s)
    print('%d mutations produced the expected rule; fuzz: %d decoded, %d Malformed, no other exception' % (mutated, fuzz[0], fuzz[1]))
    print('known violations seen: %r; backup GPT written over the volume end (detected, image rebuilt larger): %d' % (known_seen, clobbered))
    if nlink_notes:
        print('check_rr_nlink() findings (known, conventions differ; only on images with relocation): %d distinct' % len(nlink_notes))
        for k in sorted(nlink_notes)[:12]:
            print('  %s   [%d images]' % (k, len(nlink_notes[k])))
    if count_notes:
        print('UDF integrity descriptor counts differing from the tree (files got/tree, dirs got/tree): %d images, e.g. %r'
              % (len(count_notes), sorted(count_notes.items())[:2]))
    assert done >= 40 or QUICK
    print('SELFTEST PASSED')


if __name__ == '__main__':
    main()
