"""Entry point: ./check Cxx [--tier quick|thorough] [--replay file]"""
import argparse
import importlib
import json
import os
import sys
import traceback

from harness import common


def main():
    ap = argparse.ArgumentParser()
    ap.add_argument('prop')
    ap.add_argument('--tier', default=os.environ.get('VERIF_TIER', 'quick'))
    ap.add_argument('--replay')
    a = ap.parse_args()
    tier = a.tier if a.tier in ('quick', 'thorough') else 'quick'
    seed = int(os.environ.get('VERIF_SEED', '0') or 0)
    pid = a.prop.upper()
    mod = importlib.import_module('harness.props.' + pid.lower())
    ctx = common.Ctx(pid, tier, seed, level=getattr(mod, 'LEVEL', 'proof'))
    if a.replay:
        with open(a.replay) as fp:
            rep = json.load(fp)
        ctx.replay = rep
        if hasattr(mod, 'replay'):
            rc = mod.replay(ctx, rep)
            sys.exit(rc)
        print('no replay support for', pid)
        sys.exit(2)
    try:
        mod.run(ctx)
    except Exception:
        tb = traceback.format_exc()
        print(tb)
        ctx.broken.append({'name': 'harness', 'summary': 'check crashed: ' + tb[-1500:]})
    rc = ctx.finish()
    sys.exit(rc)


if __name__ == '__main__':
    main()
