"""System-level harness: configurations, edit-history generation, execution on the real library,
API views, Coq (FsSpec) rendering.  DESIGN.md sections 4 and 8.0."""
import io
import itertools

from harness import common
from harness.common import z

LBS = 2048
SIZES = [0, 0, 1, 7, 2047, 2048, 2049, 5000]


def blob_content(k, size):
    """Content of blob k: recognisable, distinct per (k, size) for size >= 1."""
    if size == 0:
        return b''
    head = ('<%d:%d>' % (k, size)).encode()
    body = bytes(((k * 131 + i * 7 + i // 253) % 256) for i in range(size))
    return (head + body)[:size] if size >= len(head) else bytes([(k * 37 + 11) % 256]) * size


class Config:
    def __init__(self, level=1, joliet=None, rr=None, udf=None, xa=False):
        self.level, self.joliet, self.rr, self.udf, self.xa = level, joliet, rr, udf, xa

    def key(self):
        return 'L%d-J%s-R%s-U%s-X%d' % (self.level, self.joliet or 0, self.rr or 0, 1 if self.udf else 0, int(self.xa))

    def new(self, **extra):
        import pycdlib
        iso = pycdlib.PyCdlib(**extra)
        kw = {'interchange_level': self.level}
        if self.joliet:
            kw['joliet'] = self.joliet
        if self.rr:
            kw['rock_ridge'] = self.rr
        if self.udf:
            kw['udf'] = self.udf
        if self.xa:
            kw['xa'] = True
        iso.new(**kw)
        return iso


def all_configs():
    out = []
    for level, joliet, rr, udf, xa in itertools.product((1, 2, 3, 4), (None, 1, 2, 3), (None, '1.09', '1.10', '1.12'),
                                                         (None, '2.60'), (False, True)):
        out.append(Config(level, joliet, rr, udf, xa))
    return out


def covering_configs(rng, n):
    """A spread of configurations: every value of every dimension appears, pairs mixed by shuffling."""
    allc = all_configs()
    rng.shuffle(allc)
    chosen = []
    seen = set()
    for c in allc:
        feats = [('l', c.level), ('j', c.joliet), ('r', c.rr), ('u', c.udf), ('x', c.xa)]
        pairs = set(itertools.combinations(feats, 2))
        if not pairs <= seen or len(chosen) < 8:
            chosen.append(c)
            seen |= pairs
        if len(chosen) >= n:
            break
    return chosen[:n]


# ---------------------------------------------------------------- names

class Names:
    """component string <-> abstract identifier used by the Coq spec."""

    def __init__(self):
        self.ids = {}

    def id(self, s):
        if s not in self.ids:
            self.ids[s] = len(self.ids) + 1
        return self.ids[s]

    def path(self, p):
        comps = [c for c in p.split('/') if c]
        return '[' + '; '.join(z(self.id(c)) for c in comps) + ']'


def iso_file_name(cfg, k):
    base = ['F', 'G', 'DATA', 'X_', 'A1'][k % 5] + str(k)
    if cfg.level == 1:
        return '%s.%s;1' % (base[:8], ['', 'T', 'TXT'][k % 3])
    if k % 7 == 3:
        return '%s.;%d' % (base, [1, 2, 32767][k % 3])
    return '%s.%s;1' % (base + 'LONGERNAME'[:k % 9], ['', 'T', 'TXT', 'HTML'][k % 4] if cfg.level >= 2 else 'T')


def iso_dir_name(cfg, k):
    base = ['D', 'DIR', 'E_'][k % 3] + str(k)
    if cfg.level == 1:
        return base[:8]
    return base + 'SUBDIRECTORY'[:k % 11]


def long_name(k, very_long=False):
    # 'aXA', 'xyXA': names whose bytes look like the signature of another structure at a fixed offset of the System Use area
    base = ['f', 'some file ', 'Ünï-', '日本-', 'aXA-', 'SP', 'xyzwXA'][k % 7] + str(k) + ['', '.txt', ' (copy).tar.gz'][k % 3]
    if very_long:
        base = base + '-' + 'long-rock-ridge-name-' * (7 + k % 5)      # 150..260 bytes: continuation areas
    return base


# ---------------------------------------------------------------- history generation

class Shadow:
    """Cheap Python mirror of the namespaces, used only to generate mostly-valid edits."""

    def __init__(self, cfg):
        self.cfg = cfg
        self.ns = {'iso': {}, 'jol': {}, 'udf': {}}   # path -> dict(kind, blob, rr)
        self.boot = None
        self.nblob = 0
        self.nname = 0
        self.sizes = {}

    def dirs(self, n):
        return ['/'] + [p for p, e in self.ns[n].items() if e['kind'] == 'dir']

    def files(self, n):
        return [p for p, e in self.ns[n].items() if e['kind'] == 'file']

    def join(self, d, name):
        return (d.rstrip('/') + '/' + name)

    def depth(self, p):
        return len([c for c in p.split('/') if c])


def gen_history(rng, cfg, nops, empty_bias=0.25, allow_boot=True, allow_refusals=True, allow_symlinks=True,
                allow_links=True, max_depth=6, long_rr=0.04, link_bias=0.0, refusal_bias=0.0, fat_dir=0.0):
    """Returns list of op dicts.  Each op: kind + concrete string arguments."""
    sh = Shadow(cfg)
    ops = []

    def fresh():
        sh.nname += 1
        return sh.nname

    def pick_ns_paths(kind, want_iso=True):
        """choose parent dirs that exist in every namespace used, and fresh names"""
        k = fresh()
        out = {}
        # choose a common relative directory: pick an ISO dir and map to other namespaces via the same index
        if want_iso:
            d = rng.choice([p for p in sh.dirs('iso') if sh.depth(p) < max_depth])
            name = iso_dir_name(cfg, k) if kind == 'dir' else iso_file_name(cfg, k)
            out['iso'] = sh.join(d, name)
            if cfg.rr:
                out['rr'] = (long_name(k, rng.random() < long_rr) if k % 5 else 'n' + str(k))
        if cfg.joliet and rng.random() < 0.8:
            d = rng.choice([p for p in sh.dirs('jol') if sh.depth(p) < max_depth])
            out['jol'] = sh.join(d, long_name(k))
        if cfg.udf and rng.random() < 0.8:
            d = rng.choice([p for p in sh.dirs('udf') if sh.depth(p) < max_depth])
            out['udf'] = sh.join(d, long_name(k))
        return out

    def apply_add(paths, kind, blob=None, target=None):
        for n in ('iso', 'jol', 'udf'):
            if n in paths:
                sh.ns[n][paths[n]] = {'kind': kind, 'blob': blob, 'rr': paths.get('rr') if n == 'iso' else None,
                                      'target': target}

    fat = rng.random() < fat_dir
    while len(ops) < nops:
        r = rng.random()
        if link_bias and rng.random() < link_bias:
            r = 0.62 + rng.random() * 0.18          # add_link / rm_link
        if refusal_bias and rng.random() < refusal_bias:
            r = 0.97
        if fat and rng.random() < 0.7:
            r = 0.1 if rng.random() < 0.8 else 0.5   # mostly add_fp, some rm_file
        nfiles = sum(len(sh.files(n)) for n in sh.ns)
        if r < 0.30 or nfiles == 0:
            want_iso = rng.random() < 0.9 or not (cfg.joliet or cfg.udf)
            paths = pick_ns_paths('file', want_iso)
            if not any(n in paths for n in ('iso', 'jol', 'udf')):
                continue
            sh.nblob += 1
            size = 0 if rng.random() < empty_bias else rng.choice(SIZES)
            sh.sizes[sh.nblob] = size
            ops.append(dict(k='add_fp', blob=sh.nblob, size=size, **paths))
            apply_add(paths, 'file', blob=sh.nblob)
        elif r < 0.45:
            want_iso = rng.random() < 0.9 or not (cfg.joliet or cfg.udf)
            paths = pick_ns_paths('dir', want_iso)
            if not any(n in paths for n in ('iso', 'jol', 'udf')):
                continue
            ops.append(dict(k='add_dir', **paths))
            apply_add(paths, 'dir')
        elif r < 0.55:
            n = rng.choice([n for n in sh.ns if sh.files(n)] or ['iso'])
            if not sh.files(n):
                continue
            p = rng.choice(sh.files(n))
            e = sh.ns[n][p]
            ops.append(dict(k='rm_file', ns=n, path=p))
            if sh.boot and (e['blob'] == sh.boot['blob'] or e['blob'] == -1):
                continue   # refused
            if e['blob']:
                for m in sh.ns:
                    for q in [q for q, x in sh.ns[m].items() if x['kind'] == 'file' and x['blob'] == e['blob']]:
                        del sh.ns[m][q]
            else:
                del sh.ns[n][p]
        elif r < 0.62:
            # rm_directory of an empty directory in one or several namespaces
            cand = {}
            for n in sh.ns:
                empt = [p for p in sh.dirs(n) if p != '/' and not any(q.startswith(p + '/') for q in sh.ns[n])]
                if empt:
                    cand[n] = rng.choice(empt)
            if not cand:
                continue
            sel = {n: p for n, p in cand.items() if rng.random() < 0.7} or dict([rng.choice(list(cand.items()))])
            ops.append(dict(k='rm_dir', **sel))
            for n, p in sel.items():
                del sh.ns[n][p]
        elif r < 0.72 and allow_links:
            srcs = [(n, p) for n in sh.ns for p in sh.files(n) if sh.ns[n][p]['blob'] and sh.ns[n][p]['blob'] > 0]
            if not srcs:
                continue
            sn, sp = rng.choice(srcs)
            targets = ['iso'] + (['jol'] if cfg.joliet else []) + (['udf'] if cfg.udf else [])
            tn = rng.choice(targets)
            k = fresh()
            d = rng.choice([p for p in sh.dirs(tn) if sh.depth(p) < max_depth])
            name = iso_file_name(cfg, k) if tn == 'iso' else long_name(k)
            op = dict(k='add_link', src_ns=sn, src=sp, ns=tn, path=sh.join(d, name))
            if tn == 'iso' and cfg.rr:
                op['rr'] = 'l' + str(k)
            ops.append(op)
            sh.ns[tn][op['path']] = {'kind': 'file', 'blob': sh.ns[sn][sp]['blob'], 'rr': op.get('rr'), 'target': None}
        elif r < 0.80 and allow_links:
            n = rng.choice([n for n in sh.ns if sh.files(n)] or ['iso'])
            if not sh.files(n):
                continue
            p = rng.choice(sh.files(n))
            ops.append(dict(k='rm_link', ns=n, path=p))
            del sh.ns[n][p]
        elif r < 0.85 and allow_symlinks and cfg.rr:
            k = fresh()
            d = rng.choice([p for p in sh.dirs('iso') if sh.depth(p) < max_depth])
            tgt = rng.choice(['foo', '/abs/path', '../up/x', './here', 'a/b/c/d/e', 'x' * 40 + '/' + 'y' * 30])
            op = dict(k='add_symlink_rr', iso=sh.join(d, iso_file_name(cfg, k)), rr='s' + str(k), target=tgt)
            ops.append(op)
            sh.ns['iso'][op['iso']] = {'kind': 'sym', 'blob': None, 'rr': op['rr'], 'target': tgt}
        elif r < 0.88 and allow_symlinks and cfg.udf and not cfg.rr:
            k = fresh()
            d = rng.choice([p for p in sh.dirs('iso') if sh.depth(p) < max_depth])
            du = rng.choice([p for p in sh.dirs('udf') if sh.depth(p) < max_depth])
            tgt = rng.choice(['foo', '/abs/path', '../up/x', 'a/b/c'])
            op = dict(k='add_symlink_udf', iso=sh.join(d, iso_file_name(cfg, k)), udf=sh.join(du, 'sym' + str(k)), target=tgt)
            ops.append(op)
            sh.ns['iso'][op['iso']] = {'kind': 'file', 'blob': 0, 'rr': None, 'target': None}
            sh.ns['udf'][op['udf']] = {'kind': 'sym', 'blob': None, 'rr': None, 'target': tgt}
        elif r < 0.92:
            n = rng.choice(['iso'] + (['jol'] if cfg.joliet else []))
            cand = [p for p in sh.ns[n]]
            if not cand:
                continue
            ops.append(dict(k='set_hidden', ns=n, path=rng.choice(cand), hidden=rng.random() < 0.7))
        elif r < 0.95 and allow_boot:
            if sh.boot is None:
                cand = [p for p in sh.files('iso') if (sh.ns['iso'][p]['blob'] or 0) > 0 and
                        sh.sizes.get(sh.ns['iso'][p]['blob'], 0) > 0]
                if not cand:
                    continue
                k = fresh()
                bf = rng.choice(cand)
                op = dict(k='add_eltorito', bootfile=bf, catalog='/' + ('BOOT%d.CAT;1' % (k % 100))[-12:])
                if cfg.rr:
                    op['rr'] = 'boot%d.cat' % k
                if cfg.joliet:
                    op['jol'] = '/boot%d.cat' % k
                if cfg.udf:
                    op['udf'] = '/boot%d.cat' % k
                ops.append(op)
                sh.boot = {'blob': sh.ns['iso'][bf]['blob']}
                sh.ns['iso'][op['catalog']] = {'kind': 'file', 'blob': -1, 'rr': op.get('rr'), 'target': None}
                for m in ('jol', 'udf'):
                    if m in op:
                        sh.ns[m][op[m]] = {'kind': 'file', 'blob': -1, 'rr': None, 'target': None}
            else:
                ops.append(dict(k='rm_eltorito'))
                sh.boot = None
                for m in sh.ns:
                    for q in [q for q, x in sh.ns[m].items() if x['kind'] == 'file' and x['blob'] == -1]:
                        del sh.ns[m][q]
        elif allow_refusals:
            # an edit that must be refused
            kind = rng.choice(['dup_file', 'dup_dir', 'missing_parent', 'rm_missing', 'rm_file_on_dir',
                               'rm_dir_nonempty', 'rm_dir_on_file', 'bad_name', 'dup_other_ns'])
            k = fresh()
            if kind == 'dup_file' and sh.ns['iso']:
                p = rng.choice(list(sh.ns['iso']))
                sh.nblob += 1
                sh.sizes[sh.nblob] = 5
                op = dict(k='add_fp', blob=sh.nblob, size=5, iso=p, why=kind)
                if cfg.rr:
                    op['rr'] = 'dup' + str(k)
                ops.append(op)
            elif kind == 'dup_dir' and sh.ns['iso']:
                p = rng.choice(list(sh.ns['iso']))
                op = dict(k='add_dir', iso=p, why=kind)
                if cfg.rr:
                    op['rr'] = 'dupd' + str(k)
                ops.append(op)
            elif kind == 'dup_other_ns' and (cfg.joliet or cfg.udf):
                n = 'jol' if cfg.joliet and (not cfg.udf or rng.random() < 0.5) else 'udf'
                if not sh.ns[n]:
                    continue
                p = rng.choice(list(sh.ns[n]))
                sh.nblob += 1
                sh.sizes[sh.nblob] = 5
                ops.append(dict(k='add_fp', blob=sh.nblob, size=5, why=kind, **{n: p}))
            elif kind == 'missing_parent':
                sh.nblob += 1
                sh.sizes[sh.nblob] = 5
                op = dict(k='add_fp', blob=sh.nblob, size=5, iso='/NODIR%d/%s' % (k % 10, iso_file_name(cfg, k)), why=kind)
                if cfg.rr:
                    op['rr'] = 'mp' + str(k)
                ops.append(op)
            elif kind == 'rm_missing':
                ops.append(dict(k='rm_file', ns='iso', path='/' + iso_file_name(cfg, k), why=kind))
            elif kind == 'rm_file_on_dir' and len(sh.dirs('iso')) > 1:
                ops.append(dict(k='rm_file', ns='iso', path=rng.choice(sh.dirs('iso')[1:]), why=kind))
            elif kind == 'rm_dir_nonempty':
                ne = [p for p in sh.dirs('iso') if p != '/' and any(q.startswith(p + '/') for q in sh.ns['iso'])]
                if ne:
                    ops.append(dict(k='rm_dir', iso=rng.choice(ne), why=kind))
            elif kind == 'rm_dir_on_file' and sh.files('iso'):
                ops.append(dict(k='rm_dir', iso=rng.choice(sh.files('iso')), why=kind))
            elif kind == 'bad_name':
                bad = rng.choice(['/lower.;1', '/A B.;1', '/TOOLONGNAME9.;1' if cfg.level == 1 else '/A;1;2',
                                  '/X.;0', '/Y.;32768', '/Z.;A', '/.;1'])
                if cfg.level == 4 and bad in ('/lower.;1', '/A B.;1'):
                    continue
                sh.nblob += 1
                sh.sizes[sh.nblob] = 5
                op = dict(k='add_fp', blob=sh.nblob, size=5, iso=bad, why=kind, bad=True)
                if cfg.rr:
                    op['rr'] = 'bad' + str(k)
                ops.append(op)
    return ops, sh.sizes


# ---------------------------------------------------------------- execution on the implementation

def outcome_of(exc):
    from pycdlib import pycdlibexception as pe
    if exc is None:
        return 'ok'
    if isinstance(exc, pe.PyCdlibInvalidInput):
        return 'refused'
    if isinstance(exc, pe.PyCdlibInvalidISO):
        return 'fault:PyCdlibInvalidISO'
    if isinstance(exc, pe.PyCdlibInternalError):
        return 'fault:PyCdlibInternalError'
    return 'fault:' + type(exc).__name__


def apply_op(iso, op, sizes):
    """Issue one edit on a PyCdlib object; returns outcome string."""
    k = op['k']
    try:
        if k == 'add_fp':
            data = blob_content(op['blob'], op['size'])
            if op.get('isolinux'):
                data = (b'\x00' * 0x40 + b'\xfb\xc0\x78\x70' + data)[:max(op['size'], 0x44)]
            kw = {}
            if 'iso' in op:
                kw['iso_path'] = op['iso']
            if 'rr' in op:
                kw['rr_name'] = op['rr']
            if 'jol' in op:
                kw['joliet_path'] = op['jol']
            if 'udf' in op:
                kw['udf_path'] = op['udf']
            iso.add_fp(io.BytesIO(data), len(data), **kw)
        elif k == 'add_dir':
            kw = {}
            if 'iso' in op:
                kw['iso_path'] = op['iso']
            if 'rr' in op:
                kw['rr_name'] = op['rr']
            if 'jol' in op:
                kw['joliet_path'] = op['jol']
            if 'udf' in op:
                kw['udf_path'] = op['udf']
            iso.add_directory(**kw)
        elif k == 'rm_file':
            iso.rm_file(**{{'iso': 'iso_path', 'jol': 'joliet_path', 'udf': 'udf_path'}[op['ns']]: op['path']})
        elif k == 'rm_dir':
            kw = {}
            if 'iso' in op:
                kw['iso_path'] = op['iso']
            if 'jol' in op:
                kw['joliet_path'] = op['jol']
            if 'udf' in op:
                kw['udf_path'] = op['udf']
            iso.rm_directory(**kw)
        elif k == 'add_link':
            kw = {{'iso': 'iso_old_path', 'jol': 'joliet_old_path', 'udf': 'udf_old_path'}[op['src_ns']]: op['src'],
                  {'iso': 'iso_new_path', 'jol': 'joliet_new_path', 'udf': 'udf_new_path'}[op['ns']]: op['path']}
            if 'rr' in op:
                kw['rr_name'] = op['rr']
            iso.add_hard_link(**kw)
        elif k == 'rm_link':
            iso.rm_hard_link(**{{'iso': 'iso_path', 'jol': 'joliet_path', 'udf': 'udf_path'}[op['ns']]: op['path']})
        elif k == 'add_symlink_rr':
            iso.add_symlink(symlink_path=op['iso'], rr_symlink_name=op['rr'], rr_path=op['target'])
        elif k == 'add_symlink_udf':
            iso.add_symlink(symlink_path=op['iso'], udf_symlink_path=op['udf'], udf_target=op['target'])
        elif k == 'set_hidden':
            kw = {{'iso': 'iso_path', 'jol': 'joliet_path', 'rr': 'rr_path'}[op['ns']]: op['path']}
            (iso.set_hidden if op['hidden'] else iso.clear_hidden)(**kw)
        elif k == 'add_eltorito':
            kw = {'bootcatfile': op['catalog']}
            if 'rr' in op:
                kw['rr_bootcatname'] = op['rr']
            if 'jol' in op:
                kw['joliet_bootcatfile'] = op['jol']
            if 'udf' in op:
                kw['udf_bootcatfile'] = op['udf']
            for extra in ('boot_info_table', 'media_name', 'platform_id', 'efi', 'bootable', 'boot_load_size'):
                if extra in op:
                    kw[extra] = op[extra]
            iso.add_eltorito(op['bootfile'], **kw)
        elif k == 'add_eltorito_section':
            kw = {}
            for extra in ('media_name', 'efi', 'bootable', 'boot_load_size'):
                if extra in op:
                    kw[extra] = op[extra]
            iso.add_eltorito(op['bootfile'], **kw)
        elif k == 'rm_eltorito':
            iso.rm_eltorito()
        elif k == 'add_isohybrid':
            iso.add_isohybrid(**op.get('kw', {}))
        elif k == 'rm_isohybrid':
            iso.rm_isohybrid()
        elif k == 'force_consistency':
            iso.force_consistency()
        elif k == 'dup_pvd':
            iso.duplicate_pvd()
        elif k == 'set_reloc':
            iso.set_relocated_name(op['name'], op['rr'])
        else:
            raise ValueError('unknown op ' + k)
        return 'ok'
    except Exception as e:  # noqa
        return outcome_of(e)


def write_image(iso):
    out = io.BytesIO()
    iso.write_fp(out)
    return out.getvalue()


def reopen(img):
    import pycdlib
    iso = pycdlib.PyCdlib()
    iso.open_fp(io.BytesIO(img))
    return iso


# ---------------------------------------------------------------- views through the library's API

def api_view(iso, cfg, content_key, read_data=True):
    """Set of view tuples (ns, path, kind, value, hidden, rr) as seen through the public API.
    kind: 'dir' | 'file' | 'sym'; value: content key for files (via content_key(bytes)), target for symlinks."""
    view = set()
    spaces = [('iso', 'iso_path')]
    if iso.has_joliet():
        spaces.append(('jol', 'joliet_path'))
    if iso.has_udf():
        spaces.append(('udf', 'udf_path'))
    for n, kwname in spaces:
        for dirname, dirlist, filelist in iso.walk(**{kwname: '/'}):
            for name in list(dirlist) + list(filelist):
                p = dirname.rstrip('/') + '/' + name
                rec = iso.get_record(**{kwname: p})
                hidden = False
                rr = None
                if n != 'udf':
                    hidden = bool(rec.file_flags & 1)
                    if n == 'iso' and rec.rock_ridge is not None:
                        rr = rec.rock_ridge.name().decode('utf-8')
                if rec.is_dir():
                    view.add((n, p, 'dir', None, hidden, rr))
                elif rec.is_symlink():
                    tgt = None
                    if n == 'iso':
                        tgt = rec.rock_ridge.symlink_path().decode('utf-8')
                    view.add((n, p, 'sym', tgt, hidden, rr))
                else:
                    val = None
                    if read_data:
                        out = io.BytesIO()
                        iso.get_file_from_iso_fp(out, **{kwname: p})
                        val = content_key(out.getvalue(), p)
                    view.add((n, p, 'file', val, hidden, rr))
    return view


# ---------------------------------------------------------------- rendering for the Coq spec

def coq_op(op, names, cfg):
    def P(p):
        return names.path(p)

    def opt(p):
        return '(Some %s)' % P(p) if p is not None else 'None'

    def rrid(op):
        return z(names.id('rr:' + op['rr'])) if 'rr' in op else '0'
    k = op['k']
    if op.get('bad'):
        return 'Bad'
    if k in ('add_fp', 'add_dir'):
        iso = '(Some (%s, %s))' % (P(op['iso']), rrid(op)) if 'iso' in op else 'None'
        head = 'AddFp %s' % z(op['blob']) if k == 'add_fp' else 'AddDir'
        return '%s %s %s %s' % (head, iso, opt(op.get('jol')), opt(op.get('udf')))
    NS = {'iso': 'NsIso', 'jol': 'NsJoliet', 'udf': 'NsUdf'}
    if k == 'rm_file':
        return 'RmFile %s %s' % (NS[op['ns']], P(op['path']))
    if k == 'rm_dir':
        return 'RmDir %s %s %s' % (opt(op.get('iso')), opt(op.get('jol')), opt(op.get('udf')))
    if k == 'add_link':
        return 'AddLink (SrcPath %s %s) %s %s %s' % (NS[op['src_ns']], P(op['src']), NS[op['ns']], P(op['path']), rrid(op))
    if k == 'rm_link':
        return 'RmLink %s %s' % (NS[op['ns']], P(op['path']))
    if k == 'add_symlink_rr':
        return 'AddSymlinkRR %s %s %s' % (P(op['iso']), rrid(op), z(names.id('tgt:' + op['target'])))
    if k == 'add_symlink_udf':
        return 'AddSymlinkUdf %s %s %s' % (P(op['iso']), P(op['udf']), z(names.id('tgt:' + op['target'])))
    if k == 'set_hidden':
        return 'SetHidden %s %s %s' % (NS[op['ns']], P(op['path']), 'true' if op['hidden'] else 'false')
    if k == 'add_eltorito':
        return 'AddEltorito %s %s %s %s %s' % (P(op['bootfile']), P(op['catalog']), rrid(op), opt(op.get('jol')), opt(op.get('udf')))
    if k == 'add_eltorito_section':
        return 'AddEltoritoSection %s' % P(op['bootfile'])
    if k == 'rm_eltorito':
        return 'RmEltorito'
    raise ValueError(k)


def coq_view(view, names, udf_sym_targets=False):
    """view tuples -> Coq list of ventry"""
    NS = {'iso': 'NsIso', 'jol': 'NsJoliet', 'udf': 'NsUdf'}
    items = []
    for (n, p, kind, val, hidden, rr) in sorted(view, key=repr):
        if kind == 'dir':
            kc, v = 0, 0
        elif kind == 'file':
            kc, v = 1, val
        else:
            kc = 2
            v = names.id('tgt:' + val) if val is not None else 0
        items.append('(%s, %s, %d, %s, %s, %s)' % (NS[n], names.path(p), kc, z(v), 'true' if hidden else 'false',
                                                   z(names.id('rr:' + rr)) if rr is not None else '0'))
    return '[' + '; '.join(items) + ']'


# ---------------------------------------------------------------- shrinking

def shrink_history(ops, still_fails, max_rounds=400):
    """Delta debugging: drop edits while `still_fails(ops)` holds (it re-executes from scratch)."""
    cur = list(ops)
    rounds = 0
    n = 2
    while len(cur) >= 2 and rounds < max_rounds:
        chunk = max(1, len(cur) // n)
        reduced = False
        for i in range(0, len(cur), chunk):
            cand = cur[:i] + cur[i + chunk:]
            rounds += 1
            if cand and still_fails(cand):
                cur = cand
                n = max(n - 1, 2)
                reduced = True
                break
        if not reduced:
            if chunk == 1:
                break
            n = min(len(cur), n * 2)
    return cur


def op_shape(ops):
    """Signature of a (shrunk) history: op kinds in order with the distinguishing argument class."""
    parts = []
    for op in ops:
        k = op['k']
        if k in ('add_fp', 'add_dir'):
            nsl = ''.join(n[0] for n in ('iso', 'jol', 'udf') if n in op)
            extra = ''
            if k == 'add_fp':
                extra = ':empty' if op.get('size', 1) == 0 else ''
            parts.append('%s[%s]%s' % (k, nsl, extra))
        elif k in ('rm_file', 'rm_link', 'set_hidden'):
            parts.append('%s[%s]' % (k, op['ns'][0]))
        elif k == 'rm_dir':
            parts.append('rm_dir[%s]' % ''.join(n[0] for n in ('iso', 'jol', 'udf') if n in op))
        elif k == 'add_link':
            parts.append('add_link[%s>%s]' % (op['src_ns'][0], op['ns'][0]))
        else:
            parts.append(k)
    return ','.join(parts)
