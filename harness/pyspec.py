"""Python mirror of coq/theories/Spec/FsSpec.v.  NOT a source of verdicts: it only drives shrinking
and argument/config minimisation of disagreements that the Coq evaluation has already established
(and every shrunk case is confirmed by Coq again before it is reported)."""


class Fs:
    def __init__(self):
        self.ns = {'iso': {}, 'jol': {}, 'udf': {}}   # path -> dict(kind, blob, target, hidden, rr)
        self.boot = None                               # dict(blobs=[...], names=[(ns, path)])

    def copy(self):
        import copy
        return copy.deepcopy(self)


def parent(p):
    i = p.rstrip('/').rfind('/')
    return p[:i] if i > 0 else '/'


def is_dir_at(l, p):
    if p == '/':
        return True
    return p in l and l[p]['kind'] == 'dir'


def can_add(l, p):
    if p == '/' or not p.startswith('/'):
        return False
    return is_dir_at(l, parent(p)) and p not in l


def norm(p):
    return '/' + '/'.join(c for c in p.split('/') if c)


def step(s, op):
    """returns 'ok' or 'refused'; mutates s only when ok"""
    k = op['k']
    if op.get('bad'):
        return 'refused'
    if k in ('add_fp', 'add_dir'):
        given = [(n, norm(op[n])) for n in ('iso', 'jol', 'udf') if n in op]
        if not given or not all(can_add(s.ns[n], p) for n, p in given):
            return 'refused'
        for n, p in given:
            s.ns[n][p] = dict(kind='file' if k == 'add_fp' else 'dir', blob=op.get('blob') if k == 'add_fp' else None,
                              target=None, hidden=False, rr=op.get('rr') if n == 'iso' else None)
            if k == 'add_fp' and op.get('size') == 0:
                s.ns[n][p]['empty'] = True
        return 'ok'
    if k == 'rm_file':
        n, p = op['ns'], norm(op['path'])
        e = s.ns[n].get(p)
        if e is None or e['kind'] != 'file':
            return 'refused'
        b = e['blob']
        if s.boot and ((n, p) in s.boot['names'] or (b != 0 and b in s.boot['blobs'])):
            return 'refused'
        if b == 0:
            del s.ns[n][p]
        else:
            for m in s.ns:
                for q in [q for q, x in s.ns[m].items() if x['kind'] == 'file' and x['blob'] == b]:
                    del s.ns[m][q]
        return 'ok'
    if k == 'rm_dir':
        given = [(n, norm(op[n])) for n in ('iso', 'jol', 'udf') if n in op]
        if not given:
            return 'refused'
        for n, p in given:
            l = s.ns[n]
            if p == '/' or not is_dir_at(l, p) or any(parent(q) == p for q in l):
                return 'refused'
        for n, p in given:
            del s.ns[n][p]
        return 'ok'
    if k == 'add_link':
        sn, sp = op['src_ns'], norm(op['src'])
        if s.boot and (sn, sp) in s.boot['names']:
            return 'refused'
        e = s.ns[sn].get(sp)
        if e is None or e['kind'] != 'file':
            return 'refused'
        n, p = op['ns'], norm(op['path'])
        if not can_add(s.ns[n], p):
            return 'refused'
        s.ns[n][p] = dict(kind='file', blob=e['blob'], target=None, hidden=False, rr=op.get('rr') if n == 'iso' else None)
        if e.get('empty'):
            s.ns[n][p]['empty'] = True
        return 'ok'
    if k == 'rm_link':
        n, p = op['ns'], norm(op['path'])
        e = s.ns[n].get(p)
        if e is None or e['kind'] == 'dir':
            return 'refused'
        del s.ns[n][p]
        return 'ok'
    if k == 'add_symlink_rr':
        p = norm(op['iso'])
        if not can_add(s.ns['iso'], p):
            return 'refused'
        s.ns['iso'][p] = dict(kind='sym', blob=None, target=op['target'], hidden=False, rr=op['rr'])
        return 'ok'
    if k == 'add_symlink_udf':
        p, u = norm(op['iso']), norm(op['udf'])
        if not (can_add(s.ns['iso'], p) and can_add(s.ns['udf'], u)):
            return 'refused'
        s.ns['iso'][p] = dict(kind='file', blob=0, target=None, hidden=False, rr=None, empty=True)
        s.ns['udf'][u] = dict(kind='sym', blob=None, target=op['target'], hidden=False, rr=None)
        return 'ok'
    if k == 'set_hidden':
        n, p = op['ns'], norm(op['path'])
        if p == '/' or p not in s.ns[n]:
            return 'refused'
        s.ns[n][p]['hidden'] = op['hidden']
        return 'ok'
    if k == 'add_eltorito':
        bf = norm(op['bootfile'])
        e = s.ns['iso'].get(bf)
        if s.boot is not None or e is None or e['kind'] != 'file' or e['blob'] == 0:
            return 'refused'
        given = [('iso', norm(op['catalog']))] + [(m, norm(op[m])) for m in ('jol', 'udf') if m in op]
        if not all(can_add(s.ns[n], p) for n, p in given):
            return 'refused'
        for n, p in given:
            s.ns[n][p] = dict(kind='file', blob=-1, target=None, hidden=False, rr=op.get('rr') if n == 'iso' else None)
        s.boot = dict(blobs=[e['blob']], names=list(given))
        return 'ok'
    if k == 'add_eltorito_section':
        bf = norm(op['bootfile'])
        e = s.ns['iso'].get(bf)
        if s.boot is None or e is None or e['kind'] != 'file' or e['blob'] in (0, -1):
            return 'refused'
        s.boot['blobs'].append(e['blob'])
        return 'ok'
    if k == 'rm_eltorito':
        if s.boot is None:
            return 'refused'
        for m in s.ns:
            for q in [q for q, x in s.ns[m].items() if x['kind'] == 'file' and x['blob'] == -1]:
                del s.ns[m][q]
        s.boot = None
        return 'ok'
    if k == 'force_consistency':
        return 'ok'
    raise ValueError(k)


def reopen(s, counter):
    """FsSpec.Reopen: every name bound to an empty content becomes its own content."""
    for n in ('iso', 'jol', 'udf'):
        shared = {}
        for p, e in s.ns[n].items():
            if e['kind'] == 'file' and e.get('empty') and e['blob'] not in (-1, 0):
                if n == 'udf' and e['blob'] in shared:      # names sharing a UDF File Entry stay linked
                    e['blob'] = shared[e['blob']]
                    continue
                counter[0] -= 1
                shared[e['blob']] = counter[0]
                e['blob'] = counter[0]


def run(ops, reopen_points=()):
    s = Fs()
    outs = []
    counter = [-1000]
    for i, op in enumerate(ops):
        if i in reopen_points:
            reopen(s, counter)
        outs.append(step(s, op))
    return s, outs


def view(s):
    """same tuple format as syslevel.api_view (file values: blob id, 0 for empty, -1 catalog)"""
    v = set()
    for n, l in s.ns.items():
        for p, e in l.items():
            if e['kind'] == 'dir':
                v.add((n, p, 'dir', None, e['hidden'], e['rr']))
            elif e['kind'] == 'file':
                val = 0 if e.get('empty') or e['blob'] == 0 else e['blob']
                v.add((n, p, 'file', val, e['hidden'], e['rr']))
            else:
                v.add((n, p, 'sym', e['target'] if n != 'udf' else None, e['hidden'], e['rr']))
    return v


def live_blobs(s):
    out = set()
    for l in s.ns.values():
        for e in l.values():
            if e['kind'] == 'file' and e['blob'] not in (0, None):
                out.add(e['blob'])
    if s.boot:
        out |= set(s.boot['blobs'])
    return out
