"""Driver shared by the reader-oracle properties (C03 C04 C05 ...): histories = random edits mixed
with boundary recipes -> sysimg.build -> decode/reopen -> oracle -> shrink -> report."""
import time

from harness import recipes, sysimg, syslevel


def histories(ctx, n_random, recipe_names, gen_kwargs, nops=(5, 35), ncfg=32, recipe_cfgs=6, cfg_filter=None):
    """yield (label, cfg, ops, sizes)"""
    rng = ctx.rng
    cfgs = [c for c in syslevel.covering_configs(rng, ncfg) if cfg_filter is None or cfg_filter(c)]
    if not cfgs:
        cfgs = [c for c in syslevel.all_configs() if cfg_filter(c)][:ncfg]
    allc = [c for c in syslevel.all_configs() if cfg_filter is None or cfg_filter(c)]
    for name in recipe_names:
        made = 0
        tries = 0
        pool = list(allc)
        rng.shuffle(pool)
        for cfg in pool:
            if made >= recipe_cfgs or tries >= 40:
                break
            tries += 1
            r = recipes.make(name, cfg, rng)
            if r is None:
                continue
            ops, sizes = r
            # a short random tail after the recipe exercises "later edits behave normally"
            made += 1
            ctx.count('recipe:' + name)
            yield 'recipe:' + name, cfg, ops, dict(sizes)
    for i in range(n_random):
        cfg = cfgs[i % len(cfgs)]
        ops, sizes = syslevel.gen_history(rng, cfg, rng.randrange(*nops), **gen_kwargs)
        yield 'random', cfg, ops, sizes


def accepted_only(ops, rp):
    """(ops', rp'): the history without the edits that the specification refuses GIVEN the reopen points (a reopen splits the
    identity of empty files, so an edit that was valid when generated can become invalid) -- the image properties quantify
    over accepted histories; refusals are C13/C14's business.  Reopen points are re-indexed."""
    from harness import pyspec
    ops, rp = list(ops), sorted(rp)
    for _ in range(len(ops) + 1):
        try:
            _, outs = pyspec.run(ops, rp)
        except Exception:
            return ops, tuple(rp)
        bad = [i for i, o in enumerate(outs) if o != 'ok']
        if not bad:
            break
        i = bad[0]
        ops = ops[:i] + ops[i + 1:]
        rp = [q if q <= i else q - 1 for q in rp]
    return ops, tuple(q for q in sorted(set(rp)) if 0 < q <= len(ops))


def shrink(cfg, ops, sizes, fails, budget=120):
    """greedy one-at-a-time deletion while fails(ops) keeps returning the same signature"""
    cur = list(ops)
    t0 = time.monotonic()
    changed = True
    while changed and len(cur) > 1 and budget > 0 and time.monotonic() - t0 < 40:
        changed = False
        # try halves first
        if len(cur) >= 8:
            for half in (cur[len(cur) // 2:], cur[:len(cur) // 2]):
                budget -= 1
                if fails(half):
                    cur = half
                    changed = True
                    break
            if changed:
                continue
        for k in range(len(cur) - 1, -1, -1):
            cand = cur[:k] + cur[k + 1:]
            budget -= 1
            if budget <= 0:
                break
            if fails(cand):
                cur = cand
                changed = True
                break
    return cur


def shape_sig(ops, maxlen=10):
    parts = syslevel.op_shape(ops).split(',') if ops else []
    # run-length compress
    out = []
    for p in parts:
        if out and out[-1][0] == p:
            out[-1][1] += 1
        else:
            out.append([p, 1])
    s = ','.join(p if n == 1 else '%sx%s' % (p, 'N' if n > 3 else n) for p, n in out)
    return s if len(out) <= maxlen else ','.join(s.split(',')[:maxlen]) + ',...'


def run_oracle(ctx, pid, hist_iter, oracle, need_reopen=True, need_decode=True, max_shrink=6, build_kwargs=None,
               fail_is_violation=True):
    """oracle(b, report) with report(sig, text, extra).  Returns number of images examined."""
    n_img = 0
    n_shrunk = 0
    seen_sigs = set()
    for label, cfg, ops, sizes in hist_iter:
        def evaluate(ops_):
            b = sysimg.build(cfg, ops_, sizes, **(build_kwargs or {}))
            found = []
            if b.fail is not None:
                if fail_is_violation:
                    found.append(('fail:%s:%s' % (b.fail[0], b.fail[1].split(':')[0]),
                                  'the edited image cannot be %s: %s' % ({'write': 'written'}.get(b.fail[0], b.fail[0]), b.fail[1]), None))
                return b, found
            if need_decode:
                sysimg.decode(b)
            if need_reopen:
                sysimg.reopen(b)
                if b.fail is not None:
                    if fail_is_violation:
                        found.append(('fail:reopen:%s' % b.fail[1].split(':')[0],
                                      'the written image cannot be opened by the library: %s' % b.fail[1], None))
                    return b, found
            oracle(b, lambda sig, text, extra: found.append((sig, text, extra)))
            return b, found
        b, found = evaluate(ops)
        n_img += 1
        kinds = set(op['k'] for op in ops)
        ctx.case((cfg.key(), repr(ops)), len(kinds) >= 3 or label != 'random')
        ctx.count('cfg:' + cfg.key().split('-')[0])
        ctx.count('hist:' + label)
        for op in ops:
            ctx.count('op:' + op['k'])
        if n_img in (2, 3):
            ctx.sample({'config': cfg.key(), 'label': label, 'ops': ops[:8], 'n_ops': len(ops)})
        if getattr(b, 'iso', None) is not None:
            try:
                b.iso.close()
            except Exception:
                pass
        if b.iso2 is not None:
            try:
                b.iso2.close()
            except Exception:
                pass
        for sig, text, extra in found[:3]:
            small = ops
            if n_shrunk < max_shrink and sig not in seen_sigs:
                n_shrunk += 1

                def fails(c):
                    try:
                        b2, f2 = evaluate(c)
                    except Exception:
                        return False
                    for x in (getattr(b2, 'iso', None), b2.iso2):
                        try:
                            if x is not None:
                                x.close()
                        except Exception:
                            pass
                    return any(s == sig for s, _, _ in f2)
                small = shrink(cfg, ops, sizes, fails)
            seen_sigs.add(sig)
            full = '%s:%s:%s:%s' % (pid.lower(), sig, __import__('harness.sysrun', fromlist=['x']).cfg_features(cfg), shape_sig(small))
            ctx.violation(full, '%s: %s; config %s, minimal history %s' % (pid, text, cfg.key(), shape_sig(small, 40)),
                          {'config': cfg.key(), 'ops': small, 'sizes': {str(k): v for k, v in sizes.items()},
                           'signature': sig, 'detail': text, 'offset': extra, 'label': label,
                           'build_kwargs': build_kwargs or {}})
    ctx.cov['images_examined'] = ctx.cov.get('images_examined', 0) + n_img
    return n_img


def replay(ctx, rep, oracle, need_reopen=True, need_decode=True):
    """re-execute a stored case; exit code 1 if the same signature is still produced"""
    from harness import common
    common.setup_impl_path()
    case = rep['case']
    key = case['config']
    cfg = [c for c in syslevel.all_configs() if c.key() == key][0]
    sizes = {int(k): v for k, v in case.get('sizes', {}).items()}
    b = sysimg.build(cfg, case['ops'], sizes, **case.get('build_kwargs', {}))
    found = []
    if b.fail is None:
        if need_decode:
            sysimg.decode(b)
        if need_reopen:
            sysimg.reopen(b)
    if b.fail is not None:
        found.append(('fail:%s:%s' % (b.fail[0], b.fail[1].split(':')[0]), b.fail[1], None))
    else:
        oracle(b, lambda sig, text, extra: found.append((sig, text, extra)))
    for sig, text, _ in found:
        print('replay: %s -- %s' % (sig, text))
    hit = any(s == case.get('signature') for s, _, _ in found) or (found and not case.get('signature'))
    print('replay verdict:', 'STILL FAILS' if hit else 'passes now')
    return 1 if hit else 0
