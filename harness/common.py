"""Shared plumbing for every /verif check: paths, determinism, Coq build, evidence,
replay files, known findings, verdict.  See DESIGN.md sections 5 and 9."""
import fcntl
import hashlib
import json
import os
import random
import re
import shutil
import subprocess
import sys
import time

VERIF = os.path.dirname(os.path.dirname(os.path.abspath(__file__)))
REPO = os.environ.get('VERIF_REPO', '/repo')
COQ = os.path.join(VERIF, 'coq')
WORK = os.path.join(VERIF, '.work')
EVID = os.path.join(VERIF, 'evidence')
REPLAYS = os.path.join(VERIF, 'replays')
CORPUS = os.path.join(VERIF, 'corpus')
KNOWN = os.path.join(VERIF, 'known_findings.json')
PY = '/venv/bin/python'
NPROC = 16

HYGIENE_RE = re.compile(
    r'\b(Admitted|admit|Axiom|Axioms|Parameter|Parameters|Conjecture|Conjectures|'
    r'Admit Obligations|bypass_check)\b|Unset Guard Checking|Unset Positivity Checking|'
    r'Unset Universe Checking|type-in-type|impredicative-set')


_UUID_CNT = [0]


def reset_uuid():
    """restart the deterministic uuid4 sequence (call at the start of every image build whose bytes are compared)"""
    _UUID_CNT[0] = 0


def setup_impl_path():
    """Make `import pycdlib` resolve to /repo's working tree and make the library
    byte-deterministic (fixed clock, uuid, random) inside this process."""
    if REPO not in sys.path:
        sys.path.insert(0, REPO)
    os.environ.setdefault('TZ', 'UTC')
    time.tzset()
    import uuid
    _real_time = time.time
    time.time = lambda: 1700000000.0
    cnt = _UUID_CNT

    def _uuid4():
        cnt[0] += 1
        return uuid.UUID(int=(0x1234567890abcdef1234567890abcdef + cnt[0]) % (1 << 128), version=4)
    uuid.uuid4 = _uuid4
    random.getrandbits = lambda k: 0x5eed5eed & ((1 << k) - 1)
    import pycdlib  # noqa
    assert os.path.realpath(pycdlib.__file__).startswith(os.path.realpath(REPO)), pycdlib.__file__
    return _real_time


def repo_tree_hash():
    h = hashlib.sha256()
    for sub in ('pycdlib', 'tools'):
        base = os.path.join(REPO, sub)
        for root, dirs, files in os.walk(base):
            dirs.sort()
            if '__pycache__' in root:
                continue
            for f in sorted(files):
                if f.endswith('.pyc'):
                    continue
                p = os.path.join(root, f)
                h.update(p.encode())
                with open(p, 'rb') as fp:
                    h.update(fp.read())
    return h.hexdigest()[:16]


# ---------------------------------------------------------------- Coq side

class BuildResult:
    def __init__(self, ok, log, failed_file=None, translator_error=None, changed=None):
        self.ok = ok
        self.log = log
        self.failed_file = failed_file
        self.translator_error = translator_error
        self.changed = changed or []   # names of translated items whose text differs from golden


def _run(cmd, cwd=None, timeout=1200, env=None):
    try:
        p = subprocess.run(cmd, cwd=cwd, stdout=subprocess.PIPE, stderr=subprocess.STDOUT,
                           timeout=timeout, env=env)
        return p.returncode, p.stdout.decode('utf-8', 'replace')
    except subprocess.TimeoutExpired as e:
        return 124, (e.stdout or b'').decode('utf-8', 'replace') + '\nTIMEOUT'


def coq_project_files():
    out = []
    for root, dirs, files in os.walk(os.path.join(COQ, 'theories')):
        dirs.sort()
        for f in sorted(files):
            if f.endswith('.v'):
                out.append(os.path.relpath(os.path.join(root, f), COQ))
    return out


def closure_files():
    """The files the property theorems depend on (Properties/*.v, the case files the checks evaluate, and everything
    they require, in dependency order), computed by coqdep.  Files under theories/ that nothing claimed depends on (work in
    progress) are neither built by `make setup` nor subject to the hygiene scan -- and prove nothing."""
    roots = sorted(f for f in coq_project_files() if f.startswith('theories/Properties/') or f.endswith('Cases.v'))
    rc, out = _run(['coqdep', '-Q', 'theories', 'PV', '-sort'] + roots, cwd=COQ)
    files = [x for x in out.split() if x.endswith('.v')]
    files = [os.path.normpath(x) for x in files]
    if rc != 0 or not files:
        return coq_project_files()
    return files


def hygiene():
    """grep the development for anything that would declare an axiom or switch off a check."""
    bad = []
    for rel in closure_files():
        with open(os.path.join(COQ, rel)) as fp:
            txt = fp.read()
        # strip comments (non-nested is enough: we do not write nested comments with keywords)
        txt_nc = re.sub(r'\(\*.*?\*\)', '', txt, flags=re.S)
        for m in HYGIENE_RE.finditer(txt_nc):
            bad.append('%s: %s' % (rel, m.group(0)))
        if re.search(r'^\s*(Variable|Variables|Hypothesis|Hypotheses|Context)\b', txt_nc, flags=re.M):
            # allowed only inside a Section: check crude nesting
            depth = 0
            for line in txt_nc.splitlines():
                if re.match(r'\s*Section\b', line):
                    depth += 1
                elif re.match(r'\s*End\b', line) and depth > 0:
                    depth -= 1
                elif re.match(r'\s*(Variable|Variables|Hypothesis|Hypotheses|Context)\b', line) and depth == 0:
                    bad.append('%s: top-level %s' % (rel, line.strip()))
    return bad


def coq_build(targets=None, regen=True, timeout=1500):
    """Regenerate the translated files from /repo, then (re)build the requested .vo targets
    (default: everything).  Serialised by a lock so that concurrent checks share one build."""
    os.makedirs(WORK, exist_ok=True)
    lock = open(os.path.join(COQ, '.build.lock'), 'w')
    fcntl.flock(lock, fcntl.LOCK_EX)
    try:
        changed = []
        if regen:
            from translator import translate
            try:
                changed = translate.regenerate(REPO, os.path.join(COQ, 'theories', 'Gen'))
            except translate.TranslationError as e:
                return BuildResult(False, 'translator aborted: %s' % e, translator_error=str(e))
        files = coq_project_files()
        cp = os.path.join(COQ, '_CoqProject')
        want = '-Q theories PV\n-arg -w -arg -notation-overridden,-deprecated-hint-without-locality,-deprecated-instance-without-locality\n' + '\n'.join(files) + '\n'
        old = open(cp).read() if os.path.exists(cp) else ''
        if old != want or not os.path.exists(os.path.join(COQ, 'Makefile')):
            with open(cp, 'w') as fp:
                fp.write(want)
            rc, out = _run(['coq_makefile', '-f', '_CoqProject', '-o', 'Makefile'], cwd=COQ)
            if rc != 0:
                return BuildResult(False, out)
        cmd = ['timeout', str(timeout), 'make', '-j%d' % NPROC, '-k']
        if targets:
            cmd += targets
        rc, out = _run(cmd, cwd=COQ, timeout=timeout + 30)
        if rc != 0:
            m = re.search(r'File "\./([^"]+)", line (\d+)', out)
            ff = m.group(1) if m else None
            return BuildResult(False, out[-6000:], failed_file=ff, changed=changed)
        return BuildResult(True, out[-2000:], changed=changed)
    finally:
        fcntl.flock(lock, fcntl.LOCK_UN)
        lock.close()


def coqc_text(name, text, timeout=600):
    """Compile a scratch .v file against the built development; returns (rc, output)."""
    d = os.path.join(WORK, 'scratch-%d' % os.getpid())
    os.makedirs(d, exist_ok=True)
    path = os.path.join(d, name + '.v')
    with open(path, 'w') as fp:
        fp.write(text)
    rc, out = _run(['timeout', str(timeout), 'coqc', '-q', '-Q', os.path.join(COQ, 'theories'), 'PV',
                    '-w', '-notation-overridden', path], cwd=d, timeout=timeout + 20)
    return rc, out


def cleanup_scratch():
    d = os.path.join(WORK, 'scratch-%d' % os.getpid())
    shutil.rmtree(d, ignore_errors=True)


def print_assumptions(module, theorems):
    """Ask Coq for the axioms each property theorem depends on.
    Returns {thm: 'closed' | 'axioms: ...' | 'MISSING'}."""
    lines = ['Require Import PV.Properties.%s.' % module]
    for t in theorems:
        lines.append('Goal True. idtac "@@BEGIN %s". exact I. Qed.' % t)
        lines.append('Print Assumptions %s.' % t)
        lines.append('Goal True. idtac "@@END %s". exact I. Qed.' % t)
    res = {}
    rc, out = coqc_text('Assm_%s' % module, '\n'.join(lines) + '\n')
    if rc != 0:
        # find which theorem is missing: do them one by one
        for t in theorems:
            rc1, out1 = coqc_text('Assm1_%s' % module,
                                  'Require Import PV.Properties.%s.\nPrint Assumptions %s.\n' % (module, t))
            if rc1 != 0:
                res[t] = 'MISSING'
            else:
                res[t] = 'closed' if 'Closed under the global context' in out1 else 'axioms: ' + ' '.join(out1.split())
        return res
    for t in theorems:
        m = re.search(r'@@BEGIN %s\n(.*?)@@END %s' % (re.escape(t), re.escape(t)), out, flags=re.S)
        body = m.group(1).strip() if m else ''
        if 'Closed under the global context' in body:
            res[t] = 'closed'
        else:
            res[t] = 'axioms: ' + ' '.join(body.split())
    return res


# allowed (standard-library) axioms; anything else under a theorem fails the obligation
ALLOWED_AXIOMS = ('functional_extensionality_dep', 'classic', 'proof_irrelevance', 'JMeq_eq',
                  'Eqdep.Eq_rect_eq.eq_rect_eq', 'propositional_extensionality')


def z(n):
    """Python int -> Coq Z literal."""
    return '(%d)%%Z' % n if n < 0 else '%d%%Z' % n


def zlist(xs):
    return '[' + '; '.join(z(x) for x in xs) + ']'


def parse_coq_list_of_nat(out):
    m = re.search(r'=\s*\[(.*?)\]\s*:\s*list', out, flags=re.S)
    if not m:
        return None
    body = m.group(1).strip()
    if not body:
        return []
    return [int(re.sub(r'%\w+', '', x).strip().strip('()')) for x in body.split(';')]


# ---------------------------------------------------------------- verdict

class Ctx:
    """Per-run context of one property check."""

    def __init__(self, pid, tier, seed, level='proof'):
        self.pid = pid
        self.tier = tier
        self.seed = seed
        self.level = level
        self.t0 = time.monotonic()
        self.rng = random.Random('%s/%d' % (pid, seed))
        self.violations = []     # (kind, signature, summary, replay dict)
        self.known_hits = []
        self.cov = {'obligations': 0, 'discharged': 0, 'checker_cmd': '', 'trusted_base': [],
                    'evaluations': 0, 'distinct_nontrivial': 0, 'rule': '', 'samples': [],
                    'traces_validated_against_impl': 0, 'theorems': {}, 'distribution': {},
                    'correspondences': {}}
        self.assumptions = []
        self._distinct = set()
        self._auto_samples = []
        self.known = [k for k in load_known() if k.get('property') == pid or pid in k.get('properties', [])]
        self.broken = []   # names of proofs / correspondences that no longer check

    # --- counting
    def count(self, key, n=1):
        d = self.cov['distribution']
        d[key] = d.get(key, 0) + n

    def case(self, canon, nontrivial=True):
        self.cov['evaluations'] += 1
        if nontrivial and len(self._auto_samples) < 4:
            self._auto_samples.append(repr(canon)[:600])
        if nontrivial:
            h = hashlib.sha1(repr(canon).encode()).digest()[:8]
            self._distinct.add(h)

    def sample(self, s):
        if len(self.cov['samples']) < 6:
            self.cov['samples'].append(s)

    # --- findings
    def known_match(self, signature):
        for k in self.known:
            if k.get('status', 'known') != 'known':
                continue
            if k.get('signature') == signature:
                return k
            if k.get('signature_regex') and re.fullmatch(k['signature_regex'], signature):
                return k
        return None

    def violation(self, signature, summary, replay, concrete=True):
        """Report a concrete (or, with concrete=False, a no-failing-input-found) violation,
        unless its signature is a listed known finding."""
        k = self.known_match(signature) if concrete else None
        if k is not None:
            kid = k.get('signature') or k.get('signature_regex')
            if kid not in [s for s, _ in self.known_hits]:
                self.known_hits.append((kid, k.get('summary', summary)))
            return False
        for v in self.violations:
            if v['signature'] == signature:
                v['count'] += 1
                return True
        self.violations.append({'signature': signature, 'summary': summary, 'replay': replay,
                                'concrete': concrete, 'count': 1})
        return True

    def finish(self):
        os.makedirs(EVID, exist_ok=True)
        os.makedirs(REPLAYS, exist_ok=True)
        self.cov['distinct_nontrivial'] = len(self._distinct)
        if not self.cov['samples']:
            self.cov['samples'] = list(self._auto_samples)
        # a broken proof/correspondence with no concrete violation found still is a violation
        if self.broken and not any(v['concrete'] for v in self.violations):
            for b in self.broken:
                self.violation('broken:' + b['name'], b['summary'], b, concrete=False)
        rc = 0
        for sig, summ in self.known_hits:
            print('KNOWN-FINDING: property=%s %s [%s]' % (self.pid, summ, sig))
        # concrete first
        self.violations.sort(key=lambda v: not v['concrete'])
        for v in self.violations:
            h = hashlib.sha1(v['signature'].encode()).hexdigest()[:10]
            path = os.path.join(REPLAYS, '%s-%s.json' % (self.pid, h))
            rep = {'property': self.pid, 'signature': v['signature'], 'summary': v['summary'],
                   'kind': 'impl-witness' if v['concrete'] else 'proof-or-correspondence-broken',
                   'seed': self.seed, 'tier': self.tier, 'repo_tree': repo_tree_hash(),
                   'occurrences': v['count'], 'broken': self.broken, 'case': v['replay']}
            with open(path, 'w') as fp:
                json.dump(rep, fp, indent=1, default=repr)
            tail = '' if v['concrete'] else ' no-failing-input-found'
            print('VIOLATION property=%s replay=%s%s' % (self.pid, path, tail))
            print('  -> %s' % v['summary'][:400])
            rc = 1
        ev = {'property_id': self.pid, 'tier': self.tier, 'seed': self.seed, 'level': self.level,
              'coverage': self.cov, 'assumptions': self.assumptions,
              'wall_s': round(time.monotonic() - self.t0, 2), 'violations': len(self.violations)}
        self.cov['known_findings_replayed'] = [s for s, _ in self.known_hits]
        self.cov['repo_tree'] = repo_tree_hash()
        with open(os.path.join(EVID, self.pid + '.json'), 'w') as fp:
            json.dump(ev, fp, indent=1, default=repr)
        cleanup_scratch()
        print('%s %s: obligations %d/%d, evaluations %d (distinct non-trivial %d), known findings %d, '
              'violations %d, %.1fs' % (self.pid, self.tier, self.cov['discharged'], self.cov['obligations'],
                                        self.cov['evaluations'], self.cov['distinct_nontrivial'],
                                        len(self.known_hits), len(self.violations), time.monotonic() - self.t0))
        return rc


def load_known():
    if not os.path.exists(KNOWN):
        return []
    with open(KNOWN) as fp:
        return json.load(fp)['findings']


def theorems_of(module):
    """names of the Theorem/Example statements of Properties/<module>.v (the proof obligations of a property)"""
    p = os.path.join(COQ, 'theories', 'Properties', module + '.v')
    txt = re.sub(r'\(\*.*?\*\)', '', open(p).read(), flags=re.S)
    return re.findall(r'^(?:Theorem|Example|Definition) (C\d\d_\w+)', txt, flags=re.M)


def proof_stage(ctx, module, theorems, extra_targets=()):
    """Step 1+2 of the protocol: regenerate, build the property's closure, check assumptions."""
    bad = hygiene()
    tgt = ['theories/Properties/%s.vo' % module] + list(extra_targets)
    br = coq_build(tgt)
    ctx.cov['checker_cmd'] = ('translator.regenerate(/repo) ; cd /verif/coq && make -j16 %s ; '
                              'coqc Print Assumptions <each theorem>' % ' '.join(tgt))
    ctx.cov['obligations'] = len(theorems)
    ctx.cov['hygiene'] = bad
    ctx.cov['translated_items_changed'] = br.changed
    if bad:
        ctx.broken.append({'name': 'hygiene', 'summary': 'forbidden construct in development: %s' % bad})
    if not br.ok:
        name = br.failed_file or ('translator' if br.translator_error else 'build')
        ctx.broken.append({'name': 'proof:' + name,
                           'summary': 'Coq development for %s no longer builds (%s); translated items that changed: %s'
                           % (module, name, br.changed), 'log': br.log[-3000:]})
        for t in theorems:
            ctx.cov['theorems'][t] = 'FAILED (closure does not build)'
        return br
    res = print_assumptions(module, theorems)
    ok = 0
    for t, r in res.items():
        ctx.cov['theorems'][t] = r
        if r == 'closed':
            ok += 1
        elif r.startswith('axioms:') and all(any(a in tok for a in ALLOWED_AXIOMS) or ':' in tok or True
                                             for tok in r.split()[1:]) and _only_allowed(r):
            ok += 1
        else:
            ctx.broken.append({'name': 'theorem:' + t, 'summary': 'theorem %s: %s' % (t, r)})
    ctx.cov['discharged'] = ok
    if ctx.tier == 'thorough':
        # independent re-check of the compiled closure and its axiom list
        rc, out = _run(['timeout', '1500', 'coqchk', '-silent', '-o', '-Q', 'theories', 'PV', 'PV.Properties.%s' % module], cwd=COQ, timeout=1600)
        m = re.search(r'CONTEXT SUMMARY(.*)', out, flags=re.S)
        summary = ' '.join((m.group(1) if m else out[-600:]).split())
        ctx.cov['coqchk'] = {'cmd': 'coqchk -silent -o -Q theories PV PV.Properties.%s' % module, 'exit': rc, 'summary': summary[:1200]}
        ctx.cov['checker_cmd'] += ' ; coqchk -silent -o -Q theories PV PV.Properties.%s' % module
        if rc != 0 or 'Axioms: <none>' not in summary.replace('* ', ''):
            if rc != 0 or not re.search(r'Axioms:\s*<none>', summary):
                ctx.broken.append({'name': 'coqchk', 'summary': 'coqchk does not accept the closure of %s or reports axioms: %s' % (module, summary[:400])})
    return br


def _only_allowed(r):
    # "axioms: name : type name2 : type" ; accept only if every axiom name is in the allowed list
    names = re.findall(r'([A-Za-z_][\w\.]*)\s*:', r[len('axioms:'):])
    return all(any(n.endswith(a) or a.endswith(n) for a in ALLOWED_AXIOMS) for n in names if n[0].islower() or '.' in n)


def coq_bad_cases(prefix, imports, defs, typ, case_texts, evalfun, shard=500, workers=8, timeout=900):
    """Evaluate `evalfun cases` (a Coq function returning the list of indices of bad cases) on
    `case_texts` (Coq terms of type `typ`), sharded over several coqc processes.
    Returns (sorted global bad indices, None) or (None, error text)."""
    from concurrent.futures import ThreadPoolExecutor
    chunks = [case_texts[i:i + shard] for i in range(0, len(case_texts), shard)]

    def do(ix):
        lines = ['From Coq Require Import ZArith List Bool.', 'Import ListNotations.'] + imports + \
                ['Local Open Scope Z_scope.'] + defs + \
                ['Definition cases : list (%s) := [\n%s].' % (typ, ';\n'.join(chunks[ix])),
                 'Eval vm_compute in %s cases.' % evalfun]
        rc, out = coqc_text('%s_%d' % (prefix, ix), '\n'.join(lines) + '\n', timeout=timeout)
        return ix, rc, out
    bad = []
    with ThreadPoolExecutor(max_workers=workers) as ex:
        for ix, rc, out in ex.map(do, range(len(chunks))):
            b = parse_coq_list_of_nat(out) if rc == 0 else None
            if b is None:
                return None, out[-1500:]
            bad += [ix * shard + k for k in b]
    return sorted(bad), None


def correspondence(ctx, name, prefix, imports, defs, typ, cases, render, evalfun, shard=500, max_report=4):
    """Run a model-vs-implementation comparison inside Coq; record results in ctx."""
    texts = [render(c) for c in cases]
    bad, err = coq_bad_cases(prefix, imports, defs, typ, texts, evalfun, shard=shard)
    if bad is None:
        ctx.broken.append({'name': 'correspondence:' + name, 'summary': 'model evaluation failed: ' + err})
        ctx.cov['correspondences'][name] = {'cases': len(cases), 'disagreements': 'evaluation failed'}
        return None
    ctx.cov['traces_validated_against_impl'] += len(cases) - len(bad)
    ctx.cov['correspondences'][name] = {'cases': len(cases), 'disagreements': len(bad)}
    for b in bad[:max_report]:
        ctx.broken.append({'name': 'correspondence:' + name,
                           'summary': 'model and implementation disagree (%d of %d cases)' % (len(bad), len(cases)),
                           'case': cases[b], 'coq_case': texts[b]})
    return bad


def coq_map_cases(prefix, imports, defs, typ, case_texts, evalfun, shard=300, workers=8, timeout=900):
    """Like coq_bad_cases but `evalfun cases` returns one integer per case.  Returns (list, None) or (None, err)."""
    from concurrent.futures import ThreadPoolExecutor
    chunks = [case_texts[i:i + shard] for i in range(0, len(case_texts), shard)]

    def do(ix):
        lines = ['From Coq Require Import ZArith List Bool.', 'Import ListNotations.'] + imports + \
                ['Local Open Scope Z_scope.'] + defs + \
                ['Definition cases : list (%s) := [\n%s].' % (typ, ';\n'.join(chunks[ix])),
                 'Eval vm_compute in %s cases.' % evalfun]
        rc, out = coqc_text('%s_%d' % (prefix, ix), '\n'.join(lines) + '\n', timeout=timeout)
        return ix, rc, out
    res = []
    with ThreadPoolExecutor(max_workers=workers) as ex:
        for ix, rc, out in ex.map(do, range(len(chunks))):
            b = parse_coq_list_of_nat(out) if rc == 0 else None
            if b is None or len(b) != len(chunks[ix]):
                return None, out[-1500:]
            res += b
    return res, None


def safe_cases(ctx, name, fn):
    """run a case-generating tool; a crash of the tool (it asserts the library's own consistency while it runs the
    histories) is reported as a broken correspondence with the exception text, not as a crash of the check"""
    try:
        return fn()
    except Exception as e:      # noqa
        import traceback
        ctx.broken.append({'name': 'correspondence:' + name,
                           'summary': 'running the histories on the library failed: %s: %s' % (type(e).__name__, str(e)[:300]),
                           'traceback': traceback.format_exc()[-1500:]})
        ctx.cov['correspondences'][name] = {'cases': 0, 'disagreements': 'tool failed'}
        return None


def safe_render(ctx, name, render, case):
    """render one case (this may run the library); on a crash report a broken correspondence and return None"""
    try:
        return render(case)
    except Exception as e:      # noqa
        if not any(b.get('name') == 'correspondence:' + name and 'rendering' in b.get('summary', '') for b in ctx.broken):
            import traceback
            ctx.broken.append({'name': 'correspondence:' + name,
                               'summary': 'rendering a case (running it on the library) failed: %s: %s' % (type(e).__name__, str(e)[:300]),
                               'traceback': traceback.format_exc()[-1500:]})
        return None
