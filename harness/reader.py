"""Independent reader / validator for optical-disc images.

Decodes, from raw bytes only, ECMA-119 / ISO 9660 (incl. the ISO 9660:1999 "enhanced"
volume descriptor and CD-XA records), SUSP + Rock Ridge (RRIP 1.09 / 1.10 / 1.12), Joliet,
El Torito, the isohybrid system area (MBR / GPT / APM) and the ECMA-167 / UDF 2.60 bridge
structures.  It is used as an oracle for images produced by another library and therefore
shares NO code with it: only the Python standard library is imported.

Public API:  Malformed, Node, RR, Image, read_image, read_file, overlaps, check_rr_nlink.

Rule ids raised (Malformed.rule)
--------------------------------
  truncated                 decoding ran off the end of the image / a buffer
  vd-bad-header vd-no-terminator both-endian-mismatch pvd-duplicates-differ root-record-bad
  lbs-unsupported           logical block size is not 2048 (only 2048 is supported)
  extent-out-of-image dir-length-not-multiple dr-length-inconsistent dir-padding-nonzero
  dr-crosses-sector dr-outside-dir dot-wrong dotdot-wrong dir-not-sorted dir-cycle dir-too-deep
  dir-too-large             (work guard: directories claim > 4x the image size)
  ptable-LM-differ ptable-size-mismatch ptable-order ptable-parent-wrong ptable-extent-wrong
  ptable-missing-dir ptable-extra-dir
  beyond-volume-size joliet-escape
  rr-entry-overrun rr-len-mismatch rr-entry-bad-length rr-both-endian-mismatch
  ce-out-of-sector ce-out-of-volume ce-overlap ce-loop cl-target-not-dir pl-wrong
  rr-nlink                  (only from check_rr_nlink(), never raised by read_image)
  eltorito-boot-record eltorito-validation eltorito-sections eltorito-entry-rba
  mbr-signature gpt-crc gpt-backup
  udf-vrs udf-anchor-missing udf-tag-checksum udf-tag-crc udf-tag-location udf-tag-ident
  udf-vds-incomplete udf-reserve-vds-differs udf-partition-bounds udf-partition-map
  udf-fid-area udf-fid-parent udf-info-length udf-outside-partition udf-ad-unsupported

Decisions where the task text and the standards leave room
----------------------------------------------------------
* Sorting ([dir-not-sorted], [ptable-order]) compares "name.ext" (the identifier with a trailing
  ";<digits>" removed) byte-wise after padding the shorter one with 0x20 (ISO) / 0x00 (Joliet);
  equal name.ext => any order of versions is accepted.  Duplicate identifiers are not an error.
* CD-XA: a record carries an XA record iff the image is an XA image (PVD bytes 1024..1031 are
  'CD-XA001', or the root '.' record has the 'XA' signature at system-use offset 6) and the
  record's system use area has 'XA' at offset 6.  (A per-record test alone would misfire on an
  NM entry holding a name such as 'fXA...'.)
* SUSP both-byte-order fields (CE, PX, CL, PL, PN) are compared: [rr-both-endian-mismatch].  This
  is required by SUSP 4 ("recorded according to ISO 9660 7.3.3") and cannot fire on a valid image.
* Fixed-size SUSP entries whose length byte makes decoding impossible (CE != 28, PX not 36/44,
  CL/PL != 12, SP != 7, NM/SL < 5, ER shorter than its strings) give [rr-entry-bad-length].
* The reserve UDF VDS must hold the same sequence of descriptor kinds and the same partition /
  logical volume parameters as the main one: [udf-reserve-vds-differs].  Byte differences in other
  fields are only reported (Image.udf['reserve_differences']), not flagged.
* GPT partition array CRC is computed as UEFI 5.3.2 says: over num_parts * entry_size bytes.
  The CRC over only the non-empty leading entries is additionally reported as
  'parts_crc_used_only_ok' (no rule attached).
* A Rock Ridge CL placeholder (file record carrying CL) is not file data: no extent check and no
  'file-data' segment is produced for it.
* Zero-length files: the extent field is not checked and the (zero-length) segment never overlaps.
* overlaps() rounds every segment up to whole 2048-byte sectors, except continuation areas
  (kind 'ce'), which legitimately share a sector with other continuation areas.

Observed on pycdlib images
--------------------------
Each item was seen on unmodified pycdlib output and is expected by reader_selftest (KNOWN / the
dedicated cases); `iso` is a fresh pycdlib.PyCdlib(), F(n) = n one-byte files added with add_fp.

* [dotdot-wrong]  '..' of a directory created inside a directory that already spans more than one
  sector keeps data length 2048 instead of the parent's data length (ECMA-119 6.8.2.2, 9.1.4).
  Repro: iso.new(); add_directory('/A'); F(60) into /A; add_directory('/A/B')  ->  /A/B/'..'
  says (extent of A, 2048), /A is 4096 bytes.  (Directories that exist while the parent grows are
  updated correctly.)
* [dot-wrong] on the enhanced tree: the root record inside the ISO 9660:1999 enhanced descriptor
  keeps data length 2048 when the root directory grows beyond one sector (its extent is updated).
  Repro: iso.new(interchange_level=4); F(60) into /  ->  PVD root record (24, 4096), enhanced VD
  root record (24, 2048).  With check=False the reader goes on with the longer length.
* [dir-not-sorted]  records are ordered by plain byte order of the whole identifier, so ';'
  (0x3B) takes part: 'A.B1;1' is recorded before 'A.B;1' although ECMA-119 9.3 pads 'A.B' with
  spaces first.  Repro: iso.new(interchange_level=3); add_fp('/A.B;1'); add_fp('/A.B1;1').
  (Same in Joliet for names 'a.b;1' / 'a.b1'.)
* [gpt-crc]  add_isohybrid(efi=True) / (mac=True): PartitionEntryArrayCRC32 of both GPT headers is
  computed over the 2 (3) used entries only, UEFI 5.3.2 demands NumberOfPartitionEntries (128) *
  SizeOfPartitionEntry (128) bytes.  ('parts_crc_used_only_ok' is True on these images.)
* backup GPT written over the end of the volume: the image is padded to a multiple of
  heads*sectors*512 = 1 MiB only, and the 16896 bytes of backup GPT (array + header) are placed
  in the last bytes of the file.  When (space_size % 512) is 0 or > 503 they overwrite the tail of
  the volume: file data is destroyed and, with UDF, the anchor at space_size-1 disappears
  ([udf-anchor-missing]; overlaps() pairs 'gpt-backup-parts' with the victim).
  Repro: iso.new(); add ISOLINUX.BIN (0x40 zero bytes + fb c0 78 70), EFIBOOT.IMG, a filler file
  sized so that space_size becomes 512; add_eltorito(ISOLINUX.BIN, boot_load_size=4);
  add_eltorito(EFIBOOT.IMG, efi=True); add_isohybrid(efi=True)  ->  the last 16896 bytes of the
  filler file are overwritten.
* Not rule violations, reported for information only:
  - the UDF primary volume descriptors of the main and the reserve sequence carry different
    volume set identifiers (two random draws): Image.udf['reserve_differences'] is [(1, 32, 48)];
  - primary and backup GPT headers carry different disk GUIDs; APM entries have start/count 0;
  - UDF symlinks use path component type 2 for a leading '/' (accepted, as is type 1);
  - images made with udf='2.60' announce NSR02 in the recognition sequence and in the partition
    contents, and UDF revision 1.02 (0x0102) in the integrity descriptor;
  - check_rr_nlink(): on images with a relocated directory the link count of the root ('.', '..'
    and the '..' of its children) counts RR_MOVED (physical view), and the CL placeholder of the
    relocated directory has st_nlink 2 regardless of the subdirectories of the moved directory;
  - the CL placeholder is a file record with extent 0 and data length 2048.

Extras beyond the fixed API
---------------------------
Node.dot / Node.dotdot (Nodes of the '.' and '..' records of a directory, with .rr), Node.records
(record offsets of a multi-extent file), Node.su_offset / su_len / system_use, Node.inline (UDF
embedded data), Node.file_type / uid / gid / perms (UDF); RR.serial, sp_skip, er_id, er_info,
rr_flags, pn; rr_root nodes also have .entry (the Node of the entry in the logical parent: the CL
placeholder for a relocated directory) and .parent; Image.problems, Image.xa, Image.susp,
path_tables['enhanced'], gpt[...]['parts_crc_used_only_ok'], udf['reserve_differences'].
Segment keys are tuples of strings ('iso:/PATH', 'joliet:/path', 'udf:/path', ...), one per name.
"""
import binascii
import functools
import struct
import zlib

SECTOR = 2048
_MAX_DEPTH = 200          # directory nesting guard
_MAX_VDS = 200            # volume descriptor set length guard
_MAX_UDF_DIR = 1 << 26    # largest UDF directory / symlink body that is decoded
_JOLIET_ESC = (b'%/@', b'%/C', b'%/E')
_SUBSECTOR_KINDS = ('ce', 'pad', 'gpt-backup-parts', 'gpt-backup-header')


class Malformed(Exception):
    """A well-formedness rule is violated.  .rule = kebab-case rule id, .detail = human text,
    .offset = byte offset in the image (or None)."""

    def __init__(self, rule, detail, offset=None):
        Exception.__init__(self, '[%s] %s%s' % (rule, detail, '' if offset is None else ' (offset %d)' % offset))
        self.rule = rule
        self.detail = detail
        self.offset = offset


class Node(object):
    """One directory entry in one namespace (ISO / Joliet / enhanced / UDF)."""

    def __init__(self):
        self.name = None
        self.is_dir = False
        self.extents = []
        self.length = 0
        self.hidden = False
        self.flags = 0
        self.children = []
        self.rr = None
        self.xa = None
        self.dr_offset = None
        self.dr_len = None
        self.date = None
        self.parent = None
        # ISO/Joliet directories only: Node objects of the '.' and '..' records (no children)
        self.dot = None
        self.dotdot = None
        self.records = []        # dr offsets of all records of a multi-extent file
        self.system_use = b''
        # UDF only
        self.fe_sector = None
        self.link_count = None
        self.symlink = None
        self.unique_id = None
        self.file_type = None
        self.inline = None       # bytes if the data is embedded in the File Entry

    def path(self):
        if getattr(self, '_path', None) is not None:
            return self._path
        parts = []
        n = self
        while n is not None and n.parent is not None:
            nm = n.name
            parts.append(nm.decode('latin-1') if isinstance(nm, bytes) else nm)
            n = n.parent
        return '/' + '/'.join(reversed(parts))

    def __repr__(self):
        return '<Node %r%s %r>' % (self.name, '/' if self.is_dir else '', self.extents)


class RR(object):
    """Decoded SUSP / Rock Ridge entries of one directory record."""

    def __init__(self):
        self.name = None
        self.mode = self.nlink = self.uid = self.gid = self.serial = None
        self.px_len = None
        self.symlink = None
        self.entries = []
        self.ce = []
        self.cl = None
        self.pl = None
        self.re = False
        self.tf = None
        self.sp = False
        self.sp_skip = None
        self.er = False
        self.er_id = None
        self.er_info = None
        self.rr_flags = None     # flags byte of the RRIP 1.09 'RR' entry
        self.pn = None


class RRNode(object):
    """One entry of the logical Rock Ridge tree (relocation resolved)."""

    def __init__(self):
        self.name = None
        self.is_dir = False
        self.extents = []
        self.length = 0
        self.children = []
        self.symlink = None
        self.mode = None
        self.nlink = None
        self.iso = None          # physical Node (for a relocated directory: the moved directory)
        self.entry = None        # Node of the entry in the logical parent (CL placeholder if relocated)
        self.parent = None
        self.inline = None

    def __repr__(self):
        return '<RRNode %r%s>' % (self.name, '/' if self.is_dir else '')


class Image(object):
    def __init__(self):
        self.size = 0
        self.lbs = SECTOR
        self.vds = []
        self.pvd = None
        self.svds = []
        self.enhanced = None
        self.n_pvd = 0
        self.iso_root = None
        self.joliet_root = None
        self.enhanced_root = None
        self.rr_version = None
        self.rr_root = None
        self.path_tables = {}
        self.eltorito = None
        self.hybrid = None
        self.udf = None
        self.segments = []
        self.problems = []
        self.xa = False
        self.susp = False


# ---------------------------------------------------------------------------------------------
# small helpers

def _split_version(ident, joliet):
    """Strip a trailing ';<digits>' (file version number) from an identifier."""
    if joliet:
        i = ident.rfind(b'\x00;')
        while i > 0 and i % 2:
            i = ident.rfind(b'\x00;', 0, i)
        if i > 0:
            tail = ident[i + 2:]
            if tail and len(tail) % 2 == 0 and all(
                    tail[k] == 0 and 0x30 <= tail[k + 1] <= 0x39 for k in range(0, len(tail), 2)):
                return ident[:i]
        return ident
    base, sep, ver = ident.rpartition(b';')
    if sep and ver.isdigit():
        return base
    return ident


def _cmp_ident(a, b, joliet):
    """ECMA-119 9.3 style comparison of two (version-less) identifiers: pad, then byte order."""
    pad = b'\x00' if joliet else b' '
    n = max(len(a), len(b))
    a, b = a.ljust(n, pad), b.ljust(n, pad)
    return (a > b) - (a < b)


def _sort_key(ident, joliet):
    return functools.cmp_to_key(lambda x, y: _cmp_ident(x, y, joliet))(_split_version(ident, joliet))


def _dstring(field):
    """OSTA CS0 dstring in a fixed field (last byte = used length incl. compression id)."""
    if not field:
        return ''
    n = field[-1]
    if n == 0 or n > len(field) - 1:
        return ''
    return _cs0(field[:n])


def _cs0(raw):
    """OSTA CS0 d-characters: first byte 8 => one byte per char, 16 => UTF-16BE."""
    if not raw:
        return ''
    if raw[0] == 16:
        return raw[1:].decode('utf-16-be', 'replace')
    return raw[1:].decode('latin-1')


# ---------------------------------------------------------------------------------------------

class _Reader(object):
    def __init__(self, img, check):
        self.img = img
        self.check = check
        self.im = Image()
        self.im.size = len(img)
        self.segs = {}            # (offset, length, kind) -> [key, ...]
        self.ce_owner = {}        # (first byte, end byte) of a continuation area -> {owner dr offsets}
        self.vol_limit = None     # byte limit (space_size * lbs) for objects of the current volume
        self.vrs = []
        self.boot_records = []
        self.dir_bytes = 0        # work guard: total directory bytes scanned

    # -- error plumbing -----------------------------------------------------------------------
    def fail(self, rule, detail, offset=None, fatal=False):
        m = Malformed(rule, detail, offset)
        if self.check or fatal:
            raise m
        self.im.problems.append(m)

    def need(self, off, n, what='data'):
        if off < 0 or n < 0 or off + n > len(self.img):
            raise Malformed('truncated', '%s: need %d bytes at %d, image has %d' % (what, n, off, len(self.img)), off)

    def le16(self, off):
        return struct.unpack_from('<H', self.img, off)[0]

    def le32(self, off):
        return struct.unpack_from('<I', self.img, off)[0]

    def be16(self, off):
        return struct.unpack_from('>H', self.img, off)[0]

    def be32(self, off):
        return struct.unpack_from('>I', self.img, off)[0]

    def both16(self, off, what, rule='both-endian-mismatch'):
        a, b = self.le16(off), self.be16(off + 2)
        if a != b:
            self.fail(rule, '%s: little-endian %d != big-endian %d' % (what, a, b), off)
        return a

    def both32(self, off, what, rule='both-endian-mismatch'):
        a, b = self.le32(off), self.be32(off + 4)
        if a != b:
            self.fail(rule, '%s: little-endian %d != big-endian %d' % (what, a, b), off)
        return a

    def seg(self, offset, length, kind, key, volume=True):
        """Register a decoded on-disc object; identical (offset, length, kind) = same object."""
        if volume and length > 0 and self.vol_limit is not None and offset + length > self.vol_limit:
            self.fail('beyond-volume-size', '%s %s at %d+%d lies beyond the volume space (%d bytes)'
                      % (kind, key, offset, length, self.vol_limit), offset)
        keys = self.segs.setdefault((offset, length, kind), [])
        if key not in keys:
            keys.append(key)

    # -- volume descriptors -------------------------------------------------------------------
    def read_vds(self):
        im, img = self.im, self.img
        sector = 16
        seen_term = False
        pvd_raw = None
        while True:
            off = sector * SECTOR
            if sector - 16 > _MAX_VDS:
                self.fail('vd-no-terminator', 'more than %d volume descriptors' % _MAX_VDS, off, fatal=True)
            have = off + SECTOR <= len(img)
            ident = img[off + 1:off + 6] if have else b''
            if seen_term:
                # extra terminators are tolerated; anything else ends the set
                if have and ident == b'CD001' and img[off] == 255:
                    pass
                else:
                    break
            elif not have or ident != b'CD001':
                if sector == 16:
                    self.fail('vd-bad-header', 'no CD001 volume descriptor at sector 16', off, fatal=True)
                if not have or ident in (b'BEA01', b'NSR02', b'NSR03', b'TEA01', b'BOOT2') or not any(img[off:off + SECTOR]):
                    self.fail('vd-no-terminator', 'descriptor set at sectors 16..%d has no type-255 terminator'
                              % (sector - 1), off, fatal=True)
                self.fail('vd-bad-header', 'sector %d: standard identifier %r is not CD001' % (sector, ident), off, fatal=True)
            vtype, version = img[off], img[off + 6]
            vd = {'type': vtype, 'ident': ident, 'version': version, 'sector': sector}
            want_version = (1, 2) if vtype == 2 else (1,)
            if version not in want_version:
                self.fail('vd-bad-header', 'sector %d: descriptor type %d has version %d' % (sector, vtype, version), off + 6)
            if vtype == 255:
                seen_term = True
                name = 'terminator'
            elif vtype == 0:
                vd['boot_system_id'] = img[off + 7:off + 39]
                vd['boot_id'] = img[off + 39:off + 71]
                vd['boot_system_use'] = img[off + 71:off + SECTOR]
                self.boot_records.append(vd)
                name = 'boot-record'
            elif vtype in (1, 2):
                self.decode_vd(off, vd)
                if vtype == 1:
                    name = 'pvd'
                    im.n_pvd += 1
                    if pvd_raw is None:
                        pvd_raw = img[off:off + SECTOR]
                        im.pvd = vd
                    elif img[off:off + SECTOR] != pvd_raw:
                        self.fail('pvd-duplicates-differ', 'primary descriptor at sector %d differs from the one at sector %d'
                                  % (sector, im.pvd['sector']), off)
                elif version == 2:
                    name = 'enhanced-vd'
                    if im.enhanced is None:
                        im.enhanced = vd
                else:
                    name = 'svd'
                    im.svds.append(vd)
                    if not any(e in vd['escape_sequences'] for e in _JOLIET_ESC):
                        self.fail('joliet-escape', 'supplementary descriptor at sector %d has escape sequences %r'
                                  % (sector, vd['escape_sequences'].rstrip(b'\x00')), off + 88)
            else:
                name = 'vd-type-%d' % vtype
            im.vds.append(vd)
            self.seg(off, SECTOR, 'vd', name, volume=False)
            sector += 1
        if im.pvd is None:
            self.fail('vd-bad-header', 'no primary volume descriptor in the set', 16 * SECTOR, fatal=True)
        # UDF bridge volume recognition sequence directly after the ISO descriptor set
        while sector - 16 <= _MAX_VDS:
            off = sector * SECTOR
            if off + SECTOR > len(img):
                break
            ident = img[off + 1:off + 6]
            if ident not in (b'BEA01', b'NSR02', b'NSR03', b'TEA01', b'BOOT2'):
                break
            self.vrs.append((sector, ident.decode('ascii'), img[off], img[off + 6]))
            self.seg(off, SECTOR, 'udf-vrs', ident.decode('ascii'), volume=False)
            sector += 1
            if ident == b'TEA01':
                break
        self.after_vds = sector

    def decode_vd(self, off, vd):
        """Primary / supplementary / enhanced descriptor body (ECMA-119 8.4, 8.5)."""
        img = self.img
        vd['flags'] = img[off + 7]
        vd['system_id'] = img[off + 8:off + 40]
        vd['volume_id'] = img[off + 40:off + 72]
        vd['space_size'] = self.both32(off + 80, 'volume space size')
        vd['escape_sequences'] = img[off + 88:off + 120]
        vd['set_size'] = self.both16(off + 120, 'volume set size')
        vd['seqnum'] = self.both16(off + 124, 'volume sequence number')
        vd['lbs'] = self.both16(off + 128, 'logical block size')
        vd['path_tbl_size'] = self.both32(off + 132, 'path table size')
        vd['l_path_table'] = self.le32(off + 140)
        vd['opt_l'] = self.le32(off + 144)
        vd['m_path_table'] = self.be32(off + 148)
        vd['opt_m'] = self.be32(off + 152)
        vd['root_record_offset'] = off + 156
        vd['volume_set_id'] = img[off + 190:off + 318]
        vd['publisher_id'] = img[off + 318:off + 446]
        vd['preparer_id'] = img[off + 446:off + 574]
        vd['application_id'] = img[off + 574:off + 702]
        vd['copyright_file'] = img[off + 702:off + 739]
        vd['abstract_file'] = img[off + 739:off + 776]
        vd['biblio_file'] = img[off + 776:off + 813]
        vd['dates'] = {'creation': img[off + 813:off + 830], 'modification': img[off + 830:off + 847],
                       'expiration': img[off + 847:off + 864], 'effective': img[off + 864:off + 881]}
        vd['file_structure_version'] = img[off + 881]
        vd['application_use'] = img[off + 883:off + 1395]
        if vd['lbs'] != SECTOR:
            self.fail('lbs-unsupported', 'logical block size %d (only 2048 is supported)' % vd['lbs'], off + 128, fatal=True)
        # root directory record (ECMA-119 8.4.18): 34 bytes, a directory, identifier 0x00
        r = off + 156
        vd['root_extent'] = self.both32(r + 2, 'root record extent')
        vd['root_length'] = self.both32(r + 10, 'root record data length')
        self.both16(r + 28, 'root record volume sequence number')
        vd['root_flags'] = img[r + 25]
        if img[r] != 34 or not img[r + 25] & 2 or img[r + 32] != 1:
            self.fail('root-record-bad', 'root record: length %d, flags 0x%02x, identifier length %d'
                      % (img[r], img[r + 25], img[r + 32]), r)

    # -- directory records --------------------------------------------------------------------
    def parse_record(self, off, ns, limit, is_root=False):
        """Decode one directory record at byte offset off (at most limit bytes available)."""
        img = self.img
        n = Node()
        n.dr_offset = off
        n.dr_len = dr_len = img[off]
        len_fi = img[off + 32]
        if is_root:
            # the 34-byte root record inside a volume descriptor (already checked: root-record-bad)
            dr_len, len_fi = 34, 1
        if dr_len < 34 or dr_len > limit:
            self.fail('dr-length-inconsistent', 'record length %d (space left %d)' % (dr_len, limit), off, fatal=True)
        pad = 1 - (len_fi & 1)
        if len_fi == 0 or 33 + len_fi + pad > dr_len:
            self.fail('dr-length-inconsistent', 'record length %d but identifier length %d' % (dr_len, len_fi), off, fatal=True)
        n.xattr_len = img[off + 1]
        extent = self.both32(off + 2, 'directory record extent')
        length = self.both32(off + 10, 'directory record data length')
        n.date = img[off + 18:off + 25]
        n.flags = img[off + 25]
        n.file_unit_size, n.interleave_gap = img[off + 26], img[off + 27]
        n.seqnum = self.both16(off + 28, 'directory record volume sequence number')
        n.name = img[off + 33:off + 33 + len_fi]
        n.is_dir = bool(n.flags & 2)
        n.hidden = bool(n.flags & 1)
        n.extents = [(extent + n.xattr_len, length)]
        n.length = length
        n.records = [off]
        su = off + 33 + len_fi + pad
        n.su_offset, n.su_len = su, dr_len - (su - off)
        n.system_use = img[su:su + n.su_len]
        if ns == 'joliet':
            n.raw_name = n.name
        return n

    def parse_xa(self, n):
        """CD-XA record (14 bytes) at the start of the system use area; returns bytes consumed."""
        su = n.system_use
        if self.im.xa and len(su) >= 14 and su[6:8] == b'XA':
            g, u, a = struct.unpack_from('>HHH', su, 0)
            n.xa = {'group': g, 'user': u, 'attributes': a, 'filenum': su[8]}
            return 14
        return 0

    # -- SUSP / Rock Ridge --------------------------------------------------------------------
    def parse_susp(self, n, skip, is_root_dot):
        """Walk the SUSP entries of record n (system use area, then continuation areas)."""
        rr = n.rr = RR()
        state = {'nm': [], 'sl': [], 'sl_seen': False, 'nm_seen': False}
        start = n.su_offset + skip
        length = n.su_len - skip
        if length < 0:
            self.fail('rr-len-mismatch', 'system use area of %d bytes is shorter than the %d bytes to skip' % (n.su_len, skip), n.dr_offset)
            return
        pending = self.walk_area(n, rr, state, start, length, 'dr')
        hops = 0
        while pending is not None:
            block, offset, ln = pending
            hops += 1
            if hops > 64:
                self.fail('ce-loop', 'more than 64 chained continuation areas', n.dr_offset)
                break
            if offset + ln > SECTOR:
                self.fail('ce-out-of-sector', 'continuation area block %d offset %d length %d crosses the block end'
                          % (block, offset, ln), n.dr_offset)
                break
            if block < 16 and ln:
                self.fail('ce-in-system-area', 'continuation area block %d lies in the system area (sectors 0..15)' % block, n.dr_offset)
                break
            base = block * SECTOR + offset
            if base + ln > len(self.img):
                self.fail('ce-out-of-volume', 'continuation area block %d lies outside the image' % block, n.dr_offset)
                break
            rr.ce.append((block, offset, ln))
            if ln:
                self.ce_owner.setdefault((base, base + ln), set()).add(n.dr_offset)
            self.seg(base, ln, 'ce', '%s:%s' % (self.ns, n.path()))
            pending = self.walk_area(n, rr, state, base, ln, 'ce')
        if state['nm_seen']:
            rr.name = b''.join(state['nm'])
        if state['sl_seen']:
            rr.symlink = self.join_symlink(state['sl'])
        if is_root_dot and rr.er_id is not None:
            if rr.er_id == b'RRIP_1991A':
                self.im.rr_version = '1.09'
            elif rr.er_id in (b'IEEE_P1282', b'IEEE_1282'):
                self.im.rr_version = '1.12'

    def walk_area(self, n, rr, state, base, length, where):
        """Walk one area of SUSP entries; returns the CE target found in it (or None)."""
        img = self.img
        pos = 0
        ce = None
        while pos < length:
            left = length - pos
            if left < 4:
                if not (where == 'dr' and left == 1 and img[base + pos] == 0):
                    self.fail('rr-len-mismatch', '%d stray bytes after the last SUSP entry (%s area of %d bytes)'
                              % (left, where, length), base + pos)
                break
            sig = img[base + pos:base + pos + 2]
            ln, ver = img[base + pos + 2], img[base + pos + 3]
            if ln < 4 or ln > left:
                self.fail('rr-entry-overrun', 'entry %r has length %d, %d bytes left in the %s area' % (sig, ln, left, where), base + pos)
                break
            rr.entries.append((sig, ln, ver, where))
            e = base + pos
            bad = None
            if sig == b'SP':
                if ln != 7:
                    bad = 7
                else:
                    rr.sp = img[e + 4:e + 6] == b'\xbe\xef'
                    rr.sp_skip = img[e + 6]
            elif sig == b'CE':
                if ln != 28:
                    bad = 28
                else:
                    ce = (self.both32(e + 4, 'CE block', 'rr-both-endian-mismatch'),
                          self.both32(e + 12, 'CE offset', 'rr-both-endian-mismatch'),
                          self.both32(e + 20, 'CE length', 'rr-both-endian-mismatch'))
            elif sig == b'PX':
                if ln not in (36, 44):
                    bad = 36
                else:
                    rr.px_len = ln
                    rr.mode = self.both32(e + 4, 'PX mode', 'rr-both-endian-mismatch')
                    rr.nlink = self.both32(e + 12, 'PX links', 'rr-both-endian-mismatch')
                    rr.uid = self.both32(e + 20, 'PX uid', 'rr-both-endian-mismatch')
                    rr.gid = self.both32(e + 28, 'PX gid', 'rr-both-endian-mismatch')
                    if ln == 44:
                        rr.serial = self.both32(e + 36, 'PX serial', 'rr-both-endian-mismatch')
            elif sig == b'PN':
                if ln != 20:
                    bad = 20
                else:
                    rr.pn = (self.both32(e + 4, 'PN high', 'rr-both-endian-mismatch'),
                             self.both32(e + 12, 'PN low', 'rr-both-endian-mismatch'))
            elif sig == b'NM':
                if ln < 5:
                    bad = 5
                else:
                    state['nm_seen'] = True
                    flags = img[e + 4]
                    if flags & 2:
                        state['nm'].append(b'.')
                    elif flags & 4:
                        state['nm'].append(b'..')
                    else:
                        state['nm'].append(img[e + 5:e + ln])
            elif sig == b'SL':
                if ln < 5:
                    bad = 5
                else:
                    state['sl_seen'] = True
                    p = e + 5
                    while p < e + ln:
                        if p + 2 > e + ln or p + 2 + img[p + 1] > e + ln:
                            self.fail('rr-entry-overrun', 'SL component overruns its entry', p)
                            break
                        state['sl'].append((img[p], img[p + 2:p + 2 + img[p + 1]]))
                        p += 2 + img[p + 1]
            elif sig == b'CL':
                if ln != 12:
                    bad = 12
                else:
                    rr.cl = self.both32(e + 4, 'CL location', 'rr-both-endian-mismatch')
            elif sig == b'PL':
                if ln != 12:
                    bad = 12
                else:
                    rr.pl = self.both32(e + 4, 'PL location', 'rr-both-endian-mismatch')
            elif sig == b'RE':
                rr.re = True
            elif sig == b'RR':
                if ln >= 5:
                    rr.rr_flags = img[e + 4]
            elif sig == b'TF':
                if ln >= 5:
                    flags = img[e + 4]
                    tf = {'flags': flags}
                    width = 17 if flags & 0x80 else 7
                    p = e + 5
                    for bit, nm in enumerate(('creation', 'modify', 'access', 'attributes', 'backup', 'expiration', 'effective')):
                        if flags & (1 << bit) and p + width <= e + ln:
                            tf[nm] = img[p:p + width]
                            p += width
                    rr.tf = tf
            elif sig == b'ER':
                if ln < 8 or 8 + img[e + 4] + img[e + 5] + img[e + 6] > ln:
                    bad = 8
                else:
                    rr.er = True
                    a, b, c = img[e + 4], img[e + 5], img[e + 6]
                    rr.er_id = img[e + 8:e + 8 + a]
                    rr.er_info = {'ext_ver': img[e + 7], 'ext_id': rr.er_id, 'ext_des': img[e + 8 + a:e + 8 + a + b],
                                  'ext_src': img[e + 8 + a + b:e + 8 + a + b + c]}
            elif sig == b'ST':
                pos = length
                break
            if bad is not None:
                self.fail('rr-entry-bad-length', 'entry %r has length %d (expected %s%d)'
                          % (sig, ln, '>= ' if sig in (b'NM', b'SL', b'ER') else '', bad), e)
            pos += ln
        return ce

    @staticmethod
    def join_symlink(components):
        """RRIP 4.1.3: components joined with '/', ROOT gives a leading '/', CONTINUE glues."""
        parts = []
        glue = False
        for flags, content in components:
            if flags & 2:
                text = b'.'
            elif flags & 4:
                text = b'..'
            elif flags & 8:
                text = b''
            else:
                text = content
            if glue and parts:
                parts[-1] += text
            else:
                parts.append(text)
            glue = bool(flags & 1)
        if parts == [b'']:
            return b'/'
        return b'/'.join(parts)

    def check_ce_overlap(self):
        """No two continuation areas of the image may share a byte (the same area reached again
        from the same record, e.g. through the enhanced descriptor, is one area)."""
        areas = sorted(self.ce_owner.items())
        for (span, owners) in areas:
            if len(owners) > 1:
                self.fail('ce-overlap', 'continuation area at bytes %d..%d is used by the records at %s'
                          % (span[0], span[1], sorted(owners)), span[0])
        for ((a0, a1), oa), ((b0, b1), ob) in zip(areas, areas[1:]):
            if b0 < a1:
                self.fail('ce-overlap', 'continuation areas %d..%d (record at %d) and %d..%d (record at %d) overlap'
                          % (a0, a1, min(oa), b0, b1, min(ob)), b0)

    # -- directory tree -----------------------------------------------------------------------
    def read_tree(self, ns, vd):
        """Decode the whole directory hierarchy of one volume descriptor."""
        self.ns = ns
        self.joliet = ns == 'joliet'
        self.vol_limit = vd['space_size'] * SECTOR
        if self.vol_limit > len(self.img):
            self.fail('beyond-volume-size', '%s volume space size %d blocks exceeds the image (%d bytes)'
                      % (ns, vd['space_size'], len(self.img)), vd['sector'] * SECTOR + 80)
            self.vol_limit = len(self.img)
        root = self.parse_record(vd['root_record_offset'], ns, 34, is_root=True)
        root.name = b'' if ns != 'joliet' else ''
        root._path = '/'
        # SUSP detection: root '.' starts with SP at system-use offset 0 (14 behind an XA record)
        self.susp = False
        self.susp_skip = 0
        if ns != 'joliet':
            roff = root.extents[0][0] * SECTOR
            su = b''
            if roff + 34 <= len(self.img) and 34 <= self.img[roff] <= len(self.img) - roff:
                try:
                    su = self.parse_record(roff, ns, self.img[roff]).system_use
                except Malformed:
                    pass            # reported again, with context, by read_dir
            if su:
                if not self.im.xa and len(su) >= 14 and su[6:8] == b'XA' and su[9:14] == b'\x00' * 5:
                    self.im.xa = True
                s = 14 if (self.im.xa and su[6:8] == b'XA') else 0
                if su[s:s + 2] == b'SP' and len(su) >= s + 7 and su[s + 2] == 7 and su[s + 4:s + 6] == b'\xbe\xef':
                    self.susp = True
                    self.susp_skip = su[s + 6]
                    if ns == 'iso':
                        self.im.susp = True
        self.read_dir(ns, root, root, set(), 0)
        return root

    def split_dir(self, ns, node, off, length, where):
        """Cut length bytes of directory data at off into directory records (ECMA-119 6.8.1)."""
        img = self.img
        recs = []
        pos = 0
        while pos < length:
            b = img[off + pos]
            sector_end = min((pos // SECTOR + 1) * SECTOR, length)
            if b == 0:
                if any(img[off + pos:off + sector_end]):
                    self.fail('dir-padding-nonzero', 'directory %s: nonzero bytes after the zero length byte at %d' % (where, pos), off + pos)
                pos = sector_end
                continue
            if pos % SECTOR + b > SECTOR:
                self.fail('dr-crosses-sector', 'directory %s: record at %d of length %d crosses the sector end' % (where, pos, b), off + pos)
                pos = (pos // SECTOR + 1) * SECTOR
                continue
            if pos + b > length:
                self.fail('dr-outside-dir', 'directory %s: record at %d of length %d ends after the data length %d'
                          % (where, pos, b, length), off + pos)
                break
            try:
                r = self.parse_record(off + pos, ns, sector_end - pos)
            except Malformed as m:
                if self.check:
                    raise
                self.im.problems.append(m)
                pos += b
                continue
            r.parent = node
            if r.name in (b'\x00', b'\x01'):
                r._path = where.split(':', 1)[1].rstrip('/') + ('/.' if r.name == b'\x00' else '/..')
            recs.append(r)
            pos += b
        return recs

    def read_dir(self, ns, node, parent, visited, depth):
        img = self.img
        extent, length = node.extents[0]
        off = extent * SECTOR
        where = '%s:%s' % (ns, node.path())
        if depth > _MAX_DEPTH:
            self.fail('dir-too-deep', 'directory nesting deeper than %d at %s' % (_MAX_DEPTH, where), node.dr_offset)
            return
        if extent in visited:
            self.fail('dir-cycle', 'directory extent %d reached twice (at %s)' % (extent, where), node.dr_offset)
            return
        visited.add(extent)
        if length == 0 or length % SECTOR:
            self.fail('dir-length-not-multiple', 'directory %s has data length %d' % (where, length), node.dr_offset)
            if length == 0:
                return
        if off + length > len(img):
            self.fail('extent-out-of-image', 'directory %s: extent %d length %d is outside the image' % (where, extent, length), node.dr_offset)
            return
        # 1. split the directory data into records; '.' must describe this very directory
        recs = self.split_dir(ns, node, off, length, where)
        if not recs or recs[0].name != b'\x00' or recs[0].extents[0] != (extent, length):
            self.fail('dot-wrong', "directory %s: first record is %r %r, expected '.' with extent (%d, %d)"
                      % (where, recs[0].name if recs else None, recs[0].extents[0] if recs else None, extent, length), off)
            # check=False only: if just the length differs, go on with the longer of the two claims
            alt = recs[0].extents[0][1] if recs and recs[0].name == b'\x00' and recs[0].extents[0][0] == extent else 0
            if alt > length and alt % SECTOR == 0 and off + alt <= len(img):
                length = alt
                recs = self.split_dir(ns, node, off, length, where)
        self.dir_bytes += length
        if self.dir_bytes > 4 * len(img) + (1 << 24):
            self.fail('dir-too-large', 'the directories of the image claim more than four times the image size', node.dr_offset, fatal=True)
        self.seg(off, length, 'dir', where)
        node.used_extent = (extent, length)
        # 2. system use areas (XA, SUSP)
        for i, r in enumerate(recs):
            skip = self.parse_xa(r)
            if self.susp:
                is_root_dot = node.parent is None and i == 0
                if not is_root_dot:
                    skip = max(skip, self.susp_skip)
                self.parse_susp(r, skip, is_root_dot)
        # 3. '..' must describe the parent directory
        pext = parent.extents[0]
        if len(recs) < 2 or recs[1].name != b'\x01' or recs[1].extents[0] not in (pext, getattr(parent, 'used_extent', pext)):
            self.fail('dotdot-wrong', "directory %s: second record is %r %r, expected '..' with the parent's extent %r"
                      % (where, recs[1].name if len(recs) > 1 else None, recs[1].extents[0] if len(recs) > 1 else None, pext),
                      recs[1].dr_offset if len(recs) > 1 else off)
        rest = recs
        if recs and recs[0].name == b'\x00':
            node.dot = recs[0]
            rest = recs[1:]
            if rest and rest[0].name == b'\x01':
                node.dotdot = rest[0]
                rest = rest[1:]
        # 4. group multi-extent files, check the order
        groups = []
        i = 0
        while i < len(rest):
            g = [rest[i]]
            while g[-1].flags & 0x80:
                i += 1
                if i >= len(rest) or rest[i].name != g[0].name:
                    self.fail('dir-not-sorted', 'directory %s: multi-extent record %r is not followed by its next extent'
                              % (where, g[0].name), g[-1].dr_offset)
                    i -= 1
                    break
                g.append(rest[i])
            i += 1
            groups.append(g)
        for a, b in zip(groups, groups[1:]):
            if _cmp_ident(_split_version(a[0].name, self.joliet), _split_version(b[0].name, self.joliet), self.joliet) > 0:
                self.fail('dir-not-sorted', 'directory %s: %r is recorded before %r' % (where, a[0].name, b[0].name), b[0].dr_offset)
        # 5. build the child nodes
        for g in groups:
            c = g[0]
            c.parent = node
            if len(g) > 1:
                c.extents = [x.extents[0] for x in g]
                c.length = sum(x.length for x in g)
                c.records = [x.dr_offset for x in g]
            if self.joliet:
                c.name = c.raw_name.decode('utf-16-be', 'replace')
            node.children.append(c)
        for c in node.children:
            if c.is_dir:
                self.read_dir(ns, c, node, visited, depth + 1)
            elif c.rr is not None and c.rr.cl is not None:
                pass        # Rock Ridge relocation placeholder, resolved in build_rr_tree
            else:
                cpath = '%s:%s' % (ns, c.path())
                for (e, ln) in c.extents:
                    if ln and e * SECTOR + ln > len(img):
                        self.fail('extent-out-of-image', 'file %s: extent %d length %d is outside the image' % (cpath, e, ln), c.dr_offset)
                    else:
                        self.seg(e * SECTOR, ln, 'file-data', cpath)

    # -- path tables --------------------------------------------------------------------------
    def decode_ptable(self, loc, size, big, kind, tag):
        img = self.img
        off = loc * SECTOR
        if off + size > len(img):
            self.fail('extent-out-of-image', '%s path table at block %d size %d is outside the image' % (tag, loc, size), off)
            return []
        self.seg(off, size, kind, tag)
        recs = []
        pos = 0
        while pos < size:
            len_di = img[off + pos] if pos + 8 <= size else 0
            reclen = 8 + len_di + (len_di & 1)
            if len_di == 0 or pos + reclen > size:
                self.fail('ptable-size-mismatch', '%s path table: record at %d does not fit the table size %d' % (tag, pos, size), off + pos)
                break
            p = off + pos
            recs.append({'name': img[p + 8:p + 8 + len_di], 'xattr_len': img[p + 1],
                         'extent': self.be32(p + 2) if big else self.le32(p + 2),
                         'parent': self.be16(p + 6) if big else self.le16(p + 6), 'offset': p})
            pos += reclen
        return recs

    def check_path_tables(self, tag, vd, root):
        joliet = tag == 'joliet'
        self.vol_limit = min(vd['space_size'] * SECTOR, len(self.img))
        size = vd['path_tbl_size']
        L = self.decode_ptable(vd['l_path_table'], size, False, 'ptable-L', tag)
        M = self.decode_ptable(vd['m_path_table'], size, True, 'ptable-M', tag)
        self.im.path_tables[tag] = {'L': L, 'M': M}
        strip = lambda t: [(r['name'], r['extent'], r['parent']) for r in t]
        if strip(L) != strip(M):
            for i, (a, b) in enumerate(zip(strip(L), strip(M))):
                if a != b:
                    self.fail('ptable-LM-differ', '%s path tables: record %d is %r in L and %r in M' % (tag, i + 1, a, b), L[i]['offset'])
                    break
            else:
                self.fail('ptable-LM-differ', '%s path tables: L has %d records, M has %d' % (tag, len(L), len(M)))
        # expected table: ECMA-119 6.9.1 (levels; parent number; identifier)
        exp = [(b'\x00', root.extents[0][0], 1)]
        level = [(root, 1)]
        while level:
            nxt = []
            for d, idx in level:
                kids = [c for c in d.children if c.is_dir]
                kids.sort(key=lambda c: _sort_key(c.raw_name if joliet else c.name, joliet))
                for c in kids:
                    exp.append((c.raw_name if joliet else c.name, c.extents[0][0], idx))
                    nxt.append((c, len(exp)))
            level = nxt
        got = strip(L)
        first = L[0]['offset'] if L else None
        missing = sorted(set(e[0] for e in exp) - set(g[0] for g in got))
        extra = sorted(set(g[0] for g in got) - set(e[0] for e in exp))
        if missing or len(got) < len(exp):
            self.fail('ptable-missing-dir', '%s path table lists %d directories, the hierarchy has %d (missing e.g. %r)'
                      % (tag, len(got), len(exp), missing[:3]), first)
        elif extra or len(got) > len(exp):
            self.fail('ptable-extra-dir', '%s path table lists %d directories, the hierarchy has %d (extra e.g. %r)'
                      % (tag, len(got), len(exp), extra[:3]), first)
        else:
            for i, (g, e) in enumerate(zip(got, exp)):
                if g[0] != e[0]:
                    self.fail('ptable-order', '%s path table record %d is %r, expected %r' % (tag, i + 1, g[0], e[0]), L[i]['offset'])
                    break
            else:
                for i, (g, e) in enumerate(zip(got, exp)):
                    if g[2] != e[2]:
                        self.fail('ptable-parent-wrong', '%s path table record %d (%r) has parent %d, expected %d'
                                  % (tag, i + 1, g[0], g[2], e[2]), L[i]['offset'])
                        break
                    if g[1] != e[1]:
                        self.fail('ptable-extent-wrong', '%s path table record %d (%r) has extent %d, the directory is at %d'
                                  % (tag, i + 1, g[0], g[1], e[1]), L[i]['offset'])
                        break
        expsize = sum(8 + len(e[0]) + (len(e[0]) & 1) for e in exp)
        if not missing and not extra and len(got) == len(exp) and expsize != size:
            self.fail('ptable-size-mismatch', '%s path table size is %d in the descriptor, the records take %d' % (tag, size, expsize))

    # -- Rock Ridge logical tree --------------------------------------------------------------
    def build_rr_tree(self, root):
        by_extent = {}

        def index(d):
            by_extent[d.extents[0][0]] = d
            for c in d.children:
                if c.is_dir:
                    index(c)
        index(root)

        def is_rr_moved(d):
            if d.parent is not root or not d.is_dir:
                return False
            kids = d.children
            all_re = all(k.rr is not None and k.rr.re for k in kids)
            return all_re and (bool(kids) or d.name == b'RR_MOVED')

        expanded = set()          # physical directories already placed in the logical tree

        def make(entry, phys, lparent, depth):
            n = RRNode()
            n.entry, n.iso, n.parent = entry, phys, lparent
            rr = entry.rr
            n.name = rr.name if rr is not None and rr.name is not None else entry.name
            n.is_dir = phys.is_dir
            n.extents, n.length = phys.extents, phys.length
            if rr is not None:
                n.mode, n.nlink, n.symlink = rr.mode, rr.nlink, rr.symlink
            if phys.is_dir and id(phys) in expanded:
                self.fail('dir-cycle', 'directory %s appears twice in the logical Rock Ridge tree' % phys.path(), entry.dr_offset)
            elif phys.is_dir and depth < _MAX_DEPTH:
                expanded.add(id(phys))
                for c in phys.children:
                    crr = c.rr
                    if crr is not None and crr.re:
                        continue
                    if phys is root and is_rr_moved(c):
                        continue
                    if crr is not None and crr.cl is not None and not c.is_dir:
                        target = by_extent.get(crr.cl)
                        if target is None:
                            self.fail('cl-target-not-dir', 'CL of %s points at block %d, which is not a directory of the hierarchy'
                                      % (c.path(), crr.cl), c.dr_offset)
                            continue
                        drr = target.dotdot.rr if target.dotdot is not None else None
                        if drr is None or drr.pl != phys.extents[0][0]:
                            self.fail('pl-wrong', "'..' of the relocated directory %s has PL %r, the original parent %s is at block %d"
                                      % (target.path(), None if drr is None else drr.pl, phys.path(), phys.extents[0][0]),
                                      target.dotdot.dr_offset if target.dotdot is not None else None)
                        n.children.append(make(c, target, n, depth + 1))
                    else:
                        n.children.append(make(c, c, n, depth + 1))
            return n
        return make(root, root, None, 0)

    # -- El Torito ----------------------------------------------------------------------------
    def read_eltorito(self):
        img = self.img
        br = None
        for vd in self.boot_records:
            if vd['boot_system_id'].rstrip(b'\x00 ') == b'EL TORITO SPECIFICATION':
                br = vd
                break
        if br is None:
            return None
        off = br['sector'] * SECTOR
        if br['sector'] != 17:
            self.fail('eltorito-boot-record', 'El Torito boot record is at sector %d, not 17' % br['sector'], off)
        cat = self.le32(off + 71)
        br['eltorito_catalog'] = cat
        base = cat * SECTOR
        limit = min(self.vol_limit, len(img))
        if cat < 16 or base + 64 > limit:
            self.fail('eltorito-boot-record', 'boot catalog sector %d is outside the volume' % cat, off + 71, fatal=True)
        et = {'boot_record_sector': br['sector'], 'catalog_sector': cat}
        v = img[base:base + 32]
        words = sum(struct.unpack('<16H', v)) & 0xffff
        et['validation'] = {'header_id': v[0], 'platform_id': v[1], 'id_string': v[4:28],
                            'checksum': struct.unpack_from('<H', v, 28)[0], 'checksum_ok': words == 0,
                            'key_ok': v[30:32] == b'\x55\xaa'}
        if v[0] != 1 or v[30:32] != b'\x55\xaa' or words != 0:
            self.fail('eltorito-validation', 'validation entry: header id %d, key %r, word sum 0x%04x' % (v[0], v[30:32], words), base)

        def entry(p):
            self.need(p, 32, 'boot catalog entry')
            e = {'boot_indicator': img[p], 'media_type': img[p + 1], 'load_segment': self.le16(p + 2),
                 'system_type': img[p + 4], 'sector_count': self.le16(p + 6), 'load_rba': self.le32(p + 8),
                 'selection_criteria_type': img[p + 12], 'selection_criteria': img[p + 12:p + 32], 'offset': p,
                 'extensions': []}
            if e['load_rba'] * SECTOR >= limit:
                self.fail('eltorito-entry-rba', 'boot entry load RBA %d is outside the volume' % e['load_rba'], p + 8)
            return e
        et['initial'] = entry(base + 32)
        et['sections'] = []
        p = base + 64
        last = None
        guard = 0
        while p + 32 <= limit and img[p] in (0x90, 0x91) and guard < 4096:
            sec = {'header_indicator': img[p], 'platform_id': img[p + 1], 'num_entries': self.le16(p + 2),
                   'id_string': img[p + 4:p + 32], 'entries': [], 'offset': p}
            p += 32
            for _ in range(sec['num_entries']):
                guard += 1
                if p + 32 > limit or guard >= 4096:
                    self.fail('eltorito-sections', 'section entries run outside the volume', p)
                    break
                e = entry(p)
                p += 32
                more = e['media_type'] & 0x20
                while more and p + 32 <= limit and img[p] == 0x44 and guard < 4096:
                    guard += 1
                    e['extensions'].append(img[p:p + 32])
                    more = img[p + 1] & 0x20
                    p += 32
                sec['entries'].append(e)
            et['sections'].append(sec)
            last = sec['header_indicator']
            if last == 0x91:
                break
        if last == 0x90:
            self.fail('eltorito-sections', 'the last section header has indicator 0x90, not 0x91', p)
        et['raw'] = img[base:p]
        et['length'] = p - base
        return et

    # -- isohybrid system area ----------------------------------------------------------------
    def read_hybrid(self):
        img = self.img
        if len(img) < 512 or img[0:32] not in (b'\x33\xed' + b'\x90' * 30, b'\x45\x52\x08\x00\x00\x00\x90\x90' + b'\x00' * 24):
            return None
        mbr = {'signature_ok': img[510:512] == b'\x55\xaa', 'rba': self.le32(432), 'rba_high': self.le32(436),
               'rba64': struct.unpack_from('<Q', img, 432)[0], 'mbr_id': self.le32(440), 'unused': self.le16(444),
               'header': 'mac' if img[0] == 0x45 else 'plain', 'partitions': []}
        if not mbr['signature_ok']:
            self.fail('mbr-signature', 'MBR signature is %r' % img[510:512], 510)
        for i in range(4):
            p = 446 + 16 * i
            mbr['partitions'].append({'index': i + 1, 'status': img[p], 'start_chs': tuple(img[p + 1:p + 4]), 'type': img[p + 4],
                                      'end_chs': tuple(img[p + 5:p + 8]), 'lba_start': self.le32(p + 8), 'num_sectors': self.le32(p + 12)})
        hy = {'mbr': mbr, 'gpt': None, 'apm': None}
        if img[512:520] == b'EFI PART':
            prim = self.read_gpt(512, 'primary')
            gpt = {'primary': prim, 'secondary': None}
            b = prim['backup_lba'] * 512
            if b + 512 > len(img) or img[b:b + 8] != b'EFI PART':
                self.fail('gpt-backup', 'no backup GPT header at LBA %d' % prim['backup_lba'], b)
            else:
                gpt['secondary'] = self.read_gpt(b, 'secondary')
            hy['gpt'] = gpt
        apm = []
        k = 1
        while k * SECTOR + 512 <= 16 * SECTOR and img[k * SECTOR:k * SECTOR + 2] == b'PM':
            p = k * SECTOR
            (_, _, cnt, start, blocks, name, typ, dstart, dcount, status) = struct.unpack_from('>HHLLL32s32sLLL', img, p)
            apm.append({'index': k, 'map_count': cnt, 'start_block': start, 'block_count': blocks,
                        'name': name.rstrip(b'\x00'), 'type': typ.rstrip(b'\x00'), 'data_start': dstart,
                        'data_count': dcount, 'status': status, 'offset': p})
            if k >= cnt:
                break
            k += 1
        hy['apm'] = apm or None
        return hy

    def read_gpt(self, off, which):
        img = self.img
        self.need(off, 92, 'GPT header')
        (sig, rev, hsize, hcrc, _res, cur, backup, first, last, guid, pe_lba, nparts, esize, pcrc) = \
            struct.unpack_from('<8s4sLLLQQQQ16sQLLL', img, off)
        g = {'offset': off, 'revision': rev, 'header_size': hsize, 'header_crc': hcrc, 'current_lba': cur, 'backup_lba': backup,
             'first_usable_lba': first, 'last_usable_lba': last, 'disk_guid': guid, 'partition_entries_lba': pe_lba,
             'num_parts': nparts, 'size_of_partition_entries': esize, 'parts_crc': pcrc, 'partitions': []}
        hsize = min(max(hsize, 92), 512)
        hdr = bytearray(img[off:off + hsize])
        hdr[16:20] = b'\x00' * 4
        g['header_crc_ok'] = zlib.crc32(bytes(hdr)) & 0xffffffff == hcrc
        p = pe_lba * 512
        total = nparts * esize
        if nparts > 4096 or esize < 128 or esize > 4096 or p + total > len(img):
            g['parts_crc_ok'] = False
            g['parts_crc_used_only_ok'] = False
            self.fail('gpt-crc', '%s GPT: partition array (%d x %d at LBA %d) is outside the image' % (which, nparts, esize, pe_lba), off)
            return g
        g['parts_crc_ok'] = zlib.crc32(img[p:p + total]) & 0xffffffff == pcrc
        used = 0
        for i in range(nparts):
            e = p + i * esize
            if not any(img[e:e + 16]):
                continue
            used = i + 1
            g['partitions'].append({'index': i, 'type_guid': img[e:e + 16], 'part_guid': img[e + 16:e + 32],
                                    'first_lba': struct.unpack_from('<Q', img, e + 32)[0], 'last_lba': struct.unpack_from('<Q', img, e + 40)[0],
                                    'attributes': img[e + 48:e + 56], 'name': img[e + 56:e + 128].decode('utf-16-le', 'replace').rstrip('\x00')})
        g['parts_crc_used_only_ok'] = zlib.crc32(img[p:p + used * esize]) & 0xffffffff == pcrc
        if which == 'secondary':
            self.seg(p, total, 'gpt-backup-parts', which, volume=False)
            self.seg(off, 512, 'gpt-backup-header', which, volume=False)
        if not g['header_crc_ok']:
            self.fail('gpt-crc', '%s GPT header CRC32 mismatch' % which, off + 16)
        if not g['parts_crc_ok']:
            self.fail('gpt-crc', '%s GPT partition array CRC32 mismatch (CRC over the %d used entries only: %s)'
                      % (which, used, 'matches' if g['parts_crc_used_only_ok'] else 'differs too'), off + 88)
        return g

    # -- UDF ----------------------------------------------------------------------------------
    def udf_tag(self, buf, pos, loc, what, abs_off):
        """Verify the 16-byte descriptor tag at buf[pos:] (ECMA-167 3/7.2); loc is the expected tag
        location, abs_off the byte offset of the tag in the image.  Returns (ident, crc_length)."""
        if pos < 0 or pos + 16 > len(buf):
            raise Malformed('truncated', 'UDF tag of %s does not fit' % what, abs_off)
        ident, _ver, csum, _res, _serial, crc, crc_len, tagloc = struct.unpack_from('<HHBBHHHI', buf, pos)
        if (sum(buf[pos:pos + 16]) - buf[pos + 4]) & 0xff != csum:
            self.fail('udf-tag-checksum', '%s: tag checksum 0x%02x is wrong' % (what, csum), abs_off)
        if pos + 16 + crc_len > len(buf):
            self.fail('udf-tag-crc', '%s: CRC length %d runs past the data' % (what, crc_len), abs_off)
        elif binascii.crc_hqx(bytes(buf[pos + 16:pos + 16 + crc_len]), 0) != crc:
            self.fail('udf-tag-crc', '%s: descriptor CRC 0x%04x is wrong' % (what, crc), abs_off)
        if tagloc != loc:
            self.fail('udf-tag-location', '%s: tag location %d, the descriptor is at %d' % (what, tagloc, loc), abs_off)
        self.udf_tags.append((abs_off // SECTOR if abs_off is not None else None, ident))
        return ident, crc_len

    def read_udf(self):
        img = self.img
        pvd = self.im.pvd
        self.vol_limit = min(pvd['space_size'] * SECTOR, len(img))
        nsect = self.vol_limit // SECTOR
        idents = [v[1] for v in self.vrs]

        def looks_like_anchor(s):
            o = s * SECTOR
            if s < 0 or o + 512 > len(img):
                return False
            return self.le16(o) == 2 and (sum(img[o:o + 16]) - img[o + 4]) & 0xff == img[o + 4]
        if not self.vrs and not looks_like_anchor(256):
            return None
        self.udf_tags = []
        u = {'vrs': [(v[1], v[0]) for v in self.vrs], 'tags': self.udf_tags, 'integrity': None, 'reserve_differences': []}
        nsr = [i for i in idents if i in ('NSR02', 'NSR03')]
        if not idents or idents[0] != 'BEA01' or idents[-1] != 'TEA01' or len(nsr) != 1 \
                or any(v[2] != 0 or v[3] != 1 for v in self.vrs):
            self.fail('udf-vrs', 'volume recognition sequence is %r (expected BEA01, NSR02/NSR03, TEA01)' % (idents,),
                      self.after_vds * SECTOR)
        # anchors
        u['anchors'] = []
        anchor = None
        for s in sorted(set([256, nsect - 1, nsect - 257, len(img) // SECTOR - 1])):
            if not looks_like_anchor(s):
                continue
            self.udf_tag(img, s * SECTOR, s, 'anchor at sector %d' % s, s * SECTOR)
            u['anchors'].append(s)
            self.seg(s * SECTOR, SECTOR, 'udf-anchor', 'sector %d' % s, volume=False)
            a = {'main': (self.le32(s * SECTOR + 20), self.le32(s * SECTOR + 16)),
                 'reserve': (self.le32(s * SECTOR + 28), self.le32(s * SECTOR + 24))}
            if anchor is None:
                anchor = a
        for s in (256, nsect - 1):
            if s not in u['anchors']:
                self.fail('udf-anchor-missing', 'no anchor volume descriptor pointer at sector %d' % s, s * SECTOR, fatal=anchor is None)
        u['main_vds_extent'], u['reserve_vds_extent'] = anchor['main'], anchor['reserve']
        main = self.read_vds_udf(anchor['main'], 'main')
        if anchor['reserve'][1]:
            res = self.read_vds_udf(anchor['reserve'], 'reserve')
            # informational: descriptor bodies that are not byte-identical in the two sequences
            u['reserve_differences'] = [(a[0], a[1], b[1]) for a, b in zip(main['seq'], res['seq']) if a[2] != b[2]]
            essential = lambda d: ([i for (i, s, b) in d['seq']],
                                   {k: v for k, v in (d.get('partition') or {}).items() if k not in ('sector', 'offset')},
                                   {k: v for k, v in (d.get('lvd') or {}).items() if k not in ('sector', 'offset')})
            if essential(main) != essential(res):
                self.fail('udf-reserve-vds-differs', 'reserve volume descriptor sequence describes another partition / logical '
                          'volume than the main one', anchor['reserve'][0] * SECTOR)
        else:
            self.fail('udf-vds-incomplete', 'no reserve volume descriptor sequence', 256 * SECTOR)
        u.update({'pvd': main.get('pvd'), 'partition': main.get('partition'), 'lvd': main.get('lvd'),
                  'impl_use': main.get('impl_use'), 'unallocated': main.get('unallocated')})
        part, lvd = main.get('partition'), main.get('lvd')
        if part is None or lvd is None:
            raise Malformed('udf-vds-incomplete', 'cannot continue without partition and logical volume descriptors')
        if part['start'] + part['length'] > nsect:
            self.fail('udf-partition-bounds', 'partition [%d, %d) is not inside the volume of %d sectors'
                      % (part['start'], part['start'] + part['length'], nsect), part['offset'])
        maps = lvd['maps']
        self.part = part

        def resolve(partref, what):
            if partref >= len(maps) or maps[partref]['type'] != 1 or maps[partref]['partition'] != part['number']:
                self.fail('udf-partition-map', '%s: partition reference %d does not resolve to partition %d'
                          % (what, partref, part['number']), lvd['offset'])
        self.udf_resolve = resolve
        # logical volume integrity sequence
        iloc, ilen = lvd['integrity_extent']
        if ilen:
            o = iloc * SECTOR
            self.need(o, SECTOR, 'logical volume integrity descriptor')
            self.seg(o, ilen, 'udf-lvid', 'integrity sequence')
            ident, _ = self.udf_tag(img, o, iloc, 'logical volume integrity descriptor', o)
            if ident != 9:
                self.fail('udf-tag-ident', 'integrity extent holds tag %d, expected 9' % ident, o)
            else:
                npart, l_iu = self.le32(o + 72), self.le32(o + 76)
                integ = {'sector': iloc, 'integrity_type': self.le32(o + 28), 'next_extent': (self.le32(o + 36), self.le32(o + 32)),
                         'unique_id': struct.unpack_from('<Q', img, o + 40)[0], 'num_partitions': npart, 'len_impl_use': l_iu}
                t = o + 80
                if npart <= 16 and t + 8 * npart + 46 <= o + SECTOR:
                    integ['free_space'] = list(struct.unpack_from('<%dI' % npart, img, t))
                    integ['size_table'] = list(struct.unpack_from('<%dI' % npart, img, t + 4 * npart))
                    t += 8 * npart
                    if l_iu >= 46:
                        integ['impl_id'] = img[t:t + 32]
                        (integ['num_files'], integ['num_dirs'], integ['min_udf_read'], integ['min_udf_write'],
                         integ['max_udf_write']) = struct.unpack_from('<IIHHH', img, t + 32)
                u['integrity'] = integ
            if ilen >= 2 * SECTOR and self.le16(o + SECTOR) == 8:
                self.udf_tag(img, o + SECTOR, iloc + 1, 'integrity sequence terminator', o + SECTOR)
        # file set descriptor
        flen, flbn, fref = lvd['fsd_location']
        resolve(fref, 'file set descriptor address')
        fo = self.part_off(flbn, 512, 'file set descriptor')
        ident, _ = self.udf_tag(img, fo, flbn, 'file set descriptor', fo)
        if ident != 256:
            self.fail('udf-tag-ident', 'file set descriptor has tag %d, expected 256' % ident, fo, fatal=True)
        self.seg(fo, SECTOR, 'udf-fsd', 'file set descriptor')
        fsd = {'sector': fo // SECTOR, 'lv_ident': _dstring(img[fo + 112:fo + 240]), 'fileset_ident': _dstring(img[fo + 304:fo + 336]),
               'root_icb': (self.le32(fo + 400), self.le32(fo + 404), self.le16(fo + 408)),
               'fileset_number': self.le32(fo + 40), 'fileset_desc_number': self.le32(fo + 44)}
        u['fsd'] = fsd
        if flbn + 1 < part['length'] and fo + SECTOR + 16 <= len(img) and self.le16(fo + SECTOR) == 8 \
                and (flen >= 2 * SECTOR or _tag_checksum_ok(img, fo + SECTOR)):
            self.udf_tag(img, fo + SECTOR, flbn + 1, 'file set terminator', fo + SECTOR)
            self.seg(fo + SECTOR, SECTOR, 'udf-fsd', 'file set terminator')
        resolve(fsd['root_icb'][2], 'root directory ICB')
        root = Node()
        root.name = ''
        root.is_dir = True
        self.read_udf_fe(root, fsd['root_icb'][1], set(), 0)
        u['root'] = root
        return u

    def part_off(self, lbn, nbytes, what):
        """Byte offset in the image of partition block lbn; the bytes must lie in the partition."""
        part = self.part
        blocks = max(1, (nbytes + SECTOR - 1) // SECTOR)
        if lbn + blocks > part['length']:
            self.fail('udf-outside-partition', '%s: blocks %d..%d are outside the partition of %d blocks'
                      % (what, lbn, lbn + blocks - 1, part['length']), None, fatal=True)
        off = (part['start'] + lbn) * SECTOR
        self.need(off, nbytes, what)
        return off

    def read_vds_udf(self, extent, which):
        """One volume descriptor sequence (ECMA-167 3/8.4); extent = (location, length)."""
        img = self.img
        loc, length = extent
        out = {'seq': []}
        if loc * SECTOR + length > len(img) or length < SECTOR:
            self.fail('udf-vds-incomplete', '%s volume descriptor sequence extent (%d, %d) is outside the image' % (which, loc, length),
                      None, fatal=True)
        self.seg(loc * SECTOR, length, 'udf-vds', which)
        seen = set()
        for i in range(length // SECTOR):
            s = loc + i
            o = s * SECTOR
            if self.le16(o) == 0 and not any(img[o:o + 16]):
                break
            ident, _ = self.udf_tag(img, o, s, '%s VDS descriptor at sector %d' % (which, s), o)
            seen.add(ident)
            out['seq'].append((ident, s, img[o + 16:o + 512]))
            if ident == 1:
                out['pvd'] = {'sector': s, 'vds_number': self.le32(o + 16), 'pvd_number': self.le32(o + 20),
                              'volume_id': _dstring(img[o + 24:o + 56]), 'volume_seqnum': self.le16(o + 56),
                              'interchange_level': self.le16(o + 60), 'volume_set_id': _dstring(img[o + 72:o + 200]),
                              'recording_date': img[o + 376:o + 388]}
            elif ident == 4:
                out['impl_use'] = {'sector': s, 'impl_id': img[o + 20:o + 52]}
            elif ident == 5:
                out['partition'] = {'sector': s, 'offset': o, 'flags': self.le16(o + 20), 'number': self.le16(o + 22),
                                    'contents': img[o + 24:o + 56], 'access_type': self.le32(o + 184),
                                    'start': self.le32(o + 188), 'length': self.le32(o + 192)}
            elif ident == 6:
                mt_len, n_maps = self.le32(o + 264), self.le32(o + 268)
                maps = []
                p = o + 440
                for _ in range(min(n_maps, 16)):
                    if p + 2 > o + SECTOR or img[p + 1] < 2 or p + img[p + 1] > o + 440 + mt_len:
                        break
                    m = {'type': img[p], 'length': img[p + 1]}
                    if img[p] == 1 and img[p + 1] == 6:
                        m['volume_seqnum'], m['partition'] = self.le16(p + 2), self.le16(p + 4)
                    maps.append(m)
                    p += img[p + 1]
                out['lvd'] = {'sector': s, 'offset': o, 'lv_ident': _dstring(img[o + 84:o + 212]), 'lbs': self.le32(o + 212),
                              'domain_id': img[o + 216:o + 248],
                              'fsd_location': (self.le32(o + 248), self.le32(o + 252), self.le16(o + 256)),
                              'map_table_length': mt_len, 'num_maps': n_maps, 'maps': maps,
                              'integrity_extent': (self.le32(o + 436), self.le32(o + 432))}
                if out['lvd']['lbs'] != SECTOR:
                    self.fail('lbs-unsupported', 'UDF logical block size %d' % out['lvd']['lbs'], o + 212, fatal=True)
            elif ident == 7:
                out['unallocated'] = {'sector': s, 'num_descs': self.le32(o + 20)}
            elif ident in (8, 3):
                break
        need = set([1, 4, 5, 6, 7, 8])
        if not need <= seen:
            self.fail('udf-vds-incomplete', '%s volume descriptor sequence lacks descriptor(s) %s' % (which, sorted(need - seen)),
                      loc * SECTOR)
        return out

    def read_ads(self, buf, pos, l_ad, ad_type, what, guard):
        """Allocation descriptors -> list of (partition block or None, byte length)."""
        out = []
        size = {0: 8, 1: 16}.get(ad_type)
        if size is None:
            self.fail('udf-ad-unsupported', '%s: allocation descriptor type %d is not supported' % (what, ad_type), None, fatal=True)
        end = pos + l_ad
        if end > len(buf):
            raise Malformed('truncated', '%s: allocation descriptors run past the descriptor' % what)
        while pos + size <= end:
            ln, lbn = struct.unpack_from('<II', buf, pos)
            pos += size
            etype, ln = ln >> 30, ln & 0x3fffffff
            if ln == 0:
                break
            if size == 16:
                self.udf_resolve(struct.unpack_from('<H', buf, pos - 8)[0], what)
            if etype == 3:
                # continuation: an Allocation Extent Descriptor (tag 258) holds further descriptors
                guard.append(lbn)
                if len(guard) > 64:
                    self.fail('udf-ad-unsupported', '%s: too many chained allocation extents' % what, None, fatal=True)
                o = self.part_off(lbn, 24, what + ' allocation extent')
                ident, _ = self.udf_tag(self.img, o, lbn, what + ' allocation extent', o)
                if ident != 258:
                    self.fail('udf-tag-ident', '%s: allocation extent has tag %d' % (what, ident), o, fatal=True)
                self.seg(o, SECTOR, 'udf-aed', what)
                n = self.le32(o + 20)
                out.extend(self.read_ads(self.img[o:o + SECTOR], 24, min(n, SECTOR - 24), ad_type, what, guard))
                break
            if etype == 0:
                self.part_off(lbn, ln, what + ' data')
                out.append((lbn, ln))
            else:
                out.append((None, ln))
        return out

    def read_udf_fe(self, node, lbn, visited, depth):
        """File Entry / Extended File Entry at partition block lbn describing node."""
        img = self.img
        what = 'udf:%s' % node.path()
        o = self.part_off(lbn, 176, what + ' file entry')
        sector = o // SECTOR
        fe = img[o:o + SECTOR]
        ident, _ = self.udf_tag(fe, 0, lbn, what + ' file entry', o)
        if ident not in (261, 266):
            self.fail('udf-tag-ident', '%s: ICB holds tag %d, expected a (extended) file entry' % (what, ident), o, fatal=True)
        self.seg(o, SECTOR, 'udf-fe', what)
        node.fe_sector = sector
        node.file_type = fe[16 + 11]
        icb_flags = struct.unpack_from('<H', fe, 16 + 18)[0]
        node.uid, node.gid, node.perms, node.link_count = struct.unpack_from('<IIIH', fe, 36)
        info_len = struct.unpack_from('<Q', fe, 56)[0]
        node.blocks_recorded = struct.unpack_from('<Q', fe, 64)[0]
        if ident == 261:
            node.unique_id, l_ea, l_ad = struct.unpack_from('<QII', fe, 160)
            pos = 176
        else:
            node.unique_id, l_ea, l_ad = struct.unpack_from('<QII', fe, 200)
            pos = 216
        pos += l_ea
        if pos + l_ad > SECTOR:
            self.fail('udf-info-length', '%s: extended attributes (%d) and allocation descriptors (%d) overflow the block'
                      % (what, l_ea, l_ad), o, fatal=True)
        ad_type = icb_flags & 7
        node.length = info_len
        if ad_type == 3:
            node.inline = fe[pos:pos + l_ad]
            node.extents = []
            total = l_ad
        else:
            exts = self.read_ads(fe, pos, l_ad, ad_type, what, [])
            node.extents = [(None if b is None else self.part['start'] + b, n) for (b, n) in exts]
            total = sum(n for (_, n) in exts)
        if total != info_len:
            self.fail('udf-info-length', '%s: information length %d, allocation descriptors cover %d' % (what, info_len, total), o + 56)
        is_dir = node.file_type == 4
        if node.parent is not None and is_dir != node.is_dir:
            self.fail('udf-fid-area', '%s: FID says %s, the file entry has file type %d'
                      % (what, 'directory' if node.is_dir else 'file', node.file_type), node.dr_offset)
        data_kind = 'udf-fid-area' if is_dir else 'file-data'
        for (s, n) in node.extents:
            if s is not None:
                self.seg(s * SECTOR, n, data_kind, what)
        if node.file_type in (4, 12) and (info_len > _MAX_UDF_DIR or any(s is None for (s, _) in node.extents)):
            self.fail('udf-ad-unsupported', '%s: directory / symlink data of %d bytes (sparse or larger than %d) is not decoded'
                      % (what, info_len, _MAX_UDF_DIR), o, fatal=True)
        if node.file_type == 12:
            node.symlink = self.udf_symlink(_file_bytes(img, node), what)
        if not is_dir:
            return
        node.is_dir = True
        if sector in visited:
            self.fail('dir-cycle', '%s: directory file entry at sector %d reached twice' % (what, sector), o)
            return
        if depth > _MAX_DEPTH:
            self.fail('dir-too-deep', '%s: nesting deeper than %d' % (what, _MAX_DEPTH), o)
            return
        visited.add(sector)
        # directory data: File Identifier Descriptors packed back to back
        data = _file_bytes(img, node)[:info_len]

        def where(p):
            """(absolute byte offset, partition block) of byte p of the directory data."""
            if node.inline is not None:
                return o + pos + p, lbn
            for (s, n) in node.extents:
                if p < n:
                    return (s * SECTOR + p if s is not None else None), (None if s is None else s - self.part['start'] + p // SECTOR)
                p -= n
            return None, None
        p = 0
        first = True
        while p < len(data):
            if p + 38 > len(data):
                self.fail('udf-fid-area', '%s: %d stray bytes after the last FID' % (what, len(data) - p), where(p)[0])
                break
            absoff, blk = where(p)
            chars, l_fi = data[p + 18], data[p + 19]
            _icb_len, icb_lbn, icb_ref = struct.unpack_from('<IIH', data, p + 20)
            l_iu = struct.unpack_from('<H', data, p + 36)[0]
            flen = (38 + l_iu + l_fi + 3) & ~3
            if struct.unpack_from('<H', data, p)[0] == 257 and p + flen > len(data):
                self.fail('udf-fid-area', '%s: FID at %d (length %d) overruns the directory data of %d bytes'
                          % (what, p, flen, len(data)), absoff)
                break
            ident, _ = self.udf_tag(data, p, blk, '%s FID at %d' % (what, p), absoff)
            if ident != 257:
                self.fail('udf-fid-area', '%s: descriptor at %d of the directory data has tag %d, expected 257' % (what, p, ident), absoff)
                break
            if first and not chars & 8:
                self.fail('udf-fid-parent', '%s: the first FID is not the parent entry' % what, absoff)
            first = False
            if not chars & 8 and not chars & 4:
                c = Node()
                c.name = _cs0(data[p + 38 + l_iu:p + 38 + l_iu + l_fi])
                c.flags = chars
                c.hidden = bool(chars & 1)
                c.is_dir = bool(chars & 2)
                c.dr_offset, c.dr_len = absoff, flen
                c.parent = node
                c.file_version = struct.unpack_from('<H', data, p + 16)[0]
                node.children.append(c)
                self.udf_resolve(icb_ref, '%s ICB' % c.path())
                self.read_udf_fe(c, icb_lbn, visited, depth + 1)
            elif chars & 8:
                node.parent_icb = icb_lbn
            p += flen

    def udf_symlink(self, data, what):
        """ECMA-167 4/14.16 path components -> target string."""
        parts = []
        p = 0
        while p + 4 <= len(data):
            ctype, l_ci = data[p], data[p + 1]
            if p + 4 + l_ci > len(data):
                self.fail('udf-info-length', '%s: symlink path component overruns the data' % what)
                break
            if ctype in (1, 2):
                parts = ['']
            elif ctype == 3:
                parts.append('..')
            elif ctype == 4:
                parts.append('.')
            elif ctype == 5:
                parts.append(_cs0(data[p + 4:p + 4 + l_ci]))
            p += 4 + l_ci
        if parts == ['']:
            return '/'
        return '/'.join(parts)

    # -- driver -------------------------------------------------------------------------------
    def phase(self, fn, *args):
        """Run one optional decoding phase; with check=False a fatal error only loses that phase."""
        try:
            return fn(*args)
        except Malformed as m:
            if self.check:
                raise
            self.im.problems.append(m)
            return None

    def run(self):
        im, img = self.im, self.img
        self.read_vds()
        self.seg(0, 16 * SECTOR, 'system-area', 'system area', volume=False)
        pvd = im.pvd
        im.lbs = pvd['lbs']
        im.xa = img[pvd['sector'] * SECTOR + 1024:pvd['sector'] * SECTOR + 1032] == b'CD-XA001'
        im.iso_root = self.read_tree('iso', pvd)
        self.phase(self.check_path_tables, 'pvd', pvd, im.iso_root)
        if im.susp and (im.rr_version is not None or (im.iso_root.dot is not None and im.iso_root.dot.rr is not None
                                                      and im.iso_root.dot.rr.px_len is not None)):
            im.rr_root = self.phase(self.build_rr_tree, im.iso_root)
        elif not im.susp:
            im.rr_version = None
        if im.svds:
            jvd = im.svds[0]
            im.joliet_root = self.phase(self.read_tree, 'joliet', jvd)
            if im.joliet_root is not None:
                self.phase(self.check_path_tables, 'joliet', jvd, im.joliet_root)
        if im.enhanced is not None:
            keep = im.rr_version
            im.enhanced_root = self.phase(self.read_tree, 'enhanced', im.enhanced)
            im.rr_version = keep
            if im.enhanced_root is not None:
                self.phase(self.check_path_tables, 'enhanced', im.enhanced, im.enhanced_root)
        self.phase(self.check_ce_overlap)
        self.vol_limit = min(pvd['space_size'] * SECTOR, len(img))
        im.eltorito = self.phase(self.read_eltorito)
        im.hybrid = self.phase(self.read_hybrid)
        im.udf = self.phase(self.read_udf)
        self.finish_segments()
        seen = set()
        uniq = []
        for m in im.problems:
            if (m.rule, m.detail, m.offset) not in seen:
                seen.add((m.rule, m.detail, m.offset))
                uniq.append(m)
        im.problems = uniq
        return im

    def finish_segments(self):
        im = self.im
        et = im.eltorito
        starts = {}
        for (o, ln, kind) in self.segs:
            starts.setdefault(o, []).append((ln, kind))
        if et is not None:
            # the boot catalog is normally also a file of the hierarchy: same object, other kind
            base = et['catalog_sector'] * SECTOR
            hit = [k for k in self.segs if k[0] == base and k[2] == 'file-data']
            if hit:
                for k in hit:
                    self.segs.setdefault((k[0], k[1], 'boot-catalog'), []).extend(self.segs.pop(k))
            else:
                self.seg(base, max(SECTOR, (et['length'] + SECTOR - 1) // SECTOR * SECTOR), 'boot-catalog', 'boot catalog')
            entries = [et['initial']] + [e for s in et['sections'] for e in s['entries']]
            for e in entries:
                o = e['load_rba'] * SECTOR
                if o not in starts and e['sector_count']:
                    self.seg(o, e['sector_count'] * 512, 'boot-image', 'load_rba %d' % e['load_rba'], volume=False)
        # pycdlib-style "version" block: the otherwise unclaimed sector after the descriptor set
        vb = self.after_vds * SECTOR
        if vb + SECTOR <= len(self.img) and not any(o < vb + SECTOR and o + max(ln, 1) > vb for (o, ln, k) in self.segs):
            self.seg(vb, SECTOR, 'version-block', 'sector %d' % self.after_vds, volume=False)
        # bytes after the volume space (isohybrid padding), up to the backup GPT if there is one
        end = im.pvd['space_size'] * SECTOR
        tail = [o for (o, ln, k) in self.segs if k.startswith('gpt-backup')]
        stop = min(tail) if tail else len(self.img)
        if end < stop:
            self.seg(end, stop - end, 'pad', 'after volume space', volume=False)
        im.segments = sorted((o, ln, kind, tuple(keys)) for (o, ln, kind), keys in self.segs.items())


def _tag_checksum_ok(img, off):
    return (sum(img[off:off + 16]) - img[off + 4]) & 0xff == img[off + 4]


def _file_bytes(img, node):
    if getattr(node, 'inline', None) is not None:
        return bytes(node.inline)
    out = []
    for (s, n) in node.extents:
        if s is None:
            out.append(b'\x00' * n)
            continue
        if s * SECTOR + n > len(img):
            raise Malformed('truncated', 'extent (%d, %d) is outside the image' % (s, n), s * SECTOR)
        out.append(img[s * SECTOR:s * SECTOR + n])
    return b''.join(out)


# ---------------------------------------------------------------------------------------------
# public functions

def read_image(img, check=True):
    """Decode the whole image from raw bytes only.  With check=True raise Malformed at the first
    violated rule; with check=False collect violations in Image.problems and decode as much as
    possible (Malformed is still raised when decoding cannot continue)."""
    img = bytes(img)
    try:
        return _Reader(img, check).run()
    except Malformed:
        raise
    except (IndexError, struct.error, ValueError, KeyError, TypeError, AttributeError, OverflowError,
            RecursionError, MemoryError, UnicodeError, ZeroDivisionError) as e:
        raise Malformed('truncated', 'decoding failed: %s: %s' % (type(e).__name__, e))


def read_file(img, node):
    """Concatenated data of a file Node (ISO / Joliet / UDF node or rr_root node)."""
    return _file_bytes(img, node)


def overlaps(image):
    """Pairs of segments that overlap in bytes and are not the same object."""
    def span(s):
        o, ln = s[0], s[1]
        if s[2] in _SUBSECTOR_KINDS:
            return o, o + ln
        return o, o + (ln + SECTOR - 1) // SECTOR * SECTOR
    segs = sorted((s for s in image.segments if s[1] > 0), key=lambda s: (s[0], s[1]))
    out = []
    active = []
    for s in segs:
        o, e = span(s)
        active = [(a, ae) for (a, ae) in active if ae > o]
        for (a, ae) in active:
            if (a[0], a[1], a[2]) != (s[0], s[1], s[2]):
                out.append((a, s))
        active.append((s, e))
    return out


def check_rr_nlink(image):
    """Rock Ridge link counts: for every directory of the LOGICAL tree, st_nlink on its entry in
    the parent, on its '.' and on each child directory's '..' must be 2 + number of
    subdirectories.  Returns a list of Malformed('rr-nlink', ...)."""
    out = []
    if image.rr_root is None:
        return out

    def nl(node):
        return node.rr.nlink if node is not None and node.rr is not None else None

    def bad(what, d, node, got, want):
        out.append(Malformed('rr-nlink', '%s of %s has st_nlink %r, expected %d' % (what, d.iso.path(), got, want),
                             node.dr_offset if node is not None else None))

    stack = [image.rr_root]
    while stack:
        d = stack.pop()
        subs = [c for c in d.children if c.is_dir]
        want = 2 + len(subs)
        if d.parent is not None and d.nlink != want:
            bad('entry', d, d.entry, d.nlink, want)
        if nl(d.iso.dot) != want:
            bad("'.'", d, d.iso.dot, nl(d.iso.dot), want)
        if d.parent is None and nl(d.iso.dotdot) != want:
            bad("'..'", d, d.iso.dotdot, nl(d.iso.dotdot), want)
        for c in subs:
            if nl(c.iso.dotdot) != want:
                bad("'..' of child %r" % (c.name,), d, c.iso.dotdot, nl(c.iso.dotdot), want)
        stack.extend(subs)
    return out
