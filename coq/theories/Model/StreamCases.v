(* Evaluation support for the C16 correspondence check: the harness emits a list of cases
   (placements of files in the backing store, an operation script, and the values the
   implementation returned in compact form); [bad_cases] returns the indices on which the
   model (fixed = true) disagrees. *)
From Coq Require Import ZArith List Bool.
From PV.Base Require Import Prim.
From PV.Model Require Import Stream.
Import ListNotations.
Local Open Scope Z_scope.

(* content of file j: byte i is (j*37 + i*7 + i/251) mod 256 -- same formula in harness/props/c16.py *)
Definition pat (j len : Z) : list Z :=
  map (fun i => (j * 37 + i * 7 + i / 251) mod 256) (zrange 0 len 1).

Fixpoint build (cur : Z) (pl : list (Z * Z * Z)) (total : Z) : list Z :=
  match pl with
  | [] => repeat 0 (Z.to_nat (total - cur))
  | (st, j, len) :: r => repeat 0 (Z.to_nat (st - cur)) ++ pat j len ++ build (st + len) r total
  end.

Inductive xout :=
| XB (j a n : Z)     (* the bytes content_j[a, a+n) *)
| XI (n : Z) | XR | XU.

Fixpoint list_eqb (a b : list Z) : bool :=
  match a, b with
  | [], [] => true
  | x :: a', y :: b' => (x =? y) && list_eqb a' b'
  | _, _ => false
  end.

Definition out_matches (lens : list (list Z)) (o : out) (x : xout) : bool :=
  match o, x with
  | OBytes d, XB j a n => list_eqb d (slice a (a + n) (nth (Z.to_nat j) lens []))
  | OInt a, XI b => a =? b
  | ORefused, XR => true
  | OUnit, XU => true
  | _, _ => false
  end.

Fixpoint all_match (lens : list (list Z)) (os : list out) (xs : list xout) : bool :=
  match os, xs with
  | [], [] => true
  | o :: os', x :: xs' => out_matches lens o x && all_match lens os' xs'
  | _, _ => false
  end.

Record scase := { c_data : nat; c_ops : list sop; c_expect : list xout }.

Definition case_ok (datas : list (list Z)) (lens : list (list Z)) (c : scase) : bool :=
  let data := nth (c_data c) datas [] in
  all_match lens (run true {| w_data := data; w_pos := 0; w_streams := [] |} (c_ops c)) (c_expect c).

Fixpoint bad_cases_from (k : nat) (datas : list (list Z)) (lens : list (list Z)) (cs : list scase) : list nat :=
  match cs with
  | [] => []
  | c :: r => (if case_ok datas lens c then [] else [k]) ++ bad_cases_from (S k) datas lens r
  end.
Definition bad_cases := bad_cases_from 0.
