(* RockRidge.new / RockRidge._assign_entries of /repo/pycdlib/rockridge.py: which System Use entries a new
   directory record gets and WHERE each is placed -- in the record's own System Use area (dr_entries) or in
   the continuation area (ce_entries) -- under the budget ALLOWED_DR_SIZE (254) - curr_dr_len.
   Built on Model/RREntries.v (entry codecs, static lengths), Model/RRWalk.v (rr_entries, entries_list =
   RockRidge._record, record_entries) and Model/LongNames.v (nm_split = the pieces of _add_name,
   sl_tokens = the trace of the for/while loops of _new_symlink).  Definitions only; proofs are in
   Proofs/RRPlaceSLProofs.v (the two splitting stages), Proofs/RRPlaceProofs.v, Proofs/RRPlaceProofs2.v (the
   theorems) and Proofs/RRPlaceCases.v (witnesses of the refuted statements, examples against the real library).

     the repeated block `if curr_dr_len + thislen > ALLOWED_DR_SIZE: if ce_record is None: return -1;
        ce_record.add_record(thislen); ce_entries.x = new  else: curr_dr_len += thislen; dr_entries.x = new`
                                               -> put / put_if       state = (curr_dr_len, len_cont_area)
                                                  (PX and TF, which are always created, are put_if true)
     RockRidge._add_name                       -> nm_stage
     RockRidge._new_symlink                    -> sl_group (tokens -> in-memory RRSLRecords) / sl_stage
     RockRidge._assign_entries                 -> assign  (order: SP RR NM PX SL TF CL RE PL ER)
     RockRidge.new                             -> place   (first pass without CE, retry with a CE entry)
     DirectoryRecord._rr_new (the guard, bytes_to_skip) -> rr_new_args

   How the mutation is rendered.  Every entry kind is created at most once per pass, so instead of a
   sequence of assignments to dr_entries / ce_entries the model remembers for each kind where it went
   (record wheres; option bool: None = not created, Some true = dr_entries, Some false = ce_entries) and builds
   the two RockRidgeEntries objects at the end (side_entries / pick).  On a -1 return `new` throws both objects away, so partial
   states never escape.  rr_record.append_field(..) mutates the shared RR object after it was placed and has
   no influence on placement: the final flag byte (rr_flags_of) is computed when the entry is created.
   The symlink code is the one AFTER the repair "Rock Ridge symlink components are accounted and recorded by
   their real length" (literal name slices, recorded_length(), complen = length + 2).
   curr_sl.add_component raising 'Symlink would be longer than 255' is checked on the finished records
   (current_length only grows, so some call raises iff a finished record is longer than 255); it never
   fires (RRPlaceSLProofs.sl_guard).  ce_record.add_record on a missing CE entry (first pass) is
   skipped exactly where the code tests `ce_record is not None`.

   Not modelled: `attributes` (always {} in pycdlib's own calls: no AL entries), the `_initialized` flags,
   `_full_name`; date_seconds is replaced by the three 7-byte DirectoryRecordDate.record() strings of the TF
   entry (access, modification, attribute change), which the model requires to be 7 bytes long.
   A symlink_path / rr_name of None and b'' are both falsy: [] stands for both.

   TUPLE FORMAT of the checker (place_tuple):
     (vcode 109|110|112, is_first_dir_record_of_root, rr_name, file_mode, symlink_path ([] = None or b''),
      (rr_relocated_child, rr_relocated, rr_relocated_parent), bytes_to_skip, curr_dr_len,
      [access; modification; attr_change] each = list(tf_record.<x>_time.record()))
     check_place_case args expected_dr expected_ce : expected_dr = list(rr.record_dr_entries()),
       expected_ce = list(rr.record_ce_entries());  expected_dr = [] stands for "rr.new raised".
     check_place_ret args ret : ret = the value rr.new returned, -1 when it raised.
     bad_place_cases k cases : indices (from k) of the failing (args, expected_dr, expected_ce, ret). *)
From Coq Require Import ZArith List Bool.
From PV.Base Require Import Prim.
From PV.Model Require Import Codec RREntries RRWalk.
From PV.Model Require LongNames.
Import ListNotations.
Local Open Scope Z_scope.

Definition ALLOWED_DR_SIZE : Z := 254.
Definition TF_FLAGS : Z := 14.
Definition EXT_DES_109 : list Z :=
  [84; 72; 69; 32; 82; 79; 67; 75; 32; 82; 73; 68; 71; 69; 32; 73; 78; 84; 69; 82; 67; 72; 65; 78; 71; 69; 32; 80;
   82; 79; 84; 79; 67; 79; 76; 32; 80; 82; 79; 86; 73; 68; 69; 83; 32; 83; 85; 80; 80; 79; 82; 84; 32; 70; 79; 82;
   32; 80; 79; 83; 73; 88; 32; 70; 73; 76; 69; 32; 83; 89; 83; 84; 69; 77; 32; 83; 69; 77; 65; 78; 84; 73; 67; 83].
Definition EXT_SRC_109 : list Z :=
  [80; 76; 69; 65; 83; 69; 32; 67; 79; 78; 84; 65; 67; 84; 32; 68; 73; 83; 67; 32; 80; 85; 66; 76; 73; 83; 72; 69;
   82; 32; 70; 79; 82; 32; 83; 80; 69; 67; 73; 70; 73; 67; 65; 84; 73; 79; 78; 32; 83; 79; 85; 82; 67; 69; 46; 32;
   32; 83; 69; 69; 32; 80; 85; 66; 76; 73; 83; 72; 69; 82; 32; 73; 68; 69; 78; 84; 73; 70; 73; 69; 82; 32; 73; 78;
   32; 80; 82; 73; 77; 65; 82; 89; 32; 86; 79; 76; 85; 77; 69; 32; 68; 69; 83; 67; 82; 73; 80; 84; 79; 82; 32; 70;
   79; 82; 32; 67; 79; 78; 84; 65; 67; 84; 32; 73; 78; 70; 79; 82; 77; 65; 84; 73; 79; 78; 46].
Definition EXT_DES_112 : list Z :=
  [84; 72; 69; 32; 73; 69; 69; 69; 32; 80; 49; 50; 56; 50; 32; 80; 82; 79; 84; 79; 67; 79; 76; 32; 80; 82; 79; 86;
   73; 68; 69; 83; 32; 83; 85; 80; 80; 79; 82; 84; 32; 70; 79; 82; 32; 80; 79; 83; 73; 88; 32; 70; 73; 76; 69; 32;
   83; 89; 83; 84; 69; 77; 32; 83; 69; 77; 65; 78; 84; 73; 67; 83].
Definition EXT_SRC_112 : list Z :=
  [80; 76; 69; 65; 83; 69; 32; 67; 79; 78; 84; 65; 67; 84; 32; 84; 72; 69; 32; 73; 69; 69; 69; 32; 83; 84; 65; 78;
   68; 65; 82; 68; 83; 32; 68; 69; 80; 65; 82; 84; 77; 69; 78; 84; 44; 32; 80; 73; 83; 67; 65; 84; 65; 87; 65; 89;
   44; 32; 78; 74; 44; 32; 85; 83; 65; 32; 70; 79; 82; 32; 84; 72; 69; 32; 80; 49; 50; 56; 50; 32; 83; 80; 69; 67;
   73; 70; 73; 67; 65; 84; 73; 79; 78].
(* new_er.new(...) : ext_ver = 1 *)
Definition er_of (v : rrv) : er_rec :=
  match v with
  | V112 => mk_er EXT_ID_112 EXT_DES_112 EXT_SRC_112 1
  | _ => mk_er EXT_ID_109 EXT_DES_109 EXT_SRC_109 1
  end.
Definition is_v109 (v : rrv) : bool := match v with V109 => true | _ => false end.

(* ---- inputs / outputs ----------------------------------------------------------------------- *)
Record place_in := mk_pin {
  p_v : rrv; p_first : bool; p_name : list Z; p_mode : Z; p_target : option (list Z);
  p_child : bool; p_reloc : bool; p_parent : bool; p_skip : Z; p_dr_len : Z;
  p_dates : list (list Z) }.
(* pl_len = curr_dr_len returned by _assign_entries ; pl_celen = len_cont_area (0 without a CE entry) *)
Record placed := mk_placed { pl_dr : rr_entries; pl_ce : rr_entries; pl_len : Z; pl_celen : Z }.

Definition nonempty {A} (l : list A) : bool := match l with [] => false | _ => true end.
(* `if symlink_path:` *)
Definition target_of (i : place_in) : list Z := match p_target i with Some t => t | None => [] end.

(* ---- the placement block --------------------------------------------------------------------- *)
Definition pstate : Type := (Z * Z)%type.               (* (curr_dr_len, len_cont_area) *)
Definition put (has_ce : bool) (thislen : Z) (s : pstate) : option (bool * pstate) :=
  let '(cur, cel) := s in
  if ALLOWED_DR_SIZE <? cur + thislen
  then (if has_ce then Some (false, (cur, cel + thislen)) else None)
  else Some (true, (cur + thislen, cel)).
(* `if flag:` around the block *)
Definition put_if (flag has_ce : bool) (thislen : Z) (s : pstate) : option (option bool * pstate) :=
  if flag then match put has_ce thislen s with Some (w, s') => Some (Some w, s') | None => None end
  else Some (None, s).
(* the object ends up in the entries object of side [side] (true = dr_entries) *)
Definition pick {A} (w : option bool) (side : bool) (x : A) : option A :=
  match w with Some b => if Bool.eqb b side then Some x else None | None => None end.

Fixpoint sumz (l : list Z) : Z := match l with [] => 0 | x :: r => x + sumz r end.

(* ---- _add_name ------------------------------------------------------------------------------- *)
Definition nm_of (fp : Z * list Z) : nm_rec := mk_nm (fst fp) (snd fp).
Definition nm_lens (l : list nm_rec) : Z := sumz (map (fun n => len_nm (nm_name n)) l).
(* result: (dr_entries.nm_records, ce_entries.nm_records) and the new state *)
Definition nm_stage (has_ce : bool) (name : list Z) (s : pstate)
  : option ((list nm_rec * list nm_rec) * pstate) :=
  let '(cur, cel) := s in
  let len0 := ALLOWED_DR_SIZE - cur - 5 in
  if (len0 <? zlen name) && negb has_ce then None else
  let len_here := if len0 <? zlen name then Z.max len0 0 else len0 in
  let ps := map nm_of (LongNames.nm_split len_here name) in
  let k := if 0 <? len_here then 1%nat else 0%nat in       (* `if len_here > 0:` one NM in the record *)
  let drp := firstn k ps in
  let cep := skipn k ps in                                  (* the `while offset < len(rr_name)` loop *)
  Some ((drp, cep), (cur + nm_lens drp, cel + nm_lens cep)).

(* ---- _new_symlink ---------------------------------------------------------------------------- *)
(* the in-memory Component add_component(compslice, not special) / set_last_component_continued leave for a
   token: '/', '.', '..' as whole pieces go through factory(comp), a (slice of a) name is added literally *)
Definition comp_of_tok (t : LongNames.tok) : option comp :=
  match t with
  | LongNames.TBrk => None
  | LongNames.TSpecial c => Some (sl_factory (LongNames.comp_text c))
  | LongNames.TName b s => Some (if b then comp_set_continued (sl_factory_lit s) else sl_factory_lit s)
  end.
Definition sl_emit (c : comp) (k : list sl_rec) : list sl_rec :=
  match k with
  | s :: rs => mk_sl (sl_flags s) (c :: sl_comps s) :: rs
  | [] => [mk_sl 0 [c]]
  end.
(* TBrk = curr_sl.set_continued() (flags 0 | 1) and a fresh RRSLRecord *)
Fixpoint sl_group (ts : list LongNames.tok) : list sl_rec :=
  match ts with
  | [] => [mk_sl 0 []]
  | t :: r => match comp_of_tok t with
              | None => mk_sl 1 [] :: sl_group r
              | Some c => sl_emit c (sl_group r)
              end
  end.
Definition sl_lens (l : list sl_rec) : Z := sumz (map sl_current_length l).
(* the same bookkeeping as the code does it, per add_component / per new record (sl_rec_header_len = 5,
   complen = minimum = 2 for '/', '.', '..' and length + 2 for a slice); equal to sl_lens of the grouped records
   (RRPlaceSLProofs.sl_track_lens) *)
Definition tok_len (t : LongNames.tok) : Z :=
  match t with
  | LongNames.TBrk => 5
  | LongNames.TSpecial c => sl_comp_length (LongNames.comp_text c)
  | LongNames.TName _ s => 2 + zlen s
  end.
Definition sl_track (ts : list LongNames.tok) : Z := 5 + sumz (map tok_len ts).

Definition sl_stage (has_ce : bool) (t : list Z) (s : pstate)
  : option ((list sl_rec * list sl_rec) * pstate) :=
  let '(cur, cel) := s in
  if (ALLOWED_DR_SIZE <? cur + len_sl (LongNames.split_slash t)) && negb has_ce then None else
  let in_dr := cur + len_sl [[97]] <? ALLOWED_DR_SIZE in                 (* RRSLRecord.length([b'a']) = 8 *)
  let r1 := if in_dr then ALLOWED_DR_SIZE - cur - 5 else 250 in
  let recs := sl_group (LongNames.sl_tokens 250 r1 (LongNames.sl_components t)) in
  if negb (forallb (fun r => sl_current_length r <=? 255) recs) then None else
  let k := if in_dr then 1%nat else 0%nat in
  let drp := firstn k recs in
  let cep := skipn k recs in
  Some ((drp, cep), (cur + sl_lens drp, if has_ce then cel + sl_lens cep else cel)).

(* ---- _assign_entries ------------------------------------------------------------------------- *)
(* the RR flag byte after all append_field calls: NM 3, PX 0, SL 2, TF 7, CL 4, RE 6, PL 5 *)
Definition mark (b : bool) (bitno fl : Z) : Z := if b then rr_append_field fl bitno else fl.
Definition rr_flags_of (i : place_in) : Z :=
  mark (p_parent i) 5 (mark (p_reloc i) 6 (mark (p_child i) 4 (mark true 7
    (mark (nonempty (target_of i)) 2 (mark true 0 (mark (nonempty (p_name i)) 3 0)))))).
Definition tf_of (i : place_in) : tf_rec :=
  mk_tf TF_FLAGS ([None] ++ map Some (p_dates i) ++ [None; None; None]).
Definition px_of (i : place_in) : px_rec := mk_px (p_mode i) 1 0 0 0.
Definition pickb (w : option bool) (side : bool) : bool := is_some (pick w side tt).

(* where each singleton kind went (None = not created) *)
Record wheres := mk_wh { w_sp : option bool; w_rr : option bool; w_px : option bool; w_tf : option bool;
                         w_cl : option bool; w_re : option bool; w_pl : option bool; w_er : option bool }.
(* the RockRidgeEntries object of side d (true = dr_entries) *)
Definition side_entries (i : place_in) (ws : wheres) (d : bool) (nm : list nm_rec) (sl : list sl_rec)
                        (ce : option ce_rec) : rr_entries :=
  mk_entries (pick (w_sp ws) d (p_skip i)) (pick (w_rr ws) d (rr_flags_of i)) ce (pick (w_px ws) d (px_of i))
             (pick (w_er ws) d (er_of (p_v i))) [] None sl nm (pick (w_cl ws) d 0) (pick (w_pl ws) d 0)
             (pick (w_tf ws) d (tf_of i)) None (pickb (w_re ws) d) false [] [].
Definition er_len (v : rrv) : Z := len_er (er_id (er_of v)) (er_des (er_of v)) (er_src (er_of v)).

Definition assign (i : place_in) (has_ce : bool) (cur0 : Z) : option placed :=
  let v := p_v i in
  match put_if (p_first i) has_ce len_sp (cur0, 0) with None => None | Some (wsp, s1) =>
  match put_if (is_v109 v) has_ce len_rr s1 with None => None | Some (wrr, s2) =>
  match (if nonempty (p_name i) then nm_stage has_ce (p_name i) s2 else Some (([], []), s2)) with
  | None => None | Some ((nm_d, nm_c), s3) =>
  match len_px v with None => None | Some lpx =>
  match put_if true has_ce lpx s3 with None => None | Some (wpx, s4) =>
  match (if nonempty (target_of i) then sl_stage has_ce (target_of i) s4 else Some (([], []), s4)) with
  | None => None | Some ((sl_d, sl_c), s5) =>
  match put_if true has_ce (len_tf TF_FLAGS) s5 with None => None | Some (wtf, s6) =>
  match put_if (p_child i) has_ce len_link s6 with None => None | Some (wcl, s7) =>
  match put_if (p_reloc i) has_ce len_re s7 with None => None | Some (wre, s8) =>
  match put_if (p_parent i) has_ce len_link s8 with None => None | Some (wpl, s9) =>
  match put_if (p_first i) has_ce (er_len v) s9 with None => None | Some (wer, s10) =>
  let ws := mk_wh wsp wrr wpx wtf wcl wre wpl wer in
  Some (mk_placed (side_entries i ws true nm_d sl_d (if has_ce then Some (mk_ce 0 0 (snd s10)) else None))
                  (side_entries i ws false nm_c sl_c None) (fst s10) (snd s10))
  end end end end end end end end end end end.

(* ---- RockRidge.new --------------------------------------------------------------------------- *)
Definition dates_ok (i : place_in) : bool :=
  (length (p_dates i) =? 3)%nat && forallb (fun d => zlen d =? 7) (p_dates i).
(* `if new_dr_len > ALLOWED_DR_SIZE: raise` *)
Definition finish (r : placed) : option placed := if ALLOWED_DR_SIZE <? pl_len r then None else Some r.
Definition place (i : place_in) : option placed :=
  match p_v i with V_unset => None | _ =>
  if negb (dates_ok i) then None else
  match assign i false (p_dr_len i) with
  | Some r => finish r
  | None => match assign i true (p_dr_len i + len_ce) with
            | Some r => finish r
            | None => None
            end
  end end.
(* the value `new` returns: new_dr_len += new_dr_len % 2 *)
Definition new_dr_len_of (r : placed) : Z := pl_len r + pl_len r mod 2.

(* DirectoryRecord._rr_new: the guard on the plain record and bytes_to_skip = XARecord.length() = 14 with XA;
   [dr_len] = Codec.new_dr_len len_fi (0 | 14) *)
Definition rr_new_args (dr_len : Z) (xa : bool) : option (Z * Z) :=
  if ALLOWED_DR_SIZE <? dr_len + len_ce then None else Some ((if xa then 14 else 0), dr_len).

(* what an RRIP reader walks: the record's own area, then the continuation area when a CE entry points to it *)
Definition visible (r : placed) : list su_entry :=
  entries_list (pl_dr r) ++ (if is_some (ce_record (pl_dr r)) then entries_list (pl_ce r) else []).
Definition sl_of (es : list su_entry) : list sl_rec :=
  flat_map (fun e => match e with E_SL s => [s] | _ => [] end) es.
Definition nm_list (es : list su_entry) : list nm_rec :=
  flat_map (fun e => match e with E_NM n => [n] | _ => [] end) es.
(* the on-disk reading of an SL entry as a LongNames record: (CONTINUE flag, components by flag byte) *)
Definition sl_view (s : sl_rec) : bool * list LongNames.comp :=
  (Z.odd (sl_flags s), map (fun c => LongNames.pair_comp (c_flags c, c_data c)) (sl_comps s)).
(* the symlink target and the name an RRIP reader (LongNames.sl_reassemble / nm_join) gets *)
Definition read_target (r : placed) : list Z := LongNames.sl_reassemble (map sl_view (sl_of (visible r))).
Definition read_name (r : placed) : list Z :=
  LongNames.nm_join (map (fun n => (nm_flags n, nm_name n)) (nm_list (visible r))).
(* the first-pass condition in closed form *)
Definition opt_len (b : bool) (l : Z) : Z := if b then l else 0.
Definition px_len (v : rrv) : Z := match len_px v with Some l => l | None => 0 end.
Definition before_sl (i : place_in) : Z :=
  p_dr_len i + opt_len (p_first i) len_sp + opt_len (is_v109 (p_v i)) len_rr
  + opt_len (nonempty (p_name i)) (len_nm (p_name i)) + px_len (p_v i).
Definition after_sl (i : place_in) : Z :=
  len_tf TF_FLAGS + opt_len (p_child i) len_link + opt_len (p_reloc i) len_re
  + opt_len (p_parent i) len_link + opt_len (p_first i) (er_len (p_v i)).
(* everything fits: the static lengths of all entries, the SL entry uncut (RRSLRecord.length(split)) *)
Definition sl_uncut (i : place_in) : Z :=
  opt_len (nonempty (target_of i)) (len_sl (LongNames.split_slash (target_of i))).
Definition first_fit (i : place_in) : bool :=
  before_sl i + sl_uncut i + after_sl i <=? ALLOWED_DR_SIZE.

(* ---- checker for the external harness -------------------------------------------------------- *)
Definition place_tuple : Type :=
  (Z * bool * list Z * Z * list Z * (bool * bool * bool) * Z * Z * list (list Z))%type.
Definition pin_of_tuple (t : place_tuple) : place_in :=
  let '(c, first, name, mode, target, (child, reloc, parent), skip, drlen, dates) := t in
  mk_pin (vcode c) first name mode (match target with [] => None | _ => Some target end)
         child reloc parent skip drlen dates.
Definition record_place (t : place_tuple) : option (list Z * list Z) :=
  match place (pin_of_tuple t) with
  | Some r => match record_entries (p_v (pin_of_tuple t)) (pl_dr r),
                    record_entries (p_v (pin_of_tuple t)) (pl_ce r) with
              | Some a, Some b => Some (a, b)
              | _, _ => None
              end
  | None => None
  end.
Definition check_place_case (t : place_tuple) (expected_dr expected_ce : list Z) : bool :=
  match record_place t with
  | Some (a, b) => nonempty expected_dr && zlist_eqb a expected_dr && zlist_eqb b expected_ce
  | None => negb (nonempty expected_dr)
  end.
Definition check_place_ret (t : place_tuple) (ret : Z) : bool :=
  match place (pin_of_tuple t) with
  | Some r => new_dr_len_of r =? ret
  | None => ret =? -1
  end.
Definition bad_place_cases (k : nat) (cs : list (place_tuple * list Z * list Z * Z)) : list nat :=
  bad_cases (fun c => let '(t, d, e, ret) := c in check_place_case t d e && check_place_ret t ret) k cs.
