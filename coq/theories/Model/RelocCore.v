(* Model/RelocCore.v -- Rock Ridge deep-directory RELOCATION (RR_MOVED, CL / PL / RE) as a state
   machine over edit histories, and the plain logical specification of the same edits.  The
   written image and the independent SUSP/RRIP reader are in Model/RelocView.v, the trace checker
   in Model/Reloc.v.  Executable definitions only; proofs in Proofs/Reloc*.v.
   Models /repo at 42db27e (after the fixes 6984eda, cd1f033, 3cc255b, 42db27e, 4a3ef6f found with it).

   Python sources modelled (in the code's order):
     pycdlib.py  add_directory (Rock Ridge part)  path lookup THROUGH child links, duplicate test,
                    `depth % 8 == 0` test, _find_or_create_rr_moved, the placeholder
                    (rr_relocated_child), the real directory under RR_MOVED (rr_relocated), the
                    name chosen inside RR_MOVED (`name + '%03d' % index` loop), '.'/'..'
                 rm_directory   refusals; relocated case: RR_MOVED child removed, RR_MOVED itself
                    removed once it is empty (and forgotten: fix 6984eda), the placeholder
                    removed from the logical parent
                 add_fp / add_symlink / rm_file   for paths inside relocated directories
                 _find_dr_record_by_name          lookup follows cl_to_moved_dr on EVERY component
                 _iso_name_and_parent_from_path   a parent that is not a directory is refused
                    before anything is built (fix 3cc255b)
                 _reassign_vd_dirrecord_extents   (in RelocView.v) breadth-first extents, '..' link
                    counts (copy_file_links), CL / PL block numbers
     dr.py       _rr_new (isdir branch: which PX link counts are bumped; the refusals that used to
                    come after it are now raised before: duplicate test in add_directory, parent
                    test 3cc255b), new_dir (placeholder: isdir False, PX links 2),
                    remove_child (which counts are decremented; CL records count as directories)
     rockridge.py  RRCLRecord / RRPLRecord / RRRERecord: which records carry them; PX.new = 1.

   STATE.  The object graph, stored at the LOGICAL position of every record: a relocated
   directory object (child of RR_MOVED, RE) and its placeholder object (CL, in the logical parent)
   are the two ends of cl_to_moved_dr / moved_to_cl_dr and are kept in ONE [Dir] node whose [mv]
   field is the ISO name the directory has inside RR_MOVED.  [view] lays the graph out as the
   physical tree (root, RR_MOVED, every directory with its records) exactly as the library holds
   and writes it; tools/reloc_cases.py compares that layout with the library after EVERY operation.

   Restrictions (guards [name_ok]/[op_ok]; an operation outside them is [Oom]):
     Rock Ridge 1.09/1.10/1.12, interchange level 3 (level 1 behaves the same: the generated
     RR_MOVED names are not length-checked), no Joliet/UDF/El Torito/XA, histories start from a
     fresh image ([Reopen] = write_fp + open_fp in the middle of a history leaves the state alone),
     identifiers valid for the level and short enough to need no continuation area (they are
     opaque byte strings here: _check_iso9660_directory/_filename are Model/Names.v), no path
     component named RR_MOVED (so the user never works inside RR_MOVED and cd1f033 never fires),
     at most 1000 colliding names inside RR_MOVED, set_relocated_name not used, children found by
     linear search instead of bisection (same result on the sorted duplicate-free lists), one
     directory block count [sz] per physical directory given from outside (its history is
     Model/AccountRR.v), file data extents not modelled. *)
From Coq Require Import ZArith List Bool.
Import ListNotations.
Local Open Scope Z_scope.

Definition name := list Z.

Fixpoint neqb (a b : name) : bool :=
  match a, b with
  | [], [] => true
  | x :: a', y :: b' => (x =? y) && neqb a' b'
  | _, _ => false
  end.

(* DirectoryRecord.__lt__ on identifiers other than '.'/'..': Python bytes '<' *)
Fixpoint nlt (a b : name) : bool :=
  match a, b with
  | _, [] => false
  | [], _ :: _ => true
  | x :: a', y :: b' => if x <? y then true else if y <? x then false else nlt a' b'
  end.

Definition moved_name : name := [82; 82; 95; 77; 79; 86; 69; 68].      (* b'RR_MOVED' *)
Definition moved_rr : name := [114; 114; 95; 109; 111; 118; 101; 100]. (* b'rr_moved' *)
Definition dot_name : name := [0].
Definition dotdot_name : name := [1].

Definition name_ok (n : name) : bool :=
  negb (neqb n []) && negb (neqb n dot_name) && negb (neqb n dotdot_name) && negb (neqb n moved_name).

(* ---- the object graph ---------------------------------------------------------------------- *)
(* Dir iso rr ent dot mv kids : a directory.  [ent] = PX links of its own record (in its physical
     parent), [dot] = PX links of its '.' record, [mv] = Some n when it is relocated (its record
     lives in RR_MOVED under the identifier n and its logical parent holds a placeholder).
   Leaf sym iso rr : a file (sym = false) or a symlink (PX links of its record: PX.new). *)
Inductive node :=
| Dir (iso rr : name) (ent dot : Z) (mv : option name) (kids : list node)
| Leaf (sym : bool) (iso rr : name).

Definition niso (n : node) : name :=
  match n with Dir i _ _ _ _ _ => i | Leaf _ i _ => i end.
Definition is_dir (n : node) : bool := match n with Dir _ _ _ _ _ _ => true | _ => false end.

(* self._rr_moved_record: not initialized / the child RR_MOVED of the root with the PX links of
   its own record and of its '.' *)
Definition mstate := option (Z * Z).

Record state := mkState {
  s_dot : Z;              (* PX links of the root's '.' *)
  s_dotdot : Z;           (* PX links of the root's '..' *)
  s_kids : list node;     (* children of the root other than RR_MOVED *)
  s_moved : mstate }.

(* PX.new: posix_file_links = 1; root '.' and '..' each add_to_file_links once *)
Definition px_new : Z := 1.
Definition init : state := mkState (px_new + 1) (px_new + 1) [] None.

Inductive op :=
| AddDir (p : list name) (rr : name)
| RmDir (p : list name)
| AddLeaf (sym : bool) (p : list name) (rr : name)
| RmLeaf (p : list name)
| Reopen.                       (* write_fp, then open_fp of the written bytes, then go on editing *)

Inductive outcome := Acc | Ref | Oom.

(* ---- children lists ------------------------------------------------------------------------ *)
(* bisect_left + insert *)
Fixpoint ins (n : node) (l : list node) : list node :=
  match l with
  | [] => [n]
  | h :: t => if nlt (niso h) (niso n) then h :: ins n t else n :: l
  end.

Fixpoint has_name (c : name) (l : list node) : bool :=
  match l with [] => false | h :: t => neqb (niso h) c || has_name c t end.

Fixpoint find_kid (c : name) (l : list node) : option node :=
  match l with [] => None | h :: t => if neqb (niso h) c then Some h else find_kid c t end.

Fixpoint del_kid (c : name) (l : list node) : list node :=
  match l with [] => [] | h :: t => if neqb (niso h) c then t else h :: del_kid c t end.

(* replace the first child named c by what g returns for it *)
Fixpoint on_kid (c : name) (g : node -> option node) (l : list node) : option (list node) :=
  match l with
  | [] => None
  | h :: t => if neqb (niso h) c then option_map (fun h' => h' :: t) (g h)
              else option_map (cons h) (on_kid c g t)
  end.

(* _find_dr_record_by_name: one component after the other; a child link is followed (the node IS
   the relocated directory); a component that is not a directory ends the search *)
Fixpoint at_path (p : list name) (g : node -> option node) (l : list node)
  : option (list node) :=
  match p with
  | [] => None
  | c :: p' =>
      match p' with
      | [] => on_kid c g l
      | _ :: _ => on_kid c (fun k => match k with
                                     | Dir i r e d m ks =>
                                         option_map (Dir i r e d m) (at_path p' g ks)
                                     | Leaf _ _ _ => None
                                     end) l
      end
  end.

Fixpoint get (p : list name) (l : list node) : option node :=
  match p with
  | [] => None
  | c :: p' =>
      match find_kid c l with
      | None => None
      | Some k => match p' with
                  | [] => Some k
                  | _ :: _ => match k with Dir _ _ _ _ _ ks => get p' ks | Leaf _ _ _ => None end
                  end
      end
  end.

Fixpoint split_last (p : list name) : option (list name * name) :=
  match p with
  | [] => None
  | c :: p' => match split_last p' with
               | None => Some ([], c)
               | Some (q, n) => Some (c :: q, n)
               end
  end.

(* names in use inside RR_MOVED = the [mv] fields of the whole graph *)
Fixpoint mnames_n (n : node) : list name :=
  match n with
  | Dir _ _ _ _ m ks => (match m with Some x => [x] | None => [] end) ++ flat_map mnames_n ks
  | Leaf _ _ _ => []
  end.
Definition mnames (l : list node) : list name := flat_map mnames_n l.

Fixpoint mem (c : name) (l : list name) : bool :=
  match l with [] => false | h :: t => neqb h c || mem c t end.

(* '%03d' % i for 0 <= i < 1000 *)
Definition digits3 (i : Z) : name := [48 + i / 100; 48 + (i / 10) mod 10; 48 + i mod 10].

(* index = 0; while True: for child in rr_moved.children: if child.file_ident == iso9660_name:
     iso9660_name = name + '%03d' % index; index += 1; break  else: break
   None after 1000 collisions (out of model) *)
Fixpoint fresh (fuel : nat) (base cand : name) (idx : Z) (used : list name) : option name :=
  if mem cand used
  then match fuel with
       | O => None
       | S f => fresh f base (base ++ digits3 idx) (idx + 1) used
       end
  else Some cand.
Definition fresh_name (base : name) (used : list name) : option name := fresh 1000 base base 0 used.

(* ---- add_directory / add_fp / add_symlink -------------------------------------------------- *)
Definition b2z (b : bool) : Z := if b then 1 else 0.

(* the parent record k receives the new child: duplicate test (add_directory's own loop, or
   _add_child's), then _rr_new of the child bumps k's own record and k's '.' when the child is a
   directory or a placeholder, then bisect insertion *)
Definition add_in (new : node) (bump : bool) (k : node) : option node :=
  match k with
  | Dir i r e d m ks =>
      if has_name (niso new) ks then None
      else Some (Dir i r (e + b2z bump) (d + b2z bump) m (ins new ks))
  | Leaf _ _ _ => None
  end.

Definition set_kids (s : state) (ks : list node) : state :=
  mkState (s_dot s) (s_dotdot s) ks (s_moved s).
Definition bump_root (s : state) (v : Z) : state :=
  mkState (s_dot s + v) (s_dotdot s + v) (s_kids s) (s_moved s).
Definition set_moved (s : state) (m : mstate) : state :=
  mkState (s_dot s) (s_dotdot s) (s_kids s) m.

(* new child [new] into the directory at path q ([] = the root: its '.' and '..' are bumped) *)
Definition add_node (s : state) (q : list name) (new : node) (bump : bool) : option state :=
  match q with
  | [] => if has_name (niso new) (s_kids s) then None
          else Some (bump_root (set_kids s (ins new (s_kids s))) (b2z bump))
  | _ :: _ => match at_path q (add_in new bump) (s_kids s) with
              | Some ks => Some (set_kids s ks)
              | None => None
              end
  end.

(* _find_or_create_rr_moved: new_dir under the root (root '.' and '..' +1; own record PX.new = 1),
   _create_dot (own record +1, '.' = 1 + 1) *)
Definition ensure_moved (s : state) : state :=
  match s_moved s with
  | None => set_moved (bump_root s 1) (Some (px_new + 1, px_new + 1))
  | Some _ => s
  end.
(* rec.new_dir(parent = RR_MOVED): RR_MOVED's own record and its '.' +1 *)
Definition bump_moved (s : state) (v : Z) : state :=
  match s_moved s with
  | Some (e, d) => set_moved s (Some (e + v, d + v))
  | None => s
  end.

(* a fresh directory: own record PX.new then +1 by _create_dot; '.' = PX.new + 1 *)
Definition new_dir (i r : name) (m : option name) : node := Dir i r (px_new + 1) (px_new + 1) m [].

Definition relocates (p : list name) : bool := Z.of_nat (length p) mod 8 =? 0.

(* lookup of the parent, duplicate test, then: depth % 8 == 0 -> _find_or_create_rr_moved, the
   placeholder in the logical parent (its _rr_new bumps the parent), the real directory under
   RR_MOVED with a name no other child of RR_MOVED has (its _rr_new bumps RR_MOVED) *)
Definition add_dir (s : state) (p : list name) (rr : name) : state * outcome :=
  match split_last p with
  | None => (s, Ref)
  | Some (q, nm) =>
      if relocates p
      then match fresh_name nm (mnames (s_kids s)) with
           | None => (s, Oom)
           | Some mn =>
               match add_node (ensure_moved s) q (new_dir nm rr (Some mn)) true with
               | Some s2 => (bump_moved s2 1, Acc)
               | None => (s, Ref)
               end
           end
      else match add_node s q (new_dir nm rr None) true with
           | Some s2 => (s2, Acc)
           | None => (s, Ref)
           end
  end.

(* ---- rm_directory / rm_file ---------------------------------------------------------------- *)
(* parent.remove_child(child): for a directory or a placeholder the parent's own record and its
   '.' are decremented; del children[index] *)
Definition del_in (c : name) (bump : bool) (k : node) : option node :=
  match k with
  | Dir i r e d m ks => Some (Dir i r (e - b2z bump) (d - b2z bump) m (del_kid c ks))
  | Leaf _ _ _ => None
  end.

Definition del_node (s : state) (q : list name) (c : name) (bump : bool) : option state :=
  match q with
  | [] => Some (bump_root (set_kids s (del_kid c (s_kids s))) (- b2z bump))
  | _ :: _ => match at_path q (del_in c bump) (s_kids s) with
              | Some ks => Some (set_kids s ks)
              | None => None
              end
  end.

(* relocated child removed from RR_MOVED; `if len(parent.children) == 2:` RR_MOVED is removed from
   the root (root '.'/'..' -1) and self._rr_moved_record is reset *)
Definition drop_moved (s : state) : state :=
  match s_moved s with
  | Some (e, d) =>
      if (Z.of_nat (length (mnames (s_kids s))) =? 1)
      then set_moved (bump_root s (-1)) None
      else set_moved s (Some (e - 1, d - 1))
  | None => s
  end.

Definition rm_dir (s : state) (p : list name) : state * outcome :=
  match split_last p, get p (s_kids s) with
  | Some (q, nm), Some (Dir _ _ _ _ m []) =>
      let s1 := match m with Some _ => drop_moved s | None => s end in
      match del_node s1 q nm true with
      | Some s2 => (s2, Acc)
      | None => (s, Ref)
      end
  | _, _ => (s, Ref)
  end.

Definition add_leaf (s : state) (sym : bool) (p : list name) (rr : name) : state * outcome :=
  match split_last p with
  | None => (s, Ref)
  | Some (q, nm) =>
      match add_node s q (Leaf sym nm rr) false with
      | Some s2 => (s2, Acc)
      | None => (s, Ref)
      end
  end.

Definition rm_leaf (s : state) (p : list name) : state * outcome :=
  match split_last p, get p (s_kids s) with
  | Some (q, nm), Some (Leaf _ _ _) =>
      match del_node s q nm false with
      | Some s2 => (s2, Acc)
      | None => (s, Ref)
      end
  | _, _ => (s, Ref)
  end.

Definition path_ok (p : list name) : bool := forallb name_ok p.
Definition rr_ok (r : name) : bool := negb (neqb r []).
Definition op_ok (o : op) : bool :=
  match o with
  | AddDir p r => path_ok p && rr_ok r
  | RmDir p => path_ok p
  | AddLeaf _ p r => path_ok p && rr_ok r
  | RmLeaf p => path_ok p
  | Reopen => true
  end.

Definition step (s : state) (o : op) : state * outcome :=
  if negb (op_ok o) then (s, Oom)
  else match o with
       | AddDir p r => add_dir s p r
       | RmDir p => rm_dir s p
       | AddLeaf sy p r => add_leaf s sy p r
       | RmLeaf p => rm_leaf s p
       | Reopen => (s, Acc)     (* the parsed object graph is the one that was written *)
       end.

Fixpoint run (s : state) (ops : list op) : state :=
  match ops with [] => s | o :: r => run (fst (step s o)) r end.
(* no operation of the history left the model *)
Fixpoint run_ok (s : state) (ops : list op) : bool :=
  match ops with
  | [] => true
  | o :: r => match snd (step s o) with Oom => false | _ => run_ok (fst (step s o)) r end
  end.
Fixpoint outcomes (s : state) (ops : list op) : list outcome :=
  match ops with [] => [] | o :: r => snd (step s o) :: outcomes (fst (step s o)) r end.

(* ---- the logical level: a plain specification ---------------------------------------------- *)
Inductive lnode :=
| LDir (iso rr : name) (kids : list lnode)
| LLeaf (sym : bool) (iso rr : name).

Definition liso (n : lnode) : name := match n with LDir i _ _ => i | LLeaf _ i _ => i end.
Definition l_is_dir (n : lnode) : bool := match n with LDir _ _ _ => true | _ => false end.

Fixpoint l_ins (n : lnode) (l : list lnode) : list lnode :=
  match l with
  | [] => [n]
  | h :: t => if nlt (liso h) (liso n) then h :: l_ins n t else n :: l
  end.
Fixpoint l_has (c : name) (l : list lnode) : bool :=
  match l with [] => false | h :: t => neqb (liso h) c || l_has c t end.
Fixpoint l_find (c : name) (l : list lnode) : option lnode :=
  match l with [] => None | h :: t => if neqb (liso h) c then Some h else l_find c t end.
Fixpoint l_del (c : name) (l : list lnode) : list lnode :=
  match l with [] => [] | h :: t => if neqb (liso h) c then t else h :: l_del c t end.
Fixpoint l_on (c : name) (g : lnode -> option lnode) (l : list lnode) : option (list lnode) :=
  match l with
  | [] => None
  | h :: t => if neqb (liso h) c then option_map (fun h' => h' :: t) (g h)
              else option_map (cons h) (l_on c g t)
  end.
Fixpoint l_at (p : list name) (g : lnode -> option lnode) (l : list lnode)
  : option (list lnode) :=
  match p with
  | [] => None
  | c :: p' =>
      match p' with
      | [] => l_on c g l
      | _ :: _ => l_on c (fun k => match k with
                                   | LDir i r ks => option_map (LDir i r) (l_at p' g ks)
                                   | LLeaf _ _ _ => None
                                   end) l
      end
  end.
Fixpoint l_get (p : list name) (l : list lnode) : option lnode :=
  match p with
  | [] => None
  | c :: p' =>
      match l_find c l with
      | None => None
      | Some k => match p' with
                  | [] => Some k
                  | _ :: _ => match k with LDir _ _ ks => l_get p' ks | LLeaf _ _ _ => None end
                  end
      end
  end.

(* add n to the directory at q unless a child of that name exists *)
Definition l_add (t : list lnode) (q : list name) (n : lnode) : option (list lnode) :=
  match q with
  | [] => if l_has (liso n) t then None else Some (l_ins n t)
  | _ :: _ => l_at q (fun k => match k with
                               | LDir i r ks => if l_has (liso n) ks then None
                                                else Some (LDir i r (l_ins n ks))
                               | LLeaf _ _ _ => None
                               end) t
  end.
Definition l_rm (t : list lnode) (q : list name) (c : name) : option (list lnode) :=
  match q with
  | [] => Some (l_del c t)
  | _ :: _ => l_at q (fun k => match k with
                               | LDir i r ks => Some (LDir i r (l_del c ks))
                               | LLeaf _ _ _ => None
                               end) t
  end.

Definition or_same (t : list lnode) (o : option (list lnode)) : list lnode :=
  match o with Some t' => t' | None => t end.

(* add_directory p adds the directory p; rm_directory p removes it if it is an empty directory;
   add_fp/add_symlink add a leaf; rm_file removes a leaf; everything else leaves the tree alone *)
Definition spec_step (t : list lnode) (o : op) : list lnode :=
  match o with
  | AddDir p r =>
      match split_last p with
      | Some (q, nm) => or_same t (l_add t q (LDir nm r []))
      | None => t
      end
  | RmDir p =>
      match split_last p, l_get p t with
      | Some (q, nm), Some (LDir _ _ []) => or_same t (l_rm t q nm)
      | _, _ => t
      end
  | AddLeaf sy p r =>
      match split_last p with
      | Some (q, nm) => or_same t (l_add t q (LLeaf sy nm r))
      | None => t
      end
  | RmLeaf p =>
      match split_last p, l_get p t with
      | Some (q, nm), Some (LLeaf _ _ _) => or_same t (l_rm t q nm)
      | _, _ => t
      end
  | Reopen => t
  end.
Definition logical_spec (ops : list op) : list lnode := fold_left spec_step ops [].

Fixpoint erase (n : node) : lnode :=
  match n with
  | Dir i r _ _ _ ks => LDir i r (map erase ks)
  | Leaf sy i r => LLeaf sy i r
  end.
Definition logical (s : state) : list lnode := map erase (s_kids s).
