(* Byte-level models of record() / parse() / new() of the UDF VOLUME-LEVEL structures of
   /repo/pycdlib/udf.py.  Definitions only; proofs in Proofs/UdfVdsProofs.v, UdfVdsDescProofs.v,
   UdfVdsLvProofs.v, UdfVdsCasesProofs.v.  Reuses UDFTag / UDFShortAD / UDFLongAD of Model/Udf.v.

   Sources modelled:
     BEAVolumeStructure / NSRVolumeStructure / TEAVolumeStructure  -> vrs_*, bea_*, nsr_*, tea_*
     UDFExtentAD, UDFEntityID, UDFCharspec, UDFTimestamp (record/parse) -> extad_*, entity_*, charspec_*, ts_*
     UDFAnchorVolumeStructure (new/record/parse/set_extent_location)   -> anchor_*
     UDFPrimaryVolumeDescriptor                                        -> pvd_*
     UDFImplementationUseVolumeDescriptor(+ImplementationUse)          -> iuvd_*, iuu_*
     UDFPartitionHeaderDescriptor, UDFPartitionVolumeDescriptor        -> parthdr_*, part_*
     UDFType0/1/2PartitionMap, UDFLogicalVolumeDescriptor              -> pmap_*, lvd_*
     UDFUnallocatedSpaceDescriptor, UDFTerminatingDescriptor           -> usd_*, td_*
     UDFLogicalVolumeHeaderDescriptor, UDFLogicalVolumeImplementationUse,
       UDFLogicalVolumeIntegrityDescriptor                             -> (li_unique_id), lvimpl_*, lvid_*
     UDFFileSetDescriptor                                              -> fsd_*
   (the num_files / num_dirs / part_length / size_tables bookkeeping of pycdlib.py is in Model/UdfVdsBook.v)

   Conventions.  A descriptor object is the pair (desc_tag, the other attributes).  record() is
   [desc_record tag (X_body x)]: X_body is rec[16:] = struct.pack(FMT, 16 zeros, ...)[16:] and the tag
   is desc_tag.record(rec) -- in EVERY class the CRC covers the whole 496-byte rec.  X_body is
   [if X_ok x then Some (concat (X_fields x)) else None]: X_ok = no struct.error (every integer in the
   range of its format code).  A nested x.record() placed in an 'Ns' slot is written without pack_s
   because it always has exactly N bytes.  parse(data, extent, desc_tag) is X_parse_body data, which
   never looks at data[0:16]; the callers in udf.py (parse_udf_vol_descs, parse_anchor, ...) parse the
   tag first and dispatch on tag_ident: [desc_parse ident X_parse_body data extent].  They hand the
   body parser data[:512]; here it gets the same [data] as the tag parser (unpack_from ignores what
   follows, so this only differs for inputs shorter than 512 bytes, which raise in both).
   Not modelled: _initialized flags, orig_extent_loc/new_extent_loc bookkeeping, the new() of the
   descriptors whose fields come from the clock / _ostaunicode (PVD, IUVD, LVD, FSD: take the fields
   as given), UDFBootDescriptor, UDFVolumeDescriptorPointer. *)
From Coq Require Import ZArith List Bool.
From PV.Base Require Import Prim.
From PV.Gen Require Import GenConst GenFun.
From PV.Model Require Import Codec Checksums Udf.
Import ListNotations.
Local Open Scope Z_scope.

Definition zeros (n : nat) : list Z := repeat 0 n.
Definition str_udf_lv_info : list Z := [42; 85; 68; 70; 32; 76; 86; 32; 73; 110; 102; 111].
Definition str_osta_compliant : list Z :=
  [42; 79; 83; 84; 65; 32; 85; 68; 70; 32; 67; 111; 109; 112; 108; 105; 97; 110; 116].
Definition str_pycdlib : list Z := [42; 112; 121; 99; 100; 108; 105; 98].
Definition str_part_contents : list (list Z) :=              (* +FDC01 +CD001 +CDW02 +NSR02 +NSR03 *)
  [[43; 70; 68; 67; 48; 49]; [43; 67; 68; 48; 48; 49]; [43; 67; 68; 87; 48; 50];
   [43; 78; 83; 82; 48; 50]; [43; 78; 83; 82; 48; 51]].

(* ---- Volume Recognition Sequence: FMT '=B5sB2041s' (2048 bytes) ------------------------------- *)
Definition fmt_udf_vrs_widths : list Z := [1; 5; 1; 2041].
Definition bea_ident : list Z := [66; 69; 65; 48; 49].
Definition tea_ident : list Z := [84; 69; 65; 48; 49].
Definition nsr02_ident : list Z := [78; 83; 82; 48; 50].
Definition nsr03_ident : list Z := [78; 83; 82; 48; 51].
(* struct.pack(FMT, 0, ident, 1, b'\x00' * 2041) *)
Definition vrs_fields (ident : list Z) : list (list Z) := [[0]; pack_s 5 ident; [1]; zeros 2041].
Definition vrs_record (ident : list Z) : list Z := concat (vrs_fields ident).
(* structure_type != 0 and structure_version != 1 raise; returns standard_ident *)
Definition vrs_parse (data : list Z) : option (list Z) :=
  match split_widths (widths fmt_udf_vrs_widths) data with
  | Some ([f0; f1; f2; _], _) =>
      if negb (d8 f0 =? 0) then None else if negb (d8 f2 =? 1) then None else Some f1
  | _ => None
  end.
Definition vrs_parse_ident (ok : list Z -> bool) (data : list Z) : option (list Z) :=
  match vrs_parse data with Some id => if ok id then Some id else None | None => None end.
Definition bea_record : list Z := vrs_record bea_ident.
Definition tea_record : list Z := vrs_record tea_ident.
Definition bea_parse : list Z -> option (list Z) := vrs_parse_ident (zlist_eqb bea_ident).
Definition tea_parse : list Z -> option (list Z) := vrs_parse_ident (zlist_eqb tea_ident).
(* NSRVolumeStructure.new(version): standard_ident; record(); parse keeps standard_ident *)
Definition nsr_new (version : Z) : option (list Z) :=
  if version =? 2 then Some nsr02_ident else if version =? 3 then Some nsr03_ident else None.
Definition nsr_record (standard_ident : list Z) : list Z := vrs_record standard_ident.
Definition nsr_parse : list Z -> option (list Z) :=
  vrs_parse_ident (fun id => zlist_eqb id nsr02_ident || zlist_eqb id nsr03_ident).

(* ---- UDFExtentAD: FMT '<LL' -------------------------------------------------------------------- *)
Record extent_ad := mk_extent_ad { ea_length : Z; ea_location : Z }.
Definition extad_new (length blocknum : Z) : option extent_ad :=
  if length >=? 1073741823 then None else Some (mk_extent_ad length blocknum).
Definition extad_ok (a : extent_ad) : bool := u32_ok (ea_length a) && u32_ok (ea_location a).
Definition extad_bytes (a : extent_ad) : list Z := le32 (ea_length a) ++ le32 (ea_location a).
Definition extad_record (a : extent_ad) : option (list Z) :=
  if extad_ok a then Some (extad_bytes a) else None.
Definition extad_parse (data : list Z) : option extent_ad :=       (* length >= 0x3fffffff raises *)
  match split_widths [4; 4]%nat data with
  | Some ([f0; f1], _) =>
      if dle32 f0 >=? 1073741823 then None else Some (mk_extent_ad (dle32 f0) (dle32 f1))
  | _ => None
  end.

(* ---- UDFEntityID: FMT '=B23s8s' ---------------------------------------------------------------- *)
Record entity := mk_entity { en_flags : Z; en_ident : list Z; en_suffix : list Z }.
Definition entity_new (flags : Z) (identifier suffix : list Z) : option entity :=
  if flags >? 3 then None else if zlen identifier >? 23 then None else if zlen suffix >? 8 then None
  else Some (mk_entity flags (identifier ++ zeros (23 - length identifier))
                       (suffix ++ zeros (8 - length suffix))).
Definition entity_ok (e : entity) : bool := u8_ok (en_flags e).
Definition entity_bytes (e : entity) : list Z :=
  [en_flags e] ++ pack_s 23 (en_ident e) ++ pack_s 8 (en_suffix e).
Definition entity_parse (data : list Z) : option entity :=         (* flags > 3 raises *)
  match split_widths [1; 23; 8]%nat data with
  | Some ([f0; f1; f2], _) => if d8 f0 >? 3 then None else Some (mk_entity (d8 f0) f1 f2)
  | _ => None
  end.

(* ---- UDFCharspec: FMT '=B63s' ------------------------------------------------------------------ *)
Record charspec := mk_charspec { cs_type : Z; cs_info : list Z }.
Definition charspec_new (set_type : Z) (set_information : list Z) : option charspec :=
  if set_type >? 8 then None else if zlen set_information >? 63 then None
  else Some (mk_charspec set_type (set_information ++ zeros (63 - length set_information))).
Definition charspec_ok (c : charspec) : bool := u8_ok (cs_type c).
Definition charspec_bytes (c : charspec) : list Z := [cs_type c] ++ pack_s 63 (cs_info c).
Definition charspec_parse (data : list Z) : option charspec :=     (* set_type > 8 raises *)
  match split_widths [1; 63]%nat data with
  | Some ([f0; f1], _) => if d8 f0 >? 8 then None else Some (mk_charspec (d8 f0) f1)
  | _ => None
  end.

(* ---- UDFTimestamp: FMT '<BBHBBBBBBBB' (generated widths) --------------------------------------- *)
Record tstamp := mk_tstamp {
  ts_tz : Z; ts_timetype : Z; ts_year : Z; ts_month : Z; ts_day : Z; ts_hour : Z; ts_minute : Z;
  ts_second : Z; ts_centi : Z; ts_hundreds : Z; ts_micro : Z }.
(* tmp = ((1 << 16) - 1) & self.tz ; newtz = tmp & 0xff ; newtimetype = ((tmp >> 8) & 0x0f) | (timetype << 4) *)
Definition ts_newtz (tz : Z) : Z := Z.land (Z.land 65535 tz) 255.
Definition ts_newtimetype (tz timetype : Z) : Z :=
  Z.lor (Z.land (Z.shiftr (Z.land 65535 tz) 8) 15) (Z.shiftl timetype 4).
Definition ts_ok (t : tstamp) : bool :=
  u8_ok (ts_newtimetype (ts_tz t) (ts_timetype t)) && u16_ok (ts_year t) && u8_ok (ts_month t) &&
  u8_ok (ts_day t) && u8_ok (ts_hour t) && u8_ok (ts_minute t) && u8_ok (ts_second t) &&
  u8_ok (ts_centi t) && u8_ok (ts_hundreds t) && u8_ok (ts_micro t).
Definition ts_fields (t : tstamp) : list (list Z) :=
  [[ts_newtz (ts_tz t)]; [ts_newtimetype (ts_tz t) (ts_timetype t)]; le16 (ts_year t); [ts_month t];
   [ts_day t]; [ts_hour t]; [ts_minute t]; [ts_second t]; [ts_centi t]; [ts_hundreds t]; [ts_micro t]].
Definition ts_bytes (t : tstamp) : list Z := concat (ts_fields t).
Definition twos_comp (val bits : Z) : Z :=
  if negb (Z.land val (Z.shiftl 1 (bits - 1)) =? 0) then val - Z.shiftl 1 bits else val.
(* timetype = tt >> 4 ; tz = twos_comp(((tt & 0xf) << 8) | tz, 12) *)
Definition ts_dec_tz (tzb tt : Z) : Z := twos_comp (Z.lor (Z.shiftl (Z.land tt 15) 8) tzb) 12.
Definition ts_parse (data : list Z) : option tstamp :=
  match split_widths (widths fmt_udf_timestamp_widths) data with
  | Some ([f0; f1; f2; f3; f4; f5; f6; f7; f8; f9; f10], _) =>
      let tz := ts_dec_tz (d8 f0) (d8 f1) in
      let year := dle16 f2 in
      if ((tz <? -1440) || (tz >? 1440)) && negb (tz =? -2047) then None else
      if (year <? 1) || (year >? 9999) then None else
      if (d8 f3 <? 1) || (d8 f3 >? 12) then None else
      if (d8 f4 <? 1) || (d8 f4 >? 31) then None else
      if (d8 f5 <? 0) || (d8 f5 >? 23) then None else
      if (d8 f6 <? 0) || (d8 f6 >? 59) then None else
      if (d8 f7 <? 0) || (d8 f7 >? 59) then None else
      Some (mk_tstamp tz (Z.shiftr (d8 f1) 4) year (d8 f3) (d8 f4) (d8 f5) (d8 f6) (d8 f7) (d8 f8)
                      (d8 f9) (d8 f10))
  | _ => None
  end.

(* ---- ShortAD / LongAD as total byte functions (= Udf.shortad_record / longad_record) ----------- *)
Definition sad_ok (a : shortad) : bool :=
  u32_ok (Z.lor (sa_length a) (Z.shiftl (sa_type a) 30)) && u32_ok (sa_pos a).
Definition sad_bytes (a : shortad) : list Z :=
  le32 (Z.lor (sa_length a) (Z.shiftl (sa_type a) 30)) ++ le32 (sa_pos a).
Definition lad_ok (a : longad) : bool := u32_ok (la_length a) && u32_ok (la_pos a) && u16_ok (la_part a).
Definition lad_bytes (a : longad) : list Z := concat (longad_fields a).

(* ---- descriptors carrying a tag ----------------------------------------------------------------- *)
(* return self.desc_tag.record(rec) + rec *)
Definition desc_record (t : utag) (body : option (list Z)) : option (list Z) :=
  match body with
  | Some b => match tag_record t b with Some h => Some (h ++ b) | None => None end
  | None => None
  end.
(* desc_tag.parse(data, extent); tag_ident test of the caller; X.parse(data[:512], extent, desc_tag) *)
Definition desc_parse {P} (ident : Z) (pb : list Z -> option P) (data : list Z) (extent : Z)
  : option (utag * P) :=
  match tag_parse data extent with
  | Some t => if negb (tg_ident t =? ident) then None else
              match pb data with Some p => Some (t, p) | None => None end
  | None => None
  end.
(* self.desc_tag.tag_location = new_location *)
Definition tag_set_location (t : utag) (loc : Z) : utag :=
  mk_utag (tg_ident t) (tg_version t) (tg_serial t) loc (tg_crclen t).
Definition body_of (ok : bool) (fields : list (list Z)) : option (list Z) :=
  if ok then Some (concat fields) else None.

(* ---- UDFAnchorVolumeStructure: FMT '=16s8s8s480s', tag 2 ---------------------------------------- *)
Record anchor := mk_anchor { an_main : extent_ad; an_reserve : extent_ad }.
Definition anchor_new : utag * anchor :=
  (tag_new 2 0, mk_anchor (mk_extent_ad 32768 0) (mk_extent_ad 32768 0)).
Definition anchor_set_extent_location (d : utag * anchor) (new_location main_vd_extent reserve_vd_extent : Z)
  : utag * anchor :=
  (tag_set_location (fst d) new_location,
   mk_anchor (mk_extent_ad (ea_length (an_main (snd d))) main_vd_extent)
             (mk_extent_ad (ea_length (an_reserve (snd d))) reserve_vd_extent)).
Definition anchor_fields (a : anchor) : list (list Z) :=
  [extad_bytes (an_main a); extad_bytes (an_reserve a); zeros 480].
Definition anchor_body (a : anchor) : option (list Z) :=
  body_of (extad_ok (an_main a) && extad_ok (an_reserve a)) (anchor_fields a).
Definition anchor_parse_body (data : list Z) : option anchor :=
  match split_widths [16; 8; 8; 480]%nat data with
  | Some ([_; f1; f2; _], _) =>
      match extad_parse f1, extad_parse f2 with
      | Some m, Some r => Some (mk_anchor m r)
      | _, _ => None
      end
  | _ => None
  end.
Definition anchor_record (d : utag * anchor) := desc_record (fst d) (anchor_body (snd d)).
Definition anchor_parse := desc_parse 2 anchor_parse_body.

(* ---- UDFPrimaryVolumeDescriptor: FMT '<16sLL32sHHHHLL128s64s64s8s8s32s12s32s64sLH22s', tag 1 ---- *)
Record pvd := mk_pvd {
  pv_seqnum : Z; pv_desc_num : Z; pv_vol_ident : list Z; pv_interchange : Z; pv_max_interchange : Z;
  pv_vol_set_ident : list Z; pv_desc_char_set : charspec; pv_expl_char_set : charspec;
  pv_abstract : extent_ad; pv_copyright : extent_ad; pv_app_ident : entity; pv_date : tstamp;
  pv_impl_ident : entity; pv_impl_use : list Z; pv_predecessor : Z; pv_flags : Z }.
Definition pvd_fields (p : pvd) : list (list Z) :=
  [le32 (pv_seqnum p); le32 (pv_desc_num p); pack_s 32 (pv_vol_ident p); le16 1; le16 1;
   le16 (pv_interchange p); le16 (pv_max_interchange p); le32 1; le32 1; pack_s 128 (pv_vol_set_ident p);
   charspec_bytes (pv_desc_char_set p); charspec_bytes (pv_expl_char_set p);
   extad_bytes (pv_abstract p); extad_bytes (pv_copyright p); entity_bytes (pv_app_ident p);
   ts_bytes (pv_date p); entity_bytes (pv_impl_ident p); pack_s 64 (pv_impl_use p);
   le32 (pv_predecessor p); le16 (pv_flags p); zeros 22].
Definition pvd_ok (p : pvd) : bool :=
  u32_ok (pv_seqnum p) && u32_ok (pv_desc_num p) && u16_ok (pv_interchange p) &&
  u16_ok (pv_max_interchange p) && charspec_ok (pv_desc_char_set p) && charspec_ok (pv_expl_char_set p) &&
  extad_ok (pv_abstract p) && extad_ok (pv_copyright p) && entity_ok (pv_app_ident p) &&
  ts_ok (pv_date p) && entity_ok (pv_impl_ident p) && u32_ok (pv_predecessor p) && u16_ok (pv_flags p).
Definition pvd_body (p : pvd) : option (list Z) := body_of (pvd_ok p) (pvd_fields p).
(* raises: vol_seqnum, max_vol_seqnum, char_set_list, max_char_set_list != 1; interchange_level not in
   (2, 3); flags not in (0, 1); reserved != 22 zeros; any nested parse *)
Definition pvd_parse_body (data : list Z) : option pvd :=
  match split_widths [16; 4; 4; 32; 2; 2; 2; 2; 4; 4; 128; 64; 64; 8; 8; 32; 12; 32; 64; 4; 2; 22]%nat data with
  | Some ([_; f1; f2; f3; f4; f5; f6; f7; f8; f9; f10; f11; f12; f13; f14; f15; f16; f17; f18; f19; f20; f21], _) =>
      if negb (dle16 f4 =? 1) || negb (dle16 f5 =? 1) then None else
      if negb ((dle16 f6 =? 2) || (dle16 f6 =? 3)) then None else
      if negb (dle32 f8 =? 1) || negb (dle32 f9 =? 1) then None else
      if negb ((dle16 f20 =? 0) || (dle16 f20 =? 1)) then None else
      if negb (zlist_eqb f21 (zeros 22)) then None else
      match charspec_parse f11, charspec_parse f12, extad_parse f13, extad_parse f14, ts_parse f16,
            entity_parse f15, entity_parse f17 with
      | Some c1, Some c2, Some va, Some vc, Some rd, Some ai, Some ii =>
          Some (mk_pvd (dle32 f1) (dle32 f2) f3 (dle16 f6) (dle16 f7) f10 c1 c2 va vc ai rd ii f18
                       (dle32 f19) (dle16 f20))
      | _, _, _, _, _, _, _ => None
      end
  | _ => None
  end.
Definition pvd_record (d : utag * pvd) := desc_record (fst d) (pvd_body (snd d)).
Definition pvd_parse := desc_parse 1 pvd_parse_body.

(* ---- UDFImplementationUseVolumeDescriptor: FMT '<16sL32s460s', tag 4;
        its ImplementationUse: FMT '=64s128s36s36s36s32s128s' ----------------------------------------- *)
Record iuu := mk_iuu {
  iuu_char_set : charspec; iuu_log_vol_ident : list Z; iuu_info1 : list Z; iuu_info2 : list Z;
  iuu_info3 : list Z; iuu_impl_ident : entity; iuu_impl_use : list Z }.
Record iuvd := mk_iuvd { iu_seqnum : Z; iu_impl_ident : entity; iu_impl_use : iuu }.
Definition iuu_fields (u : iuu) : list (list Z) :=
  [charspec_bytes (iuu_char_set u); pack_s 128 (iuu_log_vol_ident u); pack_s 36 (iuu_info1 u);
   pack_s 36 (iuu_info2 u); pack_s 36 (iuu_info3 u); entity_bytes (iuu_impl_ident u);
   pack_s 128 (iuu_impl_use u)].
Definition iuu_parse (data : list Z) : option iuu :=
  match split_widths [64; 128; 36; 36; 36; 32; 128]%nat data with
  | Some ([f0; f1; f2; f3; f4; f5; f6], _) =>
      match charspec_parse f0, entity_parse f5 with
      | Some c, Some e => Some (mk_iuu c f1 f2 f3 f4 e f6)
      | _, _ => None
      end
  | _ => None
  end.
Definition iuvd_fields (d : iuvd) : list (list Z) :=
  [le32 (iu_seqnum d); entity_bytes (iu_impl_ident d); concat (iuu_fields (iu_impl_use d))].
Definition iuvd_ok (d : iuvd) : bool :=
  u32_ok (iu_seqnum d) && entity_ok (iu_impl_ident d) && charspec_ok (iuu_char_set (iu_impl_use d)) &&
  entity_ok (iuu_impl_ident (iu_impl_use d)).
Definition iuvd_body (d : iuvd) : option (list Z) := body_of (iuvd_ok d) (iuvd_fields d).
(* raises when impl_ident.identifier[:12] != b'*UDF LV Info' *)
Definition iuvd_parse_body (data : list Z) : option iuvd :=
  match split_widths [16; 4; 32; 460]%nat data with
  | Some ([_; f1; f2; f3], _) =>
      match entity_parse f2 with
      | Some e => if negb (zlist_eqb (firstn 12 (en_ident e)) str_udf_lv_info) then None else
                  match iuu_parse f3 with Some u => Some (mk_iuvd (dle32 f1) e u) | None => None end
      | None => None
      end
  | _ => None
  end.
Definition iuvd_record (d : utag * iuvd) := desc_record (fst d) (iuvd_body (snd d)).
Definition iuvd_parse := desc_parse 4 iuvd_parse_body.

(* ---- UDFPartitionHeaderDescriptor: FMT '=8s8s8s8s8s88s' (five UDFShortAD) ----------------------- *)
Record parthdr := mk_parthdr {
  ph_unalloc_table : shortad; ph_unalloc_bitmap : shortad; ph_integrity_table : shortad;
  ph_freed_table : shortad; ph_freed_bitmap : shortad }.
Definition parthdr_new : parthdr :=
  let z := mk_shortad 0 0 0 in mk_parthdr z z z z z.
Definition parthdr_ok (h : parthdr) : bool :=
  sad_ok (ph_unalloc_table h) && sad_ok (ph_unalloc_bitmap h) && sad_ok (ph_integrity_table h) &&
  sad_ok (ph_freed_table h) && sad_ok (ph_freed_bitmap h).
Definition parthdr_fields (h : parthdr) : list (list Z) :=
  [sad_bytes (ph_unalloc_table h); sad_bytes (ph_unalloc_bitmap h); sad_bytes (ph_integrity_table h);
   sad_bytes (ph_freed_table h); sad_bytes (ph_freed_bitmap h); zeros 88].
Definition parthdr_parse (data : list Z) : option parthdr :=
  match split_widths [8; 8; 8; 8; 8; 88]%nat data with
  | Some ([f0; f1; f2; f3; f4; _], _) =>
      match shortad_parse f0, shortad_parse f1, shortad_parse f2, shortad_parse f3, shortad_parse f4 with
      | Some a0, Some a1, Some a2, Some a3, Some a4 => Some (mk_parthdr a0 a1 a2 a3 a4)
      | _, _, _, _, _ => None
      end
  | _ => None
  end.

(* ---- UDFPartitionVolumeDescriptor: FMT '<16sLHH32s128sLLL32s128s156s', tag 5 -------------------- *)
Record partvd := mk_partvd {
  pt_seqnum : Z; pt_flags : Z; pt_num : Z; pt_contents : entity; pt_contents_use : parthdr;
  pt_access_type : Z; pt_start : Z; pt_length : Z; pt_impl_ident : entity; pt_impl_use : list Z }.
Definition part_new (version : Z) : option (utag * partvd) :=
  let mk c := match c, entity_new 0 str_pycdlib [] with
              | Some pc, Some ii => Some (tag_new 5 0, mk_partvd 2 1 0 pc parthdr_new 1 0 3 ii (zeros 128))
              | _, _ => None
              end in
  if version =? 2 then mk (entity_new 2 [43; 78; 83; 82; 48; 50] [])
  else if version =? 3 then mk (entity_new 2 [43; 78; 83; 82; 48; 51] []) else None.
Definition part_with (p : partvd) (start length : Z) : partvd :=
  mk_partvd (pt_seqnum p) (pt_flags p) (pt_num p) (pt_contents p) (pt_contents_use p) (pt_access_type p)
            start length (pt_impl_ident p) (pt_impl_use p).
(* set_start_location(new_location) ;  "part_length += n" / "-= n" of pycdlib._finish_add/_finish_remove *)
Definition part_set_start_location (p : partvd) (new_location : Z) : partvd := part_with p new_location (pt_length p).
Definition part_add_length (p : partvd) (n : Z) : partvd := part_with p (pt_start p) (pt_length p + n).
(* a partition-relative block number L (a FE / FID tag_location) is inside the partition; its sector *)
Definition part_contains (p : partvd) (L : Z) : bool := (0 <=? L) && (L <? pt_length p).
Definition abs_sector (p : partvd) (L : Z) : Z := pt_start p + L.
Definition part_fields (p : partvd) : list (list Z) :=
  [le32 (pt_seqnum p); le16 (pt_flags p); le16 (pt_num p); entity_bytes (pt_contents p);
   concat (parthdr_fields (pt_contents_use p)); le32 (pt_access_type p); le32 (pt_start p);
   le32 (pt_length p); entity_bytes (pt_impl_ident p); pack_s 128 (pt_impl_use p); zeros 156].
Definition part_ok (p : partvd) : bool :=
  u32_ok (pt_seqnum p) && u16_ok (pt_flags p) && u16_ok (pt_num p) && entity_ok (pt_contents p) &&
  parthdr_ok (pt_contents_use p) && u32_ok (pt_access_type p) && u32_ok (pt_start p) &&
  u32_ok (pt_length p) && entity_ok (pt_impl_ident p).
Definition part_body (p : partvd) : option (list Z) := body_of (part_ok p) (part_fields p).
(* raises: part_flags not in (0, 1); part_contents.identifier[:6] not one of the five; access_type > 0x1f *)
Definition part_parse_body (data : list Z) : option partvd :=
  match split_widths [16; 4; 2; 2; 32; 128; 4; 4; 4; 32; 128; 156]%nat data with
  | Some ([_; f1; f2; f3; f4; f5; f6; f7; f8; f9; f10; _], _) =>
      if negb ((dle16 f2 =? 0) || (dle16 f2 =? 1)) then None else
      match entity_parse f4 with
      | Some pc =>
          if negb (existsb (zlist_eqb (firstn 6 (en_ident pc))) str_part_contents) then None else
          if dle32 f6 >? 31 then None else
          match parthdr_parse f5, entity_parse f9 with
          | Some h, Some ii => Some (mk_partvd (dle32 f1) (dle16 f2) (dle16 f3) pc h (dle32 f6) (dle32 f7)
                                               (dle32 f8) ii f10)
          | _, _ => None
          end
      | None => None
      end
  | _ => None
  end.
Definition part_record (d : utag * partvd) := desc_record (fst d) (part_body (snd d)).
Definition part_parse := desc_parse 5 part_parse_body.

(* ---- UDFType0/1/2PartitionMap: '=BB' + data, '<BBHH', '=BB62s' ---------------------------------- *)
Inductive pmap : Type :=
  | PMap0 (data : list Z)
  | PMap1 (vol_seqnum part_num : Z)
  | PMap2 (part_ident : list Z).
Definition pmap_new (partmaptype : Z) : option pmap :=
  if partmaptype =? 0 then Some (PMap0 []) else if partmaptype =? 1 then Some (PMap1 1 0)
  else if partmaptype =? 2 then Some (PMap2 (zeros 62)) else None.
Definition pmap_ok (m : pmap) : bool :=
  match m with PMap0 d => u8_ok (2 + zlen d) | PMap1 v p => u16_ok v && u16_ok p | PMap2 _ => true end.
Definition pmap_bytes (m : pmap) : list Z :=
  match m with
  | PMap0 d => [0; 2 + zlen d] ++ d
  | PMap1 v p => [1; 6] ++ le16 v ++ le16 p
  | PMap2 i => [2; 64] ++ pack_s 62 i
  end.
(* partmapN.parse(data) with data = partition_maps[offset:offset + map_len] *)
Definition pmap_parse (map_type : Z) (data : list Z) : option pmap :=
  if map_type =? 0 then
    match split_widths [1; 1]%nat data with
    | Some ([_; g1], rest) => if negb (d8 g1 =? zlen data) then None else Some (PMap0 rest)
    | _ => None
    end
  else if map_type =? 1 then
    match split_widths [1; 1; 2; 2]%nat data with
    | Some ([_; g1; g2; g3], _) => if negb (d8 g1 =? 6) then None else Some (PMap1 (dle16 g2) (dle16 g3))
    | _ => None
    end
  else if map_type =? 2 then
    match split_widths [1; 1; 62]%nat data with
    | Some ([_; g1; g2], _) => if negb (d8 g1 =? 64) then None else Some (PMap2 g2)
    | _ => None
    end
  else None.
(* the loop "for p in range(num_partition_maps)"; [s] = partition_maps[offset:], [left] = map_table_length_left *)
Fixpoint pmaps_parse (n : nat) (s : list Z) (left : Z) : option (list pmap) :=
  match n with
  | O => Some []
  | S k =>
      match split_widths [1; 1]%nat s with                       (* struct.unpack_from('=BB', partition_maps, offset) *)
      | Some ([g0; g1], _) =>
          let map_len := d8 g1 in
          if map_len >? zlen s then None else if map_len >? left then None else
          match pmap_parse (d8 g0) (firstn (Z.to_nat map_len) s),
                pmaps_parse k (skipn (Z.to_nat map_len) s) (left - map_len) with
          | Some m, Some r => Some (m :: r)
          | _, _ => None
          end
      | _ => None
      end
  end.

(* ---- UDFLogicalVolumeDescriptor: FMT '<16sL64s128sL32s16sLL32s128s8s72s', tag 6 ------------------ *)
Record lvd := mk_lvd {
  lv_seqnum : Z; lv_char_set : charspec; lv_ident : list Z; lv_domain : entity; lv_contents_use : longad;
  lv_impl_ident : entity; lv_impl_use : list Z; lv_integrity : extent_ad; lv_maps : list pmap }.
(* utils.zero_pad(fp, data_size, 72): number of zero bytes written *)
Definition zero_pad_len (data_size pad_size : Z) : Z :=
  let padbytes := pad_size - data_size mod pad_size in if padbytes =? pad_size then 0 else padbytes.
Definition lvd_all_partmaps (d : lvd) : list Z := concat (map pmap_bytes (lv_maps d)).
Definition lvd_fields (d : lvd) : list (list Z) :=
  let all_partmaps := lvd_all_partmaps d in
  [le32 (lv_seqnum d); charspec_bytes (lv_char_set d); pack_s 128 (lv_ident d); le32 2048;
   entity_bytes (lv_domain d); lad_bytes (lv_contents_use d); le32 (zlen all_partmaps);
   le32 (zlen (lv_maps d)); entity_bytes (lv_impl_ident d); pack_s 128 (lv_impl_use d);
   extad_bytes (lv_integrity d);
   pack_s 72 (all_partmaps ++ zeros (Z.to_nat (zero_pad_len (zlen all_partmaps) 72)))].
Definition lvd_ok (d : lvd) : bool :=
  u32_ok (lv_seqnum d) && charspec_ok (lv_char_set d) && entity_ok (lv_domain d) &&
  lad_ok (lv_contents_use d) && forallb pmap_ok (lv_maps d) && u32_ok (zlen (lvd_all_partmaps d)) &&
  u32_ok (zlen (lv_maps d)) && entity_ok (lv_impl_ident d) && extad_ok (lv_integrity d).
Definition lvd_body (d : lvd) : option (list Z) := body_of (lvd_ok d) (lvd_fields d).
(* raises: logical_block_size != 2048; domain_ident.identifier[:19] != b'*OSTA UDF Compliant';
   map_table_length >= len(partition_maps) (= 72); the partition map loop.  Every iteration of that loop
   consumes at least 2 of the 72 bytes or raises, so more than 36 maps always raise (guard below: keeps
   Z.to_nat small). *)
Definition lvd_parse_body (data : list Z) : option lvd :=
  match split_widths [16; 4; 64; 128; 4; 32; 16; 4; 4; 32; 128; 8; 72]%nat data with
  | Some ([_; f1; f2; f3; f4; f5; f6; f7; f8; f9; f10; f11; f12], _) =>
      if negb (dle32 f4 =? 2048) then None else
      if dle32 f7 >=? zlen f12 then None else
      if dle32 f8 >? 36 then None else
      match charspec_parse f2, entity_parse f5, entity_parse f9, extad_parse f11, longad_parse f6,
            pmaps_parse (Z.to_nat (dle32 f8)) f12 (dle32 f7) with
      | Some c, Some dom, Some ii, Some integ, Some cu, Some maps =>
          if negb (zlist_eqb (firstn 19 (en_ident dom)) str_osta_compliant) then None else
          Some (mk_lvd (dle32 f1) c f3 dom cu ii f10 integ maps)
      | _, _, _, _, _, _ => None
      end
  | _ => None
  end.
(* set_integrity_location(integrity_extent) *)
Definition lvd_set_integrity_location (d : lvd) (integrity_extent : Z) : lvd :=
  mk_lvd (lv_seqnum d) (lv_char_set d) (lv_ident d) (lv_domain d) (lv_contents_use d) (lv_impl_ident d)
         (lv_impl_use d) (mk_extent_ad (ea_length (lv_integrity d)) integrity_extent) (lv_maps d).
Definition lvd_record (d : utag * lvd) := desc_record (fst d) (lvd_body (snd d)).
Definition lvd_parse := desc_parse 6 lvd_parse_body.

(* ---- UDFUnallocatedSpaceDescriptor: FMT '<16sLL488s', tag 7 --------------------------------------- *)
Record usd := mk_usd { us_seqnum : Z; us_num : Z; us_descs : list extent_ad }.
Definition usd_new : utag * usd := (tag_new 7 0, mk_usd 4 0 []).
Definition usd_fields (d : usd) : list (list Z) :=
  let alloc_desc_bytes := concat (map extad_bytes (us_descs d)) in
  [le32 (us_seqnum d); le32 (us_num d);
   pack_s 488 (alloc_desc_bytes ++ zeros (Z.to_nat (488 - zlen alloc_desc_bytes)))].
Definition usd_ok (d : usd) : bool :=
  u32_ok (us_seqnum d) && u32_ok (us_num d) && forallb extad_ok (us_descs d).
Definition usd_body (d : usd) : option (list Z) := body_of (usd_ok d) (usd_fields d).
(* for num in range(n): extent_ad.parse(alloc_descs[8 * num : 8 * num + 8]); [s] = alloc_descs[8 * num:] *)
Fixpoint extads_parse (n : nat) (s : list Z) : option (list extent_ad) :=
  match n with
  | O => Some []
  | S k => match extad_parse (firstn 8 s), extads_parse k (skipn 8 s) with
           | Some a, Some r => Some (a :: r)
           | _, _ => None
           end
  end.
Definition usd_parse_body (data : list Z) : option usd :=          (* num_alloc_descriptors * 8 > 488 raises *)
  match split_widths [16; 4; 4; 488]%nat data with
  | Some ([_; f1; f2; f3], _) =>
      if dle32 f2 * 8 >? zlen f3 then None else
      match extads_parse (Z.to_nat (dle32 f2)) f3 with
      | Some ds => Some (mk_usd (dle32 f1) (dle32 f2) ds)
      | None => None
      end
  | _ => None
  end.
Definition usd_record (d : utag * usd) := desc_record (fst d) (usd_body (snd d)).
Definition usd_parse := desc_parse 7 usd_parse_body.

(* ---- UDFTerminatingDescriptor: FMT '=16s496s', tag 8; parse(extent, desc_tag) reads no data ------ *)
Definition td_new : utag * unit := (tag_new 8 0, tt).
Definition td_body (_ : unit) : option (list Z) := Some (zeros 496).
Definition td_parse_body (_ : list Z) : option unit := Some tt.
(* set_extent_location(new_location, tag_location=-1) *)
Definition td_set_extent_location (d : utag * unit) (new_location tag_location : Z) : utag * unit :=
  (tag_set_location (fst d) (if tag_location <? 0 then new_location else tag_location), tt).
Definition td_record (d : utag * unit) := desc_record (fst d) (td_body (snd d)).
Definition td_parse := desc_parse 8 td_parse_body.

(* ---- UDFLogicalVolumeImplementationUse: FMT '<32sLLHHH' + impl_use ------------------------------- *)
Record lvimpl := mk_lvimpl {
  lu_impl_id : entity; lu_num_files : Z; lu_num_dirs : Z; lu_min_read : Z; lu_min_write : Z;
  lu_max_write : Z; lu_impl_use : list Z }.
Definition lvimpl_new : option lvimpl :=
  match entity_new 0 str_pycdlib [] with
  | Some e => Some (mk_lvimpl e 0 1 258 258 258 (zeros 378))
  | None => None
  end.
Definition lvimpl_ok (u : lvimpl) : bool :=
  entity_ok (lu_impl_id u) && u32_ok (lu_num_files u) && u32_ok (lu_num_dirs u) && u16_ok (lu_min_read u) &&
  u16_ok (lu_min_write u) && u16_ok (lu_max_write u).
Definition lvimpl_bytes (u : lvimpl) : list Z :=
  entity_bytes (lu_impl_id u) ++ le32 (lu_num_files u) ++ le32 (lu_num_dirs u) ++ le16 (lu_min_read u) ++
  le16 (lu_min_write u) ++ le16 (lu_max_write u) ++ lu_impl_use u.
Definition lvimpl_parse (data : list Z) : option lvimpl :=         (* impl_use = data[46:] *)
  match split_widths [32; 4; 4; 2; 2; 2]%nat data with
  | Some ([f0; f1; f2; f3; f4; f5], rest) =>
      match entity_parse f0 with
      | Some e => Some (mk_lvimpl e (dle32 f1) (dle32 f2) (dle16 f3) (dle16 f4) (dle16 f5) rest)
      | None => None
      end
  | _ => None
  end.
Definition lvimpl_with_counts (u : lvimpl) (num_files num_dirs : Z) : lvimpl :=
  mk_lvimpl (lu_impl_id u) num_files num_dirs (lu_min_read u) (lu_min_write u) (lu_max_write u) (lu_impl_use u).

(* ---- UDFLogicalVolumeIntegrityDescriptor: FMT '<16s12sL8s32sLL432s', tag 9;
        logical_volume_contents_use is a UDFLogicalVolumeHeaderDescriptor, FMT '<Q24s' (unique_id) ---- *)
Record lvid := mk_lvid {
  li_date : tstamp; li_type : Z; li_next : extent_ad; li_unique_id : Z; li_num_partitions : Z;
  li_length_impl_use : Z; li_free : list Z; li_size : list Z; li_impl : lvimpl }.
Definition lvid_new (recording_date : tstamp) : option (utag * lvid) :=
  match lvimpl_new with
  | Some u => Some (tag_new 9 0, mk_lvid recording_date 1 (mk_extent_ad 0 0) 261 1 46 [0] [3] u)
  | None => None
  end.
Definition lvid_end (d : lvid) : list Z :=
  concat (map le32 (li_free d)) ++ concat (map le32 (li_size d)) ++ lvimpl_bytes (li_impl d).
Definition lvid_fields (d : lvid) : list (list Z) :=
  [ts_bytes (li_date d); le32 (li_type d); extad_bytes (li_next d); le64 (li_unique_id d) ++ zeros 24;
   le32 (li_num_partitions d); le32 (li_length_impl_use d); pack_s 432 (lvid_end d)].
Definition lvid_ok (d : lvid) : bool :=
  ts_ok (li_date d) && u32_ok (li_type d) && extad_ok (li_next d) && u64_ok (li_unique_id d) &&
  u32_ok (li_num_partitions d) && u32_ok (li_length_impl_use d) && forallb u32_ok (li_free d) &&
  forallb u32_ok (li_size d) && lvimpl_ok (li_impl d).
Definition lvid_body (d : lvid) : option (list Z) := body_of (lvid_ok d) (lvid_fields d).
(* n times: struct.unpack_from('<L', end[:end_offset + 4], end_offset); end_offset += 4.  [s] = end[end_offset:] *)
Fixpoint le32s_parse (n : nat) (s : list Z) : option (list Z * list Z) :=
  match n with
  | O => Some ([], s)
  | S k => if (length s <? 4)%nat then None else
           match le32s_parse k (skipn 4 s) with
           | Some (vs, rest) => Some (dle32 (firstn 4 s) :: vs, rest)
           | None => None
           end
  end.
(* raises: integrity_type not in (0, 1); a table read past the 432 bytes (always the case when
   num_partitions > 54: guard, keeps Z.to_nat small); len(end[end_offset:]) < length_impl_use *)
Definition lvid_parse_body (data : list Z) : option lvid :=
  match split_widths [16; 12; 4; 8; 32; 4; 4; 432]%nat data with
  | Some ([_; f1; f2; f3; f4; f5; f6; f7], _) =>
      if negb ((dle32 f2 =? 0) || (dle32 f2 =? 1)) then None else
      if dle32 f5 >? 54 then None else
      match ts_parse f1, extad_parse f3, le32s_parse (Z.to_nat (dle32 f5)) f7 with
      | Some rd, Some nx, Some (free, s1) =>
          match le32s_parse (Z.to_nat (dle32 f5)) s1 with
          | Some (size, s2) =>
              if zlen s2 <? dle32 f6 then None else
              match lvimpl_parse s2 with
              | Some u => Some (mk_lvid rd (dle32 f2) nx (dle64 (firstn 8 f4)) (dle32 f5) (dle32 f6) free size u)
              | None => None
              end
          | None => None
          end
      | _, _, _ => None
      end
  | _ => None
  end.
Definition lvid_record (d : utag * lvid) := desc_record (fst d) (lvid_body (snd d)).
Definition lvid_parse := desc_parse 9 lvid_parse_body.

(* ---- UDFFileSetDescriptor: FMT '<16s12sHHLLLL64s128s64s32s32s32s16s32s16s16s32s', tag 256 ---------- *)
Record fsd := mk_fsd {
  fs_date : tstamp; fs_num : Z; fs_lv_char_set : charspec; fs_lv_ident : list Z; fs_char_set : charspec;
  fs_ident : list Z; fs_copyright : list Z; fs_abstract : list Z; fs_root_icb : longad; fs_domain : entity;
  fs_next : longad; fs_sysstream : longad }.
Definition fsd_fields (d : fsd) : list (list Z) :=
  [ts_bytes (fs_date d); le16 3; le16 3; le32 1; le32 1; le32 (fs_num d); le32 0;
   charspec_bytes (fs_lv_char_set d); pack_s 128 (fs_lv_ident d); charspec_bytes (fs_char_set d);
   pack_s 32 (fs_ident d); pack_s 32 (fs_copyright d); pack_s 32 (fs_abstract d);
   lad_bytes (fs_root_icb d); entity_bytes (fs_domain d); lad_bytes (fs_next d); lad_bytes (fs_sysstream d);
   zeros 32].
Definition fsd_ok (d : fsd) : bool :=
  ts_ok (fs_date d) && u32_ok (fs_num d) && charspec_ok (fs_lv_char_set d) && charspec_ok (fs_char_set d) &&
  lad_ok (fs_root_icb d) && entity_ok (fs_domain d) && lad_ok (fs_next d) && lad_ok (fs_sysstream d).
Definition fsd_body (d : fsd) : option (list Z) := body_of (fsd_ok d) (fsd_fields d).
(* raises: interchange levels != 3, char set lists != 1, file_set_desc_num != 0,
   domain_ident.identifier[:19] != b'*OSTA UDF Compliant' *)
Definition fsd_parse_body (data : list Z) : option fsd :=
  match split_widths [16; 12; 2; 2; 4; 4; 4; 4; 64; 128; 64; 32; 32; 32; 16; 32; 16; 16; 32]%nat data with
  | Some ([_; f1; f2; f3; f4; f5; f6; f7; f8; f9; f10; f11; f12; f13; f14; f15; f16; f17; _], _) =>
      if negb (dle16 f2 =? 3) || negb (dle16 f3 =? 3) || negb (dle32 f4 =? 1) || negb (dle32 f5 =? 1) ||
         negb (dle32 f7 =? 0) then None else
      match ts_parse f1, charspec_parse f8, charspec_parse f10, entity_parse f15, longad_parse f14,
            longad_parse f16, longad_parse f17 with
      | Some rd, Some c1, Some c2, Some dom, Some root, Some nx, Some ss =>
          if negb (zlist_eqb (firstn 19 (en_ident dom)) str_osta_compliant) then None else
          Some (mk_fsd rd (dle32 f6) c1 f9 c2 f11 f12 f13 root dom nx ss)
      | _, _, _, _, _, _, _ => None
      end
  | _ => None
  end.
Definition fsd_record (d : utag * fsd) := desc_record (fst d) (fsd_body (snd d)).
Definition fsd_parse := desc_parse 256 fsd_parse_body.

(* ---- checker for the external harness -------------------------------------------------------------- *)
Definition check_desc {P} (ident : Z) (pb : list Z -> option P) (body : P -> option (list Z))
                      (location : Z) (b : list Z) : bool :=
  match desc_parse ident pb b location with
  | Some (t, p) => reencodes_to (desc_record t (body p)) b && verify_tag b
  | None => false
  end.
Definition check_vrs (parse : list Z -> option (list Z)) (b : list Z) : bool :=
  match parse b with Some id => reencodes_to (Some (vrs_record id)) b | None => false end.
(* kind: 0 anchor, 1 PVD, 2 impl-use VD, 3 partition, 4 logical volume, 5 unallocated space, 6 terminating,
   7 integrity, 8 file set (location = 0: its tag is partition-relative), 9 BEA, 10 NSR, 11 TEA.
   Decode with the tag parsed at extent = location, re-record, compare with the input (trailing zeros
   allowed) and run the independent verify_tag on the input. *)
Definition check_vds_bytes (kind location : Z) (b : list Z) : bool :=
  if kind =? 0 then check_desc 2 anchor_parse_body anchor_body location b
  else if kind =? 1 then check_desc 1 pvd_parse_body pvd_body location b
  else if kind =? 2 then check_desc 4 iuvd_parse_body iuvd_body location b
  else if kind =? 3 then check_desc 5 part_parse_body part_body location b
  else if kind =? 4 then check_desc 6 lvd_parse_body lvd_body location b
  else if kind =? 5 then check_desc 7 usd_parse_body usd_body location b
  else if kind =? 6 then check_desc 8 td_parse_body td_body location b
  else if kind =? 7 then check_desc 9 lvid_parse_body lvid_body location b
  else if kind =? 8 then check_desc 256 fsd_parse_body fsd_body location b
  else if kind =? 9 then check_vrs bea_parse b
  else if kind =? 10 then check_vrs nsr_parse b
  else if kind =? 11 then check_vrs tea_parse b
  else false.
Definition bad_vds_cases (k : nat) (cs : list (Z * Z * list Z)) : list nat :=
  bad_idx (fun '(kind, loc, b) => check_vds_bytes kind loc b) k cs.
