(* C01 / C07 -- the space accounting state machine for an image with TWO namespaces sharing
   inodes: ISO9660 (interchange level 3, no Rock Ridge) and Joliet, i.e. PyCdlib.new(
   interchange_level=3, joliet=3).  Same fragment otherwise as Model/AccountLinks.v (no UDF, no
   El Torito, no XA, block size 2048, file length in [0, 0xfffff800]); Joliet names are ASCII.

   Sources modelled (/repo/pycdlib/pycdlib.py): new (joliet part), add_fp / _add_fp /
   _add_hard_link_to_inode (iso_new_path and joliet_new_path), add_directory / _add_joliet_dir,
   add_hard_link (iso_old_path / joliet_old_path, iso_new_path / joliet_new_path), rm_hard_link,
   rm_file / _rm_file_inodes / _rm_dr_link, rm_directory / _rm_joliet_dir,
   _joliet_name_and_parent_from_path, _finish_add / _finish_remove (BOTH descriptors),
   _reshuffle_extents (PVD, SVD, terminator, version block; PVD path tables, Joliet path tables;
   ISO directories, Joliet directories; file data once per inode).

   The multi-namespace calls validate the Joliet part AFTER the ISO9660 part has been applied
   (known findings c14:*:joliet:late).  This is modelled as it is: such a call is refused
   (PyCdlibInvalidInput) but the state has changed -- outcome [NLate].

   The tree type lnode and everything about one tree come from Model/AccountLinks.v.
   An operation takes its sequence number k in the history: the inode created by the k-th
   operation is k, its records carry the stamps 2k (ISO9660) and 2k+1 (Joliet).
   Definitions only. *)
From Coq Require Import ZArith List Bool Arith.
From PV.Base Require Import Prim.
From PV.Gen Require Import GenConst GenFun.
From PV.Model Require Import Names Pack Alloc Account AccountLinks.
From PV.Spec Require FsSpec.
Import ListNotations.
Local Open Scope Z_scope.

(* ---- one tree: the four mutations; None = PyCdlibInvalidInput before the tree is touched ---- *)

(* new_file + _add_child_to_dr: (new tree, bytes the directory grew by) *)
Definition t_add_node (t : lnode) (dirp : path) (c : lnode) : option (lnode * Z) :=
  match lsubtree dirp t with
  | Some (LDir dn dl kids) =>
      let nm := lname c in
      let x := dr_len_of nm in
      if x >? 255 then None                                   (* 'Identifier is too long' *)
      else
        match llookup nm kids with
        | Some _ => None                                      (* duplicate name *)
        | None =>
            let k := pos nm (map lname kids) in
            let d := ldir_st dl kids in
            Some (lreplace dirp (LDir dn (dlen (dir_add C d (2 + k) x)) (insert_at k c kids)) t,
                  if add_overflows d (2 + k) x then C else 0)
        end
  | _ => None                                                 (* no such directory / a file *)
  end.

Definition t_add_rec (t : lnode) (dirp : path) (nm : ident) (ino st : nat) :=
  t_add_node t dirp (LFile nm ino st).
Definition t_add_dir (t : lnode) (dirp : path) (nm : ident) := t_add_node t dirp (LDir nm C []).

(* the kid named nm of the directory at dirp, with the pieces needed to remove it *)
Definition t_find (t : lnode) (dirp : path) (nm : ident) : option (ident * Z * list lnode * nat * lnode) :=
  match lsubtree dirp t with
  | Some (LDir dn dl kids) =>
      match llookup nm kids with Some (k, c) => Some (dn, dl, kids, k, c) | None => None end
  | _ => None
  end.

(* _remove_child_from_dr: (new tree, bytes the directory shrank by) *)
Definition t_remove (t : lnode) (dirp : path) (dn : ident) (dl : Z) (kids : list lnode) (k : nat)
  : lnode * Z :=
  let d := ldir_st dl kids in
  (lreplace dirp (LDir dn (dlen (dir_remove C d (2 + k))) (remove_at k kids)) t,
   if rm_underflows d (2 + k) then C else 0).

(* a file record: (new tree, shrink, inode) *)
Definition t_rm_rec (t : lnode) (dirp : path) (nm : ident) : option (lnode * Z * nat) :=
  match t_find t dirp nm with
  | Some (dn, dl, kids, k, LFile _ i _) =>
      let '(t', sh) := t_remove t dirp dn dl kids k in Some (t', sh, i)
  | _ => None                                    (* not found / 'Cannot remove a directory' *)
  end.

(* an empty directory: (new tree, shrink, its data_length, its identifier) *)
Definition t_rm_dir (t : lnode) (p : path) : option (lnode * Z * Z * ident) :=
  match unsnoc p with
  | None => None                                 (* the root *)
  | Some (q, y) =>
      match t_find t q y with
      | Some (dn, dl, kids, k, LDir cn cdl []) =>
          let '(t', sh) := t_remove t q dn dl kids k in Some (t', sh, cdl, cn)
      | _ => None                                (* not found / a file / not empty *)
      end
  end.

(* ---- names ---------------------------------------------------------------------------------- *)

(* name.decode('utf-8').encode('utf-16_be') for an ASCII name *)
Definition utf16 (nm : ident) : ident := flat_map (fun b => [0; b]) nm.
Definition jpath (p : path) : path := map utf16 p.

(* the state-independent tests of the ISO9660 side: _check_path_depth, _check_iso9660_filename /
   _check_iso9660_directory; of the Joliet side: 'Joliet names can be a maximum of 64 characters' *)
Definition outcome_is_accept (o : Names.outcome) : bool := match o with Accept => true | _ => false end.
Definition iso_file_legal (dirp : path) (nm : ident) : bool :=
  negb (too_deep dirp) && outcome_is_accept (check_iso9660_filename nm 3).
Definition iso_dir_legal (dirp : path) (nm : ident) : bool :=
  negb (too_deep dirp) && outcome_is_accept (check_iso9660_directory nm 3).
Definition jol_legal (nm : ident) : bool := zlen nm <=? 64.

(* ---- state ----------------------------------------------------------------------------------- *)

Record nstate := {
  niso : lnode; njol : lnode;              (* the two directory hierarchies *)
  ninodes : itable;                        (* self.inodes *)
  norphans : itable;                       (* Inode objects that a late refusal left attached to a
                                              record without ever entering self.inodes *)
  ips : Z; ipe : Z;                        (* pvd.path_tbl_size, pvd.path_table_num_extents *)
  jps : Z; jpe : Z;                        (* joliet_vd. ... *)
  ispace : Z; jspace : Z }.                (* pvd.space_size, joliet_vd.space_size *)

(* both descriptors start at 17 (PrimaryOrSupplementaryVD.new); PyCdlib.new: _finish_add(SVD block
   + terminator + version block, twice (4 path table blocks + root directory block)) *)
Definition ninit : nstate :=
  let sp := 17 + ceiling_div ((C + C + C) + ((4 * C + C) + (4 * C + C))) C in
  {| niso := LDir [0] C []; njol := LDir [0] C []; ninodes := []; norphans := [];
     ips := 10; ipe := ceiling_div 10 4096 * 2; jps := 10; jpe := ceiling_div 10 4096 * 2;
     ispace := sp; jspace := sp |}.

Inductive nns := NIso | NJol.

Inductive nop :=
| NAddFile (iso : option (path * ident)) (jol : option (path * ident)) (len : Z)
     (* add_fp(fp, len, iso_path=dir/name, joliet_path=dir/name) *)
| NAddDir (iso : option (path * ident)) (jol : option (path * ident))
| NAddLink (sns : nns) (src : path) (dns : nns) (dir : path) (name : ident)
     (* add_hard_link(<sns>_old_path=src, <dns>_new_path=dir/name) *)
| NRmLink (ns : nns) (dir : path) (name : ident)
| NRmFile (ns : nns) (dir : path) (name : ident)
| NRmDir (iso : option path) (jol : option path).

(* NOk: done.  NRefused: PyCdlibInvalidInput, nothing changed.  NLate: PyCdlibInvalidInput raised by
   the Joliet part after the ISO9660 part had been applied. *)
Inductive nout := NOk | NRefused | NLate.

Definition tree_of (s : nstate) (n : nns) : lnode := match n with NIso => niso s | NJol => njol s end.
Definition ns_path (n : nns) (p : path) : path := match n with NIso => p | NJol => jpath p end.
Definition ns_name (n : nns) (nm : ident) : ident := match n with NIso => nm | NJol => utf16 nm end.
Definition ns_file_legal (n : nns) (dirp : path) (nm : ident) : bool :=
  match n with NIso => iso_file_legal dirp nm | NJol => jol_legal nm end.

Definition set_trees (s : nstate) (ti tj : lnode) (tbl : itable) (sp : Z) : nstate :=
  {| niso := ti; njol := tj; ninodes := tbl; norphans := norphans s;
     ips := ips s; ipe := ipe s; jps := jps s; jpe := jpe s;
     ispace := sp; jspace := jspace s + (sp - ispace s) |}.

Definition add_orphan (s : nstate) (e : nat * Z) : nstate :=
  {| niso := niso s; njol := njol s; ninodes := ninodes s; norphans := norphans s ++ [e];
     ips := ips s; ipe := ipe s; jps := jps s; jpe := jpe s; ispace := ispace s; jspace := jspace s |}.

Definition set_tree (s : nstate) (n : nns) (t : lnode) : lnode * lnode :=
  match n with NIso => (t, njol s) | NJol => (niso s, t) end.

Definition stamp_i (k : nat) : nat := (2 * k)%nat.
Definition stamp_j (k : nat) : nat := S (2 * k).

(* add_fp: ino = Inode(); ISO9660 record; Joliet record; self.inodes.append(ino);
   _finish_add(0, len + growths) *)
Definition nstep_add_file (k : nat) (s : nstate) (iso jol : option (path * ident)) (len : Z)
  : nstate * nout :=
  match iso, jol with
  | None, None => (s, NRefused)
  | _, _ =>
      if negb ((0 <=? len) && (len <=? max_len)) then (s, NRefused)     (* outside the fragment *)
      else
        let r1 := match iso with
                  | Some (d, n) => if iso_file_legal d n then t_add_rec (niso s) d n k (stamp_i k) else None
                  | None => Some (niso s, 0)
                  end in
        match r1 with
        | None => (s, NRefused)
        | Some (t1, g1) =>
            let r2 := match jol with
                      | Some (d, n) => if jol_legal n
                                       then t_add_rec (njol s) (jpath d) (utf16 n) k (stamp_j k) else None
                      | None => Some (njol s, 0)
                      end in
            match r2 with
            | Some (t2, g2) =>
                let num_bytes_to_add := len + g1 + g2 in
                (set_trees s t1 t2 (ninodes s ++ [(k, len)])
                           (ispace s + ceiling_div (0 + num_bytes_to_add) C), NOk)
            | None =>
                match iso with
                | Some _ => (add_orphan (set_trees s t1 (njol s) (ninodes s) (ispace s)) (k, len), NLate)
                | None => (s, NRefused)
                end
            end
        end
  end.

Definition set_all (s : nstate) (ti tj : lnode) (ps pe qs qe sp : Z) : nstate :=
  {| niso := ti; njol := tj; ninodes := ninodes s; norphans := norphans s;
     ips := ps; ipe := pe; jps := qs; jpe := qe;
     ispace := sp; jspace := jspace s + (sp - ispace s) |}.

(* add_directory: ISO9660 part (record, PTR), then _add_joliet_dir, then _finish_add(0, total) *)
Definition nstep_add_dir (s : nstate) (iso jol : option (path * ident)) : nstate * nout :=
  match iso, jol with
  | None, None => (s, NRefused)
  | _, _ =>
      let r1 := match iso with
                | Some (d, n) =>
                    if iso_dir_legal d n then
                      match t_add_dir (niso s) d n with
                      | Some (t1, g1) =>
                          let '(b, ps, pe) := add_to_ptr_size (ips s) (ipe s) (ptr_record_length (zlen n)) in
                          Some (t1, ps, pe, g1 + ((if b then 4 * C else 0) + C))
                      | None => None
                      end
                    else None
                | None => Some (niso s, ips s, ipe s, 0)
                end in
      match r1 with
      | None => (s, NRefused)
      | Some (t1, ps, pe, n1) =>
          let r2 := match jol with
                    | Some (d, n) =>
                        if jol_legal n then
                          match t_add_dir (njol s) (jpath d) (utf16 n) with
                          | Some (t2, g2) =>
                              let '(b, qs, qe) :=
                                add_to_ptr_size (jps s) (jpe s) (ptr_record_length (zlen (utf16 n))) in
                              Some (t2, qs, qe, g2 + C + (if b then 4 * C else 0))
                          | None => None
                          end
                        else None
                    | None => Some (njol s, jps s, jpe s, 0)
                    end in
          match r2 with
          | Some (t2, qs, qe, n2) =>
              (set_all s t1 t2 ps pe qs qe (ispace s + ceiling_div (0 + (n1 + n2)) C), NOk)
          | None =>
              match iso with
              | Some _ => (set_all s t1 (njol s) ps pe (jps s) (jpe s) (ispace s), NLate)
              | None => (s, NRefused)
              end
          end
      end
  end.

(* add_hard_link: one old path, one new path, each in either namespace *)
Definition nstep_add_link (k : nat) (s : nstate) (sns : nns) (src : path) (dns : nns)
           (dirp : path) (nm : ident) : nstate * nout :=
  match lsubtree (ns_path sns src) (tree_of s sns) with
  | Some (LFile _ ino _) =>
      if ns_file_legal dns dirp nm then
        match t_add_rec (tree_of s dns) (ns_path dns dirp) (ns_name dns nm) ino (stamp_i k) with
        | Some (t', g) =>
            let '(ti, tj) := set_tree s dns t' in
            (set_trees s ti tj (ninodes s) (ispace s + ceiling_div (0 + g) C), NOk)
        | None => (s, NRefused)
        end
      else (s, NRefused)
  | _ => (s, NRefused)        (* 'Could not find path' / 'Cannot make a hard link to a directory' *)
  end.

(* len(inode.linked_records), over both hierarchies *)
Definition nrefcount (i : nat) (ti tj : lnode) : Z := lrefcount i ti + lrefcount i tj.

Definition nstep_rm_link (s : nstate) (n : nns) (dirp : path) (nm : ident) : nstate * nout :=
  match t_rm_rec (tree_of s n) (ns_path n dirp) (ns_name n nm) with
  | Some (t', sh, i) =>
      let '(ti, tj) := set_tree s n t' in
      let '(tbl, data) :=
        if nrefcount i ti tj =? 0 then (del_ino i (ninodes s), len_of i (ninodes s))
        else (ninodes s, 0) in
      (set_trees s ti tj tbl (ispace s - ceiling_div (sh + data) C), NOk)
  | None => (s, NRefused)
  end.

(* rm_file: every record of the inode, in both hierarchies *)
Definition nstep_rm_file (s : nstate) (n : nns) (dirp : path) (nm : ident) : nstate * nout :=
  match t_find (tree_of s n) (ns_path n dirp) (ns_name n nm) with
  | Some (_, _, _, _, LFile _ i _) =>
      let num_bytes_to_remove :=
        purge_bytes i (niso s) + purge_bytes i (njol s) + len_of i (ninodes s) in
      (set_trees s (purge_node i (niso s)) (purge_node i (njol s)) (del_ino i (ninodes s))
                 (ispace s - ceiling_div num_bytes_to_remove C), NOk)
  | _ => (s, NRefused)
  end.

(* rm_directory: ISO9660 part, then _rm_joliet_dir, then _finish_remove *)
Definition nstep_rm_dir (s : nstate) (iso jol : option path) : nstate * nout :=
  match iso, jol with
  | None, None => (s, NRefused)
  | _, _ =>
      let r1 := match iso with
                | Some p =>
                    match t_rm_dir (niso s) p with
                    | Some (t1, sh, cdl, cn) =>
                        match remove_from_ptr_size (ips s) (ipe s) (ptr_record_length (zlen cn)) with
                        | Some (b, ps, pe) => Some (t1, ps, pe, sh + (if b then 4 * C else 0) + cdl)
                        | None => None       (* 'Extent number should never grow': unreachable *)
                        end
                    | None => None
                    end
                | None => Some (niso s, ips s, ipe s, 0)
                end in
      match r1 with
      | None => (s, NRefused)
      | Some (t1, ps, pe, n1) =>
          let r2 := match jol with
                    | Some p =>
                        match t_rm_dir (njol s) (jpath p) with
                        | Some (t2, sh, cdl, cn) =>
                            match remove_from_ptr_size (jps s) (jpe s) (ptr_record_length (zlen cn)) with
                            | Some (b, qs, qe) => Some (t2, qs, qe, cdl + sh + (if b then 4 * C else 0))
                            | None => None
                            end
                        | None => None
                        end
                    | None => Some (njol s, jps s, jpe s, 0)
                    end in
          match r2 with
          | Some (t2, qs, qe, n2) =>
              (set_all s t1 t2 ps pe qs qe (ispace s - ceiling_div (n1 + n2) C), NOk)
          | None =>
              match iso with
              | Some _ => (set_all s t1 (njol s) ps pe (jps s) (jpe s) (ispace s), NLate)
              | None => (s, NRefused)
              end
          end
      end
  end.

Definition nstep (k : nat) (s : nstate) (o : nop) : nstate * nout :=
  match o with
  | NAddFile iso jol len => nstep_add_file k s iso jol len
  | NAddDir iso jol => nstep_add_dir s iso jol
  | NAddLink sns src dns d n => nstep_add_link k s sns src dns d n
  | NRmLink n d nm => nstep_rm_link s n d nm
  | NRmFile n d nm => nstep_rm_file s n d nm
  | NRmDir iso jol => nstep_rm_dir s iso jol
  end.

Fixpoint nrun_from (k : nat) (s : nstate) (ops : list nop) : nstate :=
  match ops with
  | [] => s
  | o :: r => nrun_from (S k) (fst (nstep k s o)) r
  end.
Definition nrun (ops : list nop) : nstate := nrun_from O ninit ops.

Fixpoint nouts_from (k : nat) (s : nstate) (ops : list nop) : list nout :=
  match ops with
  | [] => []
  | o :: r => snd (nstep k s o) :: nouts_from (S k) (fst (nstep k s o)) r
  end.
Definition nouts (ops : list nop) : list nout := nouts_from O ninit ops.

(* a history without late refusals *)
Definition is_late (o : nout) : bool := match o with NLate => true | _ => false end.
Definition clean_from (k : nat) (s : nstate) (ops : list nop) : bool :=
  negb (existsb is_late (nouts_from k s ops)).
Definition clean (ops : list nop) : bool := clean_from O ninit ops.

(* ---- the from-scratch extent assignment ------------------------------------------------------ *)

Definition nvisit_i (s : nstate) : list lnode := lbfs (lnsize (niso s)) [niso s].
Definition nvisit_j (s : nstate) : list lnode := lbfs (lnsize (njol s)) [njol s].

(* every Inode object attached to some record: those of self.inodes and the orphans *)
Definition nall (s : nstate) : itable := ninodes s ++ norphans s.

(* pvd_files + joliet_files, de-duplicated *)
Definition nlaid_out (s : nstate) : list nat :=
  dedup (file_list (nall s) (nvisit_i s ++ nvisit_j s)) [].

(* system area, PVD, SVD, terminator, version block; PVD L and M path tables; Joliet L and M path
   tables; ISO9660 directories; Joliet directories; file data *)
Definition nobjects (s : nstate) : list Z :=
  [16; 1; 1; 1; 1; ipe s; ipe s; jpe s; jpe s]
    ++ map lw_dblk (filter l_is_dir (nvisit_i s))
    ++ map lw_dblk (filter l_is_dir (nvisit_j s))
    ++ map (fun i => ceiling_div (len_of i (nall s)) C) (nlaid_out s).

Definition nlayout (s : nstate) : list (Z * Z) := bump 0 (nobjects s).
Definition nlayout_end (s : nstate) : Z := bump_end 0 (nobjects s).

(* ---- harness ---------------------------------------------------------------------------------- *)

Definition nprobe (s : nstate) : list Z :=
  [ispace s; jspace s; ips s; ipe s; jps s; jpe s;
   ltotal lw_dlen (niso s); ltotal lw_dlen (njol s); Z.of_nat (length (ninodes s))].

Definition nprobe_inodes (s : nstate) : list (Z * Z) :=
  sort_pairs (map (fun e => (snd e, nrefcount (fst e) (niso s) (njol s))) (ninodes s)).

(* position of inode i in self.inodes (-1: not there) *)
Fixpoint ino_index (i : nat) (t : itable) (k : Z) : Z :=
  match t with
  | [] => -1
  | (j, _) :: r => if Nat.eqb j i then k else ino_index i r (k + 1)
  end.

(* the API view of one hierarchy, depth first, children in directory order:
   (path as list of identifiers, 0 = directory / 1 = file, index of the inode in self.inodes) *)
Fixpoint nview_kids (tbl : itable) (fuel : nat) (pre : list ident) (kids : list lnode)
  : list (list ident * Z * Z) :=
  match fuel with
  | O => []
  | S f =>
      flat_map (fun c => match c with
                         | LFile nm i _ => [(pre ++ [nm], 1, ino_index i tbl 0)]
                         | LDir nm _ ks => (pre ++ [nm], 0, 0) :: nview_kids tbl f (pre ++ [nm]) ks
                         end) kids
  end.
Definition nview_tree (tbl : itable) (t : lnode) := nview_kids tbl (lnsize t) [] (lkids t).
Definition nview (s : nstate) := (nview_tree (ninodes s) (niso s), nview_tree (ninodes s) (njol s)).

Definition nout_code (o : nout) : Z := match o with NOk => 0 | NRefused => 1 | NLate => 2 end.

Fixpoint nrun_probe_from (k : nat) (s : nstate) (ops : list nop) : list (list Z * list (Z * Z)) :=
  match ops with
  | [] => []
  | o :: r => let s' := fst (nstep k s o) in (nprobe s', nprobe_inodes s') :: nrun_probe_from (S k) s' r
  end.
Definition nrun_probe (ops : list nop) := nrun_probe_from O ninit ops.

Definition nrun_flags (ops : list nop) : list Z := map nout_code (nouts ops).

Fixpoint nrun_ends_from (k : nat) (s : nstate) (ops : list nop) : list (Z * Z) :=
  match ops with
  | [] => []
  | o :: r => let s' := fst (nstep k s o) in (ispace s', nlayout_end s') :: nrun_ends_from (S k) s' r
  end.
Definition nrun_ends (ops : list nop) : list (Z * Z) := nrun_ends_from O ninit ops.

Fixpoint nrun_views_from (k : nat) (s : nstate) (ops : list nop) :=
  match ops with
  | [] => []
  | o :: r => let s' := fst (nstep k s o) in nview s' :: nrun_views_from (S k) s' r
  end.
Definition nrun_views (ops : list nop) := nrun_views_from O ninit ops.

(* ---- the view of the abstract file-system specification (Spec/FsSpec.v) ------------------------
   abs: what the object graph looks like as an FsSpec state (ISO9660 and Joliet maps from paths to
   file-with-blob / directory; no UDF, no boot); tr: an operation as an FsSpec operation. *)

(* an identifier as an abstract name: its bytes in base 256 behind a leading 1 *)
Definition enc (nm : ident) : Z := fold_left (fun acc b => acc * 256 + b) nm 1.
Definition encp (p : path) : FsSpec.path := map enc p.
Definition blob_of_ino (i : nat) : Z := Z.of_nat i + 1.       (* blob 0 is reserved by the spec *)

Definition kind_of (c : lnode) : FsSpec.kind :=
  match c with LFile _ i _ => FsSpec.KFile (blob_of_ino i) | LDir _ _ _ => FsSpec.KDir end.
Definition entry_of (P : FsSpec.path) (c : lnode) : FsSpec.entry := FsSpec.mk P (kind_of c) 0.

(* the entries of the node c found under the directory with path pre, depth first *)
Fixpoint ents_node (pre : FsSpec.path) (c : lnode) : list FsSpec.entry :=
  let P := pre ++ [enc (lname c)] in
  entry_of P c ::
    match c with
    | LDir _ _ kids =>
        (fix go (l : list lnode) : list FsSpec.entry :=
           match l with [] => [] | k :: r => ents_node P k ++ go r end) kids
    | LFile _ _ _ => []
    end.
Definition ents (pre : FsSpec.path) (kids : list lnode) : list FsSpec.entry :=
  flat_map (ents_node pre) kids.
Definition abs_tree (t : lnode) : list FsSpec.entry := ents [] (lkids t).

Definition abs (s : nstate) : FsSpec.fs :=
  {| FsSpec.f_iso := abs_tree (niso s); FsSpec.f_jol := abs_tree (njol s);
     FsSpec.f_udf := []; FsSpec.f_boot := None |}.

Definition spec_ns (n : nns) : FsSpec.ns := match n with NIso => FsSpec.NsIso | NJol => FsSpec.NsJoliet end.

(* the state-independent refusals (illegal identifiers, depth, length outside the fragment) are the
   specification's [Bad]; everything else is decided by the state on both sides *)
Definition drlen_ok (nm : ident) : bool := negb (dr_len_of nm >? 255).
Definition opt_legal {A} (f : A -> bool) (o : option A) : bool := match o with Some a => f a | None => true end.

Definition tr (k : nat) (o : nop) : FsSpec.op :=
  match o with
  | NAddFile iso jol len =>
      if (0 <=? len) && (len <=? max_len)
         && opt_legal (fun x => iso_file_legal (fst x) (snd x) && drlen_ok (snd x)) iso
         && opt_legal (fun x => jol_legal (snd x)) jol
      then FsSpec.AddFp (blob_of_ino k)
             (option_map (fun x => (encp (fst x ++ [snd x]), 0)) iso)
             (option_map (fun x => encp (jpath (fst x ++ [snd x]))) jol) None
      else FsSpec.Bad
  | NAddDir iso jol =>
      if opt_legal (fun x => iso_dir_legal (fst x) (snd x) && drlen_ok (snd x)) iso
         && opt_legal (fun x => jol_legal (snd x)) jol
      then FsSpec.AddDir (option_map (fun x => (encp (fst x ++ [snd x]), 0)) iso)
                         (option_map (fun x => encp (jpath (fst x ++ [snd x]))) jol) None
      else FsSpec.Bad
  | NAddLink sns src dns d n =>
      if ns_file_legal dns d n && drlen_ok (ns_name dns n)
      then FsSpec.AddLink (FsSpec.SrcPath (spec_ns sns) (encp (ns_path sns src))) (spec_ns dns)
                          (encp (ns_path dns (d ++ [n]))) 0
      else FsSpec.Bad
  | NRmLink n d nm => FsSpec.RmLink (spec_ns n) (encp (ns_path n (d ++ [nm])))
  | NRmFile n d nm => FsSpec.RmFile (spec_ns n) (encp (ns_path n (d ++ [nm])))
  | NRmDir iso jol => FsSpec.RmDir (option_map encp iso) (option_map (fun p => encp (jpath p)) jol) None
  end.

Fixpoint tr_from (k : nat) (ops : list nop) : list FsSpec.op :=
  match ops with [] => [] | o :: r => tr k o :: tr_from (S k) r end.
Definition tr_ops (ops : list nop) : list FsSpec.op := tr_from O ops.

(* identifiers are Python bytes *)
Definition bytes_ident (nm : ident) : bool := forallb (fun b => (0 <=? b) && (b <? 256)) nm.
Definition bytes_path (p : path) : bool := forallb bytes_ident p.
Definition bytes_pn (x : path * ident) : bool := bytes_path (fst x) && bytes_ident (snd x).
Definition bytes_op (o : nop) : bool :=
  match o with
  | NAddFile iso jol _ | NAddDir iso jol => opt_legal bytes_pn iso && opt_legal bytes_pn jol
  | NAddLink _ src _ d n => bytes_path src && bytes_path d && bytes_ident n
  | NRmLink _ d n | NRmFile _ d n => bytes_path d && bytes_ident n
  | NRmDir iso jol => opt_legal bytes_path iso && opt_legal bytes_path jol
  end.
