(* C10 -- the bookkeeping of ONE UDF directory (udf.py class UDFFileEntry, file_type 4) as a state
   machine, and the identifier area that PyCdlib._udf_assign_extents / _write_fp lay out for it.
   Definitions only; proofs are in Proofs/UdfDirProofs.v.

   Sources modelled (statement by statement):
     UDFFileEntry.new(0, 'dir', parent, lbs)            -> udfdir_new   (info_len 0, short_ad.new(0), lbr 1)
     UDFFileEntry.add_file_ident_desc(fi_desc, lbs)     -> udfdir_add   (duplicate test, append, info_len,
                                                           log_block_recorded, alloc_descs[0].extent_length,
                                                           returned number of new extents)
     UDFFileEntry.remove_file_ident_desc_by_name(n,lbs) -> udfdir_remove (first match of fi == name over ALL
                                                           fi_descs, parent included; the is_dir() checks;
                                                           info_len, log_block_recorded, alloc_descs[0];
                                                           returned number of freed extents)
     UDFFileEntry.track_file_ident_desc                 -> udfdir_track (append only)
     UDFFileEntry.set_data_location(cur, start)         -> udfdir_data_blocks (the single descriptor is put
                                                           at start; it spans ceiling_div(ad_len, 2048))
     PyCdlib.add_directory (UDF part)                   -> udfdir_init  = new + add of the parent FID
     PyCdlib._udf_assign_extents (loop over fi_descs)   -> Fid.fid_locations / Fid.fid_blocks (reused)
     PyCdlib._write_fp (for fi_desc in fi_descs: write) -> udfdir_area  (concatenation of record()s)
   This tree has NO sorted insertion (no bisect, __lt__ is never called on fi_descs) and no
   finish_directory_parse: fi_descs is kept in INSERTION order (append / del).

   info_len / delta arithmetic is Fid.fid_add / Fid.fid_remove over the TRANSLATED udf_fid_length:
   the code calls UDFFileIdentifierDescriptor.length(len(fi)) with fi WITHOUT the compression-id
   prefix byte; length() itself adds the +1 when namelen > 0.

   Not modelled: file_link_count (+1 / -1 for is_dir() entries), the encoding attribute (no
   bookkeeping decision reads it: the duplicate test compares the raw fi bytes only), the
   file_entry pointer (a parent FID never has one: "file_entry is None" -> PyCdlibInternalError;
   for a directory child "len(file_entry.fi_descs) > 1" is the input flag child_nonempty of Remove),
   _initialized / file_type != 4 guards, directories with zero or several allocation descriptors. *)
From Coq Require Import ZArith List Bool.
From PV.Base Require Import Prim.
From PV.Gen Require Import GenConst GenFun.
From PV.Model Require Import Codec Fid Udf.
Import ListNotations.
Local Open Scope Z_scope.

(* one element of fi_descs: the attributes fi (encoded, no prefix byte), isdir, isparent *)
Record fident := mk_fident { fi_name : list Z; fi_isdir : bool; fi_isparent : bool }.

Record udfdir := mk_udfdir {
  ud_descs : list fident;      (* fi_descs, in list order *)
  ud_info_len : Z;             (* info_len *)
  ud_ad_len : Z;               (* alloc_descs[0].extent_length *)
  ud_lbr : Z }.                (* log_block_recorded *)

(* parent.new(True, True, b'', ...): fi stays b'' *)
Definition parent_fident : fident := mk_fident [] true true.
Definition child_fident (c : list Z * bool) : fident := mk_fident (fst c) (snd c) false.

(* file_entry.new(0, 'dir', parent, lbs): info_len = 0; log_block_recorded = 1; short_ad.new(length = 0) *)
Definition udfdir_new : udfdir := mk_udfdir [] 0 0 1.

(* "for fi_desc in self.fi_descs: if not fi_desc.is_parent() and fi_desc.fi == new_fi_desc.fi: raise" *)
Definition udfdir_is_dup (ds : list fident) (e : fident) : bool :=
  negb (fi_isparent e) &&
  existsb (fun d => negb (fi_isparent d) && zlist_eqb (fi_name d) (fi_name e)) ds.

(* add_file_ident_desc: None = PyCdlibInvalidInput (nothing was modified before the raise);
   Some (state, new_num_extents - old_num_extents) *)
Definition udfdir_add (lbs : Z) (st : udfdir) (e : fident) : option (udfdir * Z) :=
  if udfdir_is_dup (ud_descs st) e then None
  else
    let '(info', delta) := fid_add lbs (ud_info_len st) (zlen (fi_name e)) in
    let new_num_extents := ceiling_div info' lbs in
    Some (mk_udfdir (ud_descs st ++ [e]) info' info' new_num_extents, delta).

(* the lookup loop + "del self.fi_descs[desc_index]": first element whose fi equals name *)
Fixpoint take_first (name : list Z) (ds : list fident) : option (fident * list fident) :=
  match ds with
  | [] => None
  | d :: r =>
      if zlist_eqb (fi_name d) name then Some (d, r)
      else match take_first name r with
           | Some (x, r') => Some (x, d :: r')
           | None => None
           end
  end.

(* remove_file_ident_desc_by_name: None = one of the three raises (no attribute was modified
   before any of them); Some (state, old_num_extents - new_num_extents) *)
Definition udfdir_remove (lbs : Z) (st : udfdir) (name : list Z) (child_nonempty : bool)
  : option (udfdir * Z) :=
  match take_first name (ud_descs st) with
  | None => None                                            (* 'Cannot find file to remove' *)
  | Some (this_desc, rest) =>
      if fi_isdir this_desc && (fi_isparent this_desc        (* file_entry is None: InternalError *)
                                || child_nonempty)           (* 'Directory must be empty ...' *)
      then None
      else
        let '(info', delta) := fid_remove lbs (ud_info_len st) (zlen (fi_name this_desc)) in
        let new_num_extents := ceiling_div info' lbs in       (* self.log_block_recorded = new_num_extents *)
        Some (mk_udfdir rest info' info' new_num_extents, delta)
  end.

(* track_file_ident_desc (parse time): append, nothing else *)
Definition udfdir_track (st : udfdir) (e : fident) : udfdir :=
  mk_udfdir (ud_descs st ++ [e]) (ud_info_len st) (ud_ad_len st) (ud_lbr st).

(* set_data_location: blocks spanned by the one allocation descriptor *)
Definition udfdir_data_blocks (st : udfdir) : Z := ceiling_div (ud_ad_len st) 2048.

(* add_directory: file_entry.new(0,'dir',..) [+1 block for the File Entry itself, not counted here]
   then add_file_ident_desc(udf_dotdot): the state and the number of blocks granted to the area *)
Definition udfdir_init_pair : udfdir * Z :=
  match udfdir_add 2048 udfdir_new parent_fident with
  | Some p => p
  | None => (udfdir_new, 0)
  end.
Definition udfdir_init : udfdir := fst udfdir_init_pair.
Definition udfdir_init_blocks : Z := snd udfdir_init_pair.

(* ---- histories ------------------------------------------------------------------------------- *)
Inductive op :=
  | Add (name : list Z) (isdir : bool)
  | Remove (name : list Z) (child_nonempty : bool).

(* one public operation as the three call sites in pycdlib.py perform it (add_fp / add_directory /
   add_symlink: UDFFileIdentifierDescriptor.new then add_file_ident_desc; rm_hard_link / rm_file /
   rm_directory: remove_file_ident_desc_by_name):
   (state', accepted, signed change of the number of blocks granted) *)
Definition udfdir_step (lbs : Z) (st : udfdir) (o : op) : udfdir * bool * Z :=
  match o with
  | Add name isdir =>
      (* file_ident.new(isdir, False, name, parent): "if self.len_fi > 255: raise" with
         len_fi = len(fi) + 1, BEFORE udf_parent.add_file_ident_desc(file_ident, lbs) *)
      if 255 <? zlen name + 1 then (st, false, 0) else
      match udfdir_add lbs st (mk_fident name isdir false) with
      | Some (st', d) => (st', true, d)
      | None => (st, false, 0)
      end
  | Remove name ne =>
      match udfdir_remove lbs st name ne with
      | Some (st', d) => (st', true, - d)
      | None => (st, false, 0)
      end
  end.

(* state and blocks granted so far; the logical block size is the 2048 PyCdlib always passes *)
Definition run_step (sg : udfdir * Z) (o : op) : udfdir * Z :=
  let '(st', _, d) := udfdir_step 2048 (fst sg) o in (st', snd sg + d).
Definition udfdir_run (ops : list op) : udfdir * Z :=
  fold_left run_step ops (udfdir_init, udfdir_init_blocks).

Definition udfdir_accepts (st : udfdir) (o : op) : bool := snd (fst (udfdir_step 2048 st o)).

(* the non-parent entries, as (fi, isdir), in list order *)
Definition dir_names (st : udfdir) : list (list Z * bool) :=
  map (fun e => (fi_name e, fi_isdir e)) (filter (fun e => negb (fi_isparent e)) (ud_descs st)).

(* ---- layout ---------------------------------------------------------------------------------- *)
(* offset += UDFFileIdentifierDescriptor.length(len(d.fi)) *)
Definition udfdir_lens (st : udfdir) : list Z :=
  map (fun e => udf_fid_length (zlen (fi_name e))) (ud_descs st).

(* d.set_extent_location(current_extent, current_extent - part_start): the tag locations, relative
   to the partition, when the area starts at relative block [start] *)
Definition udfdir_tag_locs (start : Z) (st : udfdir) : list Z :=
  map (Z.add start) (fid_locations 2048 (udfdir_lens st)).

(* what the bookkeeping does not determine, per descriptor: (encoding 8/16, ICB new_location,
   ICB tag_location).  For the parent FID _udf_assign_extents assigns only icb.log_block_num (the
   relative block of the File Entry of the containing directory, the root being its own parent) and
   leaves impl_use zero: that is the input (_, 0, parent_block), since set_icb(0, b) writes six
   zero bytes of impl_use and log_block_num = b. *)
Fixpoint udfdir_records (ds : list fident) (locs : list Z) (ext : list (Z * Z * Z))
  : option (list (list Z)) :=
  match ds, locs, ext with
  | [], [], [] => Some []
  | d :: ds', l :: locs', (enc, nl, il) :: ext' =>
      match fid_of_case (fi_isdir d) (fi_isparent d) enc (fi_name d) l nl il with
      | Some f => match fid_record f, udfdir_records ds' locs' ext' with
                  | Some b, Some r => Some (b :: r)
                  | _, _ => None
                  end
      | None => None
      end
  | _, _, _ => None
  end.

(* _write_fp: seek to fi_descs[0].extent_location() * lbs, then write every record() back to back *)
Definition udfdir_area (start : Z) (st : udfdir) (ext : list (Z * Z * Z)) : option (list Z) :=
  match udfdir_records (ud_descs st) (udfdir_tag_locs start st) ext with
  | Some recs => Some (concat recs)
  | None => None
  end.

(* ---- helpers for the external harness -------------------------------------------------------- *)
(* after every op: (accepted 0/1, info_len, alloc_descs[0].extent_length, blocks granted so far) *)
Fixpoint probe_from (sg : udfdir * Z) (ops : list op) : list (Z * Z * Z * Z) :=
  match ops with
  | [] => []
  | o :: r =>
      let acc := udfdir_accepts (fst sg) o in
      let sg' := run_step sg o in
      ((if acc then 1 else 0), ud_info_len (fst sg'), ud_ad_len (fst sg'), snd sg') :: probe_from sg' r
  end.
Definition run_probe (ops : list op) : list (Z * Z * Z * Z) :=
  probe_from (udfdir_init, udfdir_init_blocks) ops.

(* log_block_recorded after every op *)
Fixpoint probe_lbr_from (sg : udfdir * Z) (ops : list op) : list Z :=
  match ops with
  | [] => []
  | o :: r => let sg' := run_step sg o in ud_lbr (fst sg') :: probe_lbr_from sg' r
  end.
Definition run_probe_lbr (ops : list op) : list Z := probe_lbr_from (udfdir_init, udfdir_init_blocks) ops.

(* [fi.fi for fi in rec.fi_descs] at the end (the parent's b'' first) *)
Definition run_final_fis (ops : list op) : list (list Z) := map fi_name (ud_descs (fst (udfdir_run ops))).

Fixpoint z4_eqb (a b : list (Z * Z * Z * Z)) : bool :=
  match a, b with
  | [], [] => true
  | (a1, a2, a3, a4) :: a', (b1, b2, b3, b4) :: b' =>
      (a1 =? b1) && (a2 =? b2) && (a3 =? b3) && (a4 =? b4) && z4_eqb a' b'
  | _, _ => false
  end.
Fixpoint zll_eqb (a b : list (list Z)) : bool :=
  match a, b with
  | [], [] => true
  | x :: a', y :: b' => zlist_eqb x y && zll_eqb a' b'
  | _, _ => false
  end.

(* a case: the history, the observed 4-tuples, the observed log_block_recorded values, the final fi list *)
Definition udfdir_case : Type := list op * list (Z * Z * Z * Z) * list Z * list (list Z).
Definition check_udfdir_case (c : udfdir_case) : bool :=
  let '(ops, obs, lbrs, fis) := c in
  z4_eqb (run_probe ops) obs && zlist_eqb (run_probe_lbr ops) lbrs && zll_eqb (run_final_fis ops) fis.
Definition bad_udfdir_cases (k : nat) (cs : list udfdir_case) : list nat := bad_idx check_udfdir_case k cs.
