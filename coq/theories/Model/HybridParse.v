(* C12 / C02 -- the REOPEN path of a hybrid image, composed with the writer of Model/HybridHist.v.

   Sources modelled (statement by statement):
     pycdlib.py _open_fp         seek(0); tmp.parse(read(16 * 2048)); when tmp.efi: seek(primary.
                                 header.backup_lba * 512), parse_secondary_gpt_header(read(512)),
                                 seek(secondary.current_lba * 512 - secondary.num_parts * 128),
                                 parse_secondary_gpt_partitions(read(num_parts * 128)); the object is
                                 kept only when parse returned True
     isohybrid.py IsoHybrid.parse   Hybrid.ih_parse_mbr with the geometry rule of f7c6de3 ([hp_parse_mbr]),
                                 then `if self.efi: primary_gpt.parse_primary`
     GPT.parse_primary           header.parse(instr[512:]); when mac and instr[2048:2050] != 00 00
                                 three APMPartHeader.parse at 2048, 4096, 6144; the partition loop
                                 at header.partition_entries_lba * 512 (Hybrid.gpt_parse_parts)
     GPT.parse_secondary_header / parse_secondary_partitions
     pycdlib.py _write_fp        of a REOPENED object that was not edited: _needs_reshuffle is False,
                                 so record / record_padding / secondary_gpt.record use the parsed
                                 values as they are ([hp_rewrite])
   The image is represented by the two regions the hybrid reader looks at: the first 32768 bytes
   (record() followed by the zeros of the system area) and the backup GPT (written last, hence
   intact even when it overlaps the volume); a read elsewhere is [OUnknown].
   Definitions only; proofs: Proofs/HybridParseProofs.v. *)
From Coq Require Import ZArith List Bool Arith.
From PV.Base Require Import Prim.
From PV.Gen Require Import GenConst GenFun.
From PV.Model Require Import Names Pack Alloc Codec Eltorito Account AccountLinks AccountBoot Hybrid HybridHist.
Import ListNotations.
Local Open Scope Z_scope.

Record himage := mk_img { im_head : list Z; im_sec_at : Z; im_sec : list Z; im_len : Z }.

(* what _write_fp leaves in those regions *)
Definition hp_written (y : hybrid) (iso_size : Z) : option himage :=
  (* _calc_cc: `iso_size % cylsize` raises ZeroDivisionError when a REOPENED object came back with
     geometry_sectors = 0 (objects made by new() have 1 <= sectors, 1 <= heads) *)
  if ih_heads (hy_ih y) * ih_sectors (hy_ih y) * 512 =? 0 then None else
  match hy_record y iso_size with
  | None => None
  | Some b =>
      let head := b ++ repeat 0 (Z.to_nat (32768 - zlen b)) in
      if ih_efi (hy_ih y) then
        match gpt_record (hy_sec y) with
        | Some sb => if 0 <=? secondary_write_offset (hy_sec y)
                     then Some (mk_img head (secondary_write_offset (hy_sec y)) sb (image_len y iso_size))
                     else None
        | None => None
        end
      else Some (mk_img head (-1) [] (image_len y iso_size))
  end.

Inductive read_res := RRaise | RUnknown | RBytes (b : list Z).

(* fp.seek(off); fp.read(len) *)
Definition hp_read (img : himage) (off len : Z) : read_res :=
  if off <? 0 then RRaise                                        (* ValueError: negative seek *)
  else if (0 <=? im_sec_at img) && (im_sec_at img <=? off) && (off + len <=? im_sec_at img + zlen (im_sec img))
  then RBytes (slice (off - im_sec_at img) (off - im_sec_at img + len) (im_sec img))
  else if off + len <=? 32768 then RBytes (slice off (off + len) (im_head img))
  else if im_len img <=? off then RBytes []
  else RUnknown.

(* ---- GPT.parse_primary ------------------------------------------------------------------------ *)

Fixpoint apm_parse_n (n : nat) (s : list Z) : option (list apm_part) :=
  match n with
  | O => Some []
  | S n' => match apm_parse s with
            | None => None
            | Some a => match apm_parse_n n' (skipn 2048 s) with
                        | Some r => Some (a :: r)
                        | None => None
                        end
            end
  end.

Definition gpt_parse_primary (instr : list Z) (mac : bool) : option gpt :=
  match ghdr_parse (skipn 512 instr) with
  | None => None
  | Some hdr =>
      match (if mac && negb (zlist_eqb (slice 2048 2050 instr) [0; 0])
             then apm_parse_n 3 (skipn 2048 instr) else Some []) with
      | None => None
      | Some apms =>
          match gpt_parse_parts (Z.to_nat (gh_num_parts hdr)) (skipn (Z.to_nat (gh_pe_lba hdr * 512)) instr) with
          | None => None
          | Some ps => Some (mk_gpt true hdr ps apms)
          end
      end
  end.

Definition empty_gpt (prim : bool) : gpt := mk_gpt prim (mk_ghdr 0 0 0 0 [] 0 0 0) [] [].

(* IsoHybrid.parse(instr), MBR part.  [fs] = true: f7c6de3 (`geometry_sectors = esect & 0x3f`, esect =
   byte 6 of the active entry; only when that is 0 the old estimate); [fs] = false: the tree before it
   (Hybrid.ih_parse_mbr: min(psize // ((ecyle + 1) * heads), 63)). *)
Definition active_entry (instr : list Z) (pe : Z) : list Z :=
  slice (446 + 16 * (pe - 1)) (446 + 16 * pe) (firstn 512 instr).
Definition hp_parse_mbr (fs : bool) (instr : list Z) : parse_res :=
  match ih_parse_mbr instr with
  | POk h =>
      if fs then
        let es := Z.land (nth 6 (active_entry instr (ih_part_entry h)) 0) 63 in
        POk (if es =? 0 then h else ih_set_sectors h es)
      else POk h
  | r => r
  end.

Inductive hparse_res := HRaise | HFalse | HOk (y : hybrid).
Definition hp_parse_gen (fs : bool) (instr : list Z) : hparse_res :=
  match hp_parse_mbr fs instr with
  | PRaise => HRaise
  | PFalse => HFalse
  | POk h =>
      if ih_efi h then
        match gpt_parse_primary instr (ih_mac h) with
        | Some g => HOk (mk_hy h g (empty_gpt false))
        | None => HRaise
        end
      else HOk (mk_hy h (empty_gpt true) (empty_gpt false))
  end.

(* ---- _open_fp ---------------------------------------------------------------------------------- *)

Inductive open_res := ONone | ORaise | OUnknown | OHy (y : hybrid).

Definition hp_open_gen (fs : bool) (img : himage) : open_res :=
  match hp_read img 0 32768 with
  | RBytes head =>
      match hp_parse_gen fs head with
      | HRaise => ORaise
      | HFalse => ONone
      | HOk y =>
          if ih_efi (hy_ih y) then
            match hp_read img (gh_backup_lba (g_header (hy_pri y)) * 512) 512 with
            | RRaise => ORaise
            | RUnknown => OUnknown
            | RBytes hb =>
                match ghdr_parse hb with
                | None => ORaise
                | Some sh =>
                    match hp_read img (gh_current_lba sh * 512 - gh_num_parts sh * 128) (gh_num_parts sh * 128) with
                    | RRaise => ORaise
                    | RUnknown => OUnknown
                    | RBytes pb =>
                        match gpt_parse_parts (Z.to_nat (gh_num_parts sh)) pb with
                        | None => ORaise
                        | Some ps => OHy (mk_hy (hy_ih y) (hy_pri y) (mk_gpt false sh ps []))
                        end
                    end
                end
            end
          else OHy y
      end
  | _ => OUnknown
  end.

(* open(write(y)) *)
Definition hp_reopen_gen (fs : bool) (y : hybrid) (iso_size : Z) : open_res :=
  match hp_written y iso_size with
  | Some img => hp_open_gen fs img
  | None => ORaise
  end.

(* the current tree / the tree before f7c6de3 *)
Definition hp_parse := hp_parse_gen true.
Definition hp_open := hp_open_gen true.
Definition hp_reopen := hp_reopen_gen true.
Definition hp_parse_old := hp_parse_gen false.
Definition hp_open_old := hp_open_gen false.
Definition hp_reopen_old := hp_reopen_gen false.

(* ---- comparing objects and images -------------------------------------------------------------- *)

Definition himage_eqb (a b : himage) : bool :=
  zlist_eqb (im_head a) (im_head b) && (im_sec_at a =? im_sec_at b) && zlist_eqb (im_sec a) (im_sec b) &&
  (im_len a =? im_len b).

(* write_fp of the unedited reopened object gives the same hybrid bytes and the same length *)
Definition hp_rewrite_same_gen (fs : bool) (y : hybrid) (iso_size : Z) : bool :=
  match hp_written y iso_size, hp_reopen_gen fs y iso_size with
  | Some img, OHy y' =>
      match hp_written y' iso_size with
      | Some img' => himage_eqb img img'
      | None => false
      end
  | _, _ => false
  end.

Definition hp_rewrite_same := hp_rewrite_same_gen true.
Definition hp_rewrite_same_old := hp_rewrite_same_gen false.

(* [header is MAC_AFP] ++ Hybrid.ih_fields_list ++ primary header / entries / APM ++ backup header /
   entries, of a reopened object; the GPT parts are empty lists without efi *)
Definition hp_fields (y : hybrid) : list (list Z) :=
  let h := hy_ih y in
  [[b2z (zlist_eqb (ih_header h) MAC_AFP)]; ih_fields_list h] ++
  (if ih_efi h
   then [ghdr_view (g_header (hy_pri y)); parts_view (g_parts (hy_pri y)); apm_view (g_apm (hy_pri y));
         ghdr_view (g_header (hy_sec y)); parts_view (g_parts (hy_sec y))]
   else []).

Definition open_fields (r : open_res) : list (list Z) :=
  match r with
  | OHy y => hp_fields y
  | ONone => [[-1]]
  | ORaise => [[-2]]
  | OUnknown => [[-3]]
  end.

(* ---- harness ------------------------------------------------------------------------------------ *)

(* a case: a history of Model/HybridHist.v ending in an accepted HWrite of a hybrid image;
   the fields of the reopened isohybrid_mbr ([[-1]]: reopened as non-hybrid, [[-2]]: open raised);
   1 when the second write_fp (of the reopened, unedited object) produced the same bytes;
   then edits made on the REOPENED object ending in HWrite, and the decoded image (HybridHist.view_list;
   [] = not checked) *)
Definition pcase : Type := (list hop * list (list Z) * Z * list hop * list (list Z))%type.

Definition set_hyb (s : hstate) (r : open_res) : hstate :=
  match r with OHy y => with_hyb s (Some y) | ONone => with_hyb s None | _ => s end.

Definition pcheck (c : pcase) : bool :=
  let '(ops, fields, same, ops2, view2) := c in
  let s := hrun hinit ops in
  match hhyb s with
  | None => false
  | Some y =>
      let iso := iso_size_of s in
      let r := hp_reopen y iso in
      list_eqb (list_eqb Z.eqb) (open_fields r) fields &&
      Bool.eqb (hp_rewrite_same y iso) (same =? 1) &&
      match view2 with
      | [] => true
      | _ => match hybrid_view (hrun (set_hyb s r) ops2) with
             | Some v => list_eqb (list_eqb Z.eqb) (view_list v) view2
             | None => false
             end
      end
  end.

Fixpoint bad_hybridparse_cases (k : nat) (cs : list pcase) : list nat :=
  match cs with
  | [] => []
  | c :: r => if pcheck c then bad_hybridparse_cases (S k) r else k :: bad_hybridparse_cases (S k) r
  end.
