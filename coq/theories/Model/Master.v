(* The DIRECTORY AREA of a plain ISO9660 image as pycdlib masters it, and an independent reader.

   Fragment: one PVD, interchange level 3, no Rock Ridge / Joliet / UDF / El Torito / XA, logical
   block size 2048, one name per file, file length <= 0xfffff800 (one record per file).

   Sources modelled (statement by statement; all in /repo/pycdlib):
     pycdlib.py  _reshuffle_extents (PVD 16, VDST 17, version 18, L and M path tables, directories,
                 file data), _reassign_vd_dirrecord_extents (ONE deque walk over ALL records, files
                 included; a directory advances current_extent, a file with data is appended to
                 file_list; '.' = the directory, '..' = the directory above, root '..' = root),
                 _set_inode (file data in file_list order)            -> ms_DB / ms_FB / ms_ext_at
     pycdlib.py  _write_directory_records (deque walk, seek + write)  -> ms_dir_positions, ms_pack,
                                                                         ms_dir_bytes, master
     dr.py       new_dot / new_dotdot / new_dir / new_file (_new: flags, seqnum 1, xattr 0, unit 0,
                 gap 0), _add_child / remove_child (data_length of '.' and of every '..' below
                 follow the directory's data_length)                  -> ms_rec, ms_dir_recs
     dr.py       DirectoryRecord.record                               -> Codec.enc_dr (reused)

   REUSED, not copied: Codec.enc_dr / dec_dr (record bytes), Pack.Invb / num_extents (the
   data_length policy; Proofs/MasterPack.v shows ms_pack writes where Pack.nf counts),
   PathTable.bfs / assign_end / write_order (the deque walk, for every tree), Account.node (the
   object graph: File name len | Dir name data_length children-without-dot-and-dotdot),
   Account.total / w_ptr (path table size).

   The tree type is Account.node.  A tree POSITION is the list of child indices from the root.
   PathTable.bfs walks a [dtree]; [ms_dtree] turns EVERY record into a dtree node (a file is a
   leaf of 0 blocks), which is exactly the deque of _reassign_vd_dirrecord_extents: files are
   popped too, only directories advance the extent.  [ms_ftree] is the same walk seen from
   file_list: only files with data advance the extent.

   Dates: every record carries the same opaque 7-byte [dt] (the tool pins time.time()).
   Definitions only; proofs are in Proofs/Master*.v. *)
From Coq Require Import ZArith List Bool.
From PV.Base Require Import Prim.
From PV.Gen Require Import GenConst GenFun.
From PV.Model Require Import Codec Pack PathTable.
From PV.Model Require Account.
Import ListNotations.
Local Open Scope Z_scope.

Notation node := Account.node.
Notation File := Account.File.
Notation Dir := Account.Dir.

Definition BS : Z := Account.C.                       (* 2048 *)

(* ---- positions ----------------------------------------------------------------------------- *)

Fixpoint ms_pos_eqb (a b : list nat) : bool :=
  match a, b with
  | [], [] => true
  | x :: a', y :: b' => Nat.eqb x y && ms_pos_eqb a' b'
  | _, _ => false
  end.

Fixpoint ms_node_at (n : node) (p : list nat) : option node :=
  match p with
  | [] => Some n
  | i :: q => match nth_error (Account.kids_of n) i with
              | Some c => ms_node_at c q
              | None => None
              end
  end.

Definition ms_is_dir_at (t : node) (p : list nat) : bool :=
  match ms_node_at t p with Some (Dir _ _ _) => true | _ => false end.

Definition ms_dlen_at (t : node) (p : list nat) : Z :=
  match ms_node_at t p with Some (Dir _ dl _) => dl | _ => 0 end.

(* ---- the two extent-assignment walks --------------------------------------------------------- *)

(* the deque of _reassign_vd_dirrecord_extents: every record; a directory takes
   ceiling_div(data_length, 2048) extents, a file none *)
Fixpoint ms_dtree (n : node) : dtree :=
  match n with
  | File nm _ => Node nm 0 []
  | Dir nm dl kids => Node nm (ceiling_div dl BS) (map ms_dtree kids)
  end.

(* file_list in the order of the same walk; _set_inode advances by ceiling_div(length, 2048);
   a file of length 0 is not in file_list (and ceiling_div 0 2048 = 0) *)
Fixpoint ms_ftree (n : node) : dtree :=
  match n with
  | File nm len => Node nm (ceiling_div len BS) []
  | Dir nm _ kids => Node nm 0 (map ms_ftree kids)
  end.

(* path_table_num_extents = ceiling_div(path_tbl_size, 4096) * 2 *)
Definition ms_ptr_ext (t : node) : Z := ceiling_div (Account.total Account.w_ptr t) 4096 * 2.

(* system area 0..15, PVD 16, terminator 17, version block 18, L table, M table *)
Definition first_dir_extent (t : node) : Z := 16 + 1 + 1 + 1 + ms_ptr_ext t + ms_ptr_ext t.

Definition ms_DB (t : node) : list dirrec := PathTable.bfs (first_dir_extent t) (ms_dtree t).
Definition ms_dir_end (t : node) : Z := assign_end (first_dir_extent t) (ms_dtree t).
Definition ms_FB (t : node) : list dirrec := PathTable.bfs (ms_dir_end t) (ms_ftree t).
Definition ms_layout_end (t : node) : Z := assign_end (ms_dir_end t) (ms_ftree t).

(* new_extent_loc of the record at position p, as the walk B left it *)
Definition ms_ext_at (B : list dirrec) (p : list nat) : Z :=
  match find (fun r => ms_pos_eqb (d_pos r) p) B with
  | Some r => d_extent r
  | None => 0
  end.

(* `if dir_record.data_length == 0: set_data_location(0, 0)` *)
Definition ms_fext (FB : list dirrec) (p : list nat) (len : Z) : Z :=
  if len =? 0 then 0 else ms_ext_at FB p.

(* ---- the records of one directory ------------------------------------------------------------ *)

(* _new: xattr_len 0, file_unit_size 0, interleave_gap_size 0, seqnum 1, no system use *)
Definition ms_rec (dt : list Z) (ext len fl : Z) (nm : list Z) : drec :=
  mk_drec 0 ext len dt fl 0 0 1 nm [].

Definition ms_kid_rec (dt : list Z) (DB FB : list dirrec) (p : list nat) (c : node) : drec :=
  match c with
  | File nm len => ms_rec dt (ms_fext FB p len) len 0 nm
  | Dir nm dl _ => ms_rec dt (ms_ext_at DB p) dl 2 nm
  end.

Fixpoint ms_kid_recs (dt : list Z) (DB FB : list dirrec) (p : list nat) (j : nat)
         (kids : list node) : list drec :=
  match kids with
  | [] => []
  | c :: r => ms_kid_rec dt DB FB (p ++ [j]) c :: ms_kid_recs dt DB FB p (S j) r
  end.

(* children[0] = '.', children[1] = '..', children[2:] sorted.  removelast [] = []: the root's
   '..' describes the root itself. *)
Definition ms_dir_recs (dt : list Z) (t : node) (DB FB : list dirrec) (p : list nat) : list drec :=
  match ms_node_at t p with
  | Some (Dir _ dl kids) =>
      ms_rec dt (ms_ext_at DB p) dl 2 [0]
      :: ms_rec dt (ms_ext_at DB (removelast p)) (ms_dlen_at t (removelast p)) 2 [1]
      :: ms_kid_recs dt DB FB p 0 kids
  | _ => []
  end.

(* ---- _write_directory_records: the record loop on a zero-filled file ------------------------- *)

(* if (curr_dirrecord_offset + len(recstr)) > 2048: dir_extent += 1; offset = 0
   seek(dir_extent * 2048 + offset); write(recstr); offset += len(recstr)
   as one byte stream: the skipped bytes of the old block are zeros *)
Fixpoint ms_pack (off : Z) (recs : list (list Z)) : list Z :=
  match recs with
  | [] => []
  | b :: r =>
      if (off + zlen b) >? BS
      then repeat 0 (Z.to_nat (BS - off)) ++ b ++ ms_pack (0 + zlen b) r
      else b ++ ms_pack (off + zlen b) r
  end.

(* the whole extent of the directory: data_length bytes *)
Definition ms_dir_bytes (dl : Z) (recs : list (list Z)) : list Z :=
  let s := ms_pack 0 recs in s ++ repeat 0 (Z.to_nat (dl - zlen s)).

Definition ms_enc (r : drec) : list Z := match enc_dr r with Some b => b | None => [] end.
Definition ms_enc_ok (r : drec) : bool := match enc_dr r with Some _ => true | None => false end.

(* a finite map: (first extent, bytes of the blocks written from there on) *)
Definition image : Type := list (Z * list Z).

(* the directories in the order _write_directory_records pops them *)
Definition ms_dir_positions (t : node) : list (list nat) :=
  filter (ms_is_dir_at t) (write_order (ms_dtree t)).

Definition ms_chunk (dt : list Z) (t : node) (DB FB : list dirrec) (p : list nat) : Z * list Z :=
  (ms_ext_at DB p, ms_dir_bytes (ms_dlen_at t p) (map ms_enc (ms_dir_recs dt t DB FB p))).

(* None = record() raised (struct.error: a field out of range) *)
Definition master (dt : list Z) (t : node) : option image :=
  let DB := ms_DB t in
  let FB := ms_FB t in
  let ps := ms_dir_positions t in
  if forallb (fun p => forallb ms_enc_ok (ms_dir_recs dt t DB FB p)) ps
  then Some (map (ms_chunk dt t DB FB) ps)
  else None.

(* ---- an INDEPENDENT reader (mount style): bytes + root pointer only -------------------------- *)

Inductive rnode : Type :=
| RFile (name : list Z) (ext len : Z)
| RDir (name : list Z) (ext len : Z) (kids : list rnode).

(* one 2048-byte block of the medium *)
Fixpoint ms_get_block (img : image) (e : Z) : option (list Z) :=
  match img with
  | [] => None
  | (e0, bs) :: r =>
      if (e0 <=? e) && (e <? e0 + zlen bs / BS)
      then Some (firstn (Z.to_nat BS) (skipn (Z.to_nat ((e - e0) * BS)) bs))
      else ms_get_block r e
  end.

Fixpoint ms_read_blocks (img : image) (e : Z) (n : nat) : option (list Z) :=
  match n with
  | O => Some []
  | S n' => match ms_get_block img e, ms_read_blocks img (e + 1) n' with
            | Some a, Some b => Some (a ++ b)
            | _, _ => None
            end
  end.

Definition ms_img_read (img : image) (ext len : Z) : option (list Z) :=
  match ms_read_blocks img ext (Z.to_nat (ceiling_div len BS)) with
  | Some d => Some (firstn (Z.to_nat len) d)
  | None => None
  end.

(* walk the records of a directory extent: [data] is what is left, [off] its offset in the
   extent; a zero length byte means: continue at the next block boundary *)
Fixpoint ms_scan (fuel : nat) (data : list Z) (off : Z) : option (list drec) :=
  match fuel with
  | O => None
  | S f =>
      match data with
      | [] => Some []
      | l :: _ =>
          if l =? 0 then
            let skip := BS - off mod BS in
            ms_scan f (skipn (Z.to_nat skip) data) (off + skip)
          else
            match dec_dr data with
            | Some (r, rest) =>
                match ms_scan f rest (off + l) with
                | Some rs => Some (r :: rs)
                | None => None
                end
            | None => None
            end
      end
  end.

Definition ms_rec_is_dir (r : drec) : bool := flag_set (flags r) 1.

Fixpoint ms_read_kids (rd : Z -> Z -> option (list rnode)) (rs : list drec)
  : option (list rnode) :=
  match rs with
  | [] => Some []
  | r :: rs' =>
      let x := if ms_rec_is_dir r
               then match rd (extent r) (data_len r) with
                    | Some ks => Some (RDir (Codec.ident r) (extent r) (data_len r) ks)
                    | None => None
                    end
               else Some (RFile (Codec.ident r) (extent r) (data_len r)) in
      match x, ms_read_kids rd rs' with
      | Some a, Some b => Some (a :: b)
      | _, _ => None
      end
  end.

(* the first two records ('.' and '..') are skipped by position *)
Fixpoint ms_read_dir (fuel : nat) (img : image) (ext len : Z) : option (list rnode) :=
  match fuel with
  | O => None
  | S f =>
      match ms_img_read img ext len with
      | None => None
      | Some data =>
          match ms_scan (S (length data)) data 0 with
          | None => None
          | Some recs => ms_read_kids (ms_read_dir f img) (skipn 2 recs)
          end
      end
  end.

Definition read (fuel : nat) (img : image) (root_ext root_len : Z) : option rnode :=
  match ms_read_dir fuel img root_ext root_len with
  | Some ks => Some (RDir [0] root_ext root_len ks)
  | None => None
  end.

(* ---- what a reader must find ------------------------------------------------------------------ *)

Fixpoint ms_view (DB FB : list dirrec) (p : list nat) (n : node) : rnode :=
  match n with
  | File nm len => RFile nm (ms_fext FB p len) len
  | Dir nm dl kids =>
      RDir nm (ms_ext_at DB p) dl
        ((fix go (j : nat) (l : list node) : list rnode :=
            match l with
            | [] => []
            | c :: r => ms_view DB FB (p ++ [j]) c :: go (S j) r
            end) 0%nat kids)
  end.

Definition view (t : node) : rnode := ms_view (ms_DB t) (ms_FB t) [] t.

Definition root_extent (t : node) : Z := first_dir_extent t.
Definition root_len (t : node) : Z := ms_dlen_at t [].

Fixpoint ms_height (n : node) : nat :=
  match n with
  | File _ _ => 1%nat
  | Dir _ _ kids => S (fold_right (fun c m => Nat.max (ms_height c) m) 0%nat kids)
  end.
Definition fuel_for (t : node) : nat := ms_height t.

(* ---- well-formed trees -------------------------------------------------------------------------- *)

(* 1 <= len(name), dr_len = 33 + len + pad <= 254 (so len <= 221) *)
Definition ms_name_ok (nm : list Z) : bool := (1 <=? zlen nm) && (Account.dr_len_of nm <=? 254).

Fixpoint ms_sorted (l : list (list Z)) : bool :=
  match l with
  | [] => true
  | a :: r => match r with [] => true | b :: _ => Account.bytes_ltb a b end && ms_sorted r
  end.

(* [budget]: levels left (_check_path_depth: at most 7 components below the root) *)
Fixpoint ms_wf_node (budget : nat) (n : node) : bool :=
  match budget with
  | O => false
  | S f =>
      match n with
      | File nm len => ms_name_ok nm && (0 <=? len) && (len <=? Account.max_len)
      | Dir nm dl kids =>
          ms_name_ok nm && Invb BS (Account.dir_st dl kids) && (dl <=? 4294967295) &&
          ms_sorted (map Account.name_of kids) && forallb (ms_wf_node f) kids
      end
  end.

Definition wf_tree (t : node) : bool :=
  match t with
  | Dir nm _ _ => Account.bytes_eqb nm [0] && ms_wf_node 8 t && (ms_layout_end t <=? 4294967296)
  | File _ _ => false
  end.

(* ---- harness ------------------------------------------------------------------------------------ *)

(* expected bytes, run-length coded: (number of zero bytes, then these literal bytes) *)
Fixpoint ms_unrle (l : list (Z * list Z)) : list Z :=
  match l with
  | [] => []
  | (z, bs) :: r => repeat 0 (Z.to_nat z) ++ bs ++ ms_unrle r
  end.

Fixpoint ms_image_eqb (a b : image) : bool :=
  match a, b with
  | [], [] => true
  | (e1, b1) :: a', (e2, b2) :: b' => (e1 =? e2) && zlist_eqb b1 b2 && ms_image_eqb a' b'
  | _, _ => false
  end.

Fixpoint ms_rnode_eqb (a b : rnode) : bool :=
  match a, b with
  | RFile n1 e1 l1, RFile n2 e2 l2 => zlist_eqb n1 n2 && (e1 =? e2) && (l1 =? l2)
  | RDir n1 e1 l1 k1, RDir n2 e2 l2 k2 =>
      zlist_eqb n1 n2 && (e1 =? e2) && (l1 =? l2) &&
      (fix go (x y : list rnode) : bool :=
         match x, y with
         | [], [] => true
         | a' :: x', b' :: y' => ms_rnode_eqb a' b' && go x' y'
         | _, _ => false
         end) k1 k2
  | _, _ => false
  end.

(* the same layout through Account.layout: sizes of the directories and of the files with data,
   in the order of the walk, then the (first extent, extents) pairs after the 6 fixed objects *)
Definition ms_account_state (t : node) : Account.state :=
  {| Account.root := t; Account.ptr_size := Account.total Account.w_ptr t;
     Account.ptr_ext := ms_ptr_ext t; Account.space := 0 |}.

Definition ms_layout_pairs (t : node) : list (Z * Z) :=
  map (fun r => (d_extent r, d_blocks r))
      (filter (fun r => ms_is_dir_at t (d_pos r)) (ms_DB t))
  ++ map (fun r => (d_extent r, d_blocks r))
         (filter (fun r => negb (d_blocks r =? 0)) (ms_FB t)).

Definition ms_layout_agrees (t : node) : bool :=
  zz_list_eqb (skipn 6 (Account.layout (ms_account_state t))) (ms_layout_pairs t) &&
  (Account.layout_end (ms_account_state t) =? ms_layout_end t).

(* a case: (tree, the 7 date bytes, (root extent, root length) from the PVD,
            [(extent, run-length coded bytes of that directory's blocks)] in written order) *)
Definition ms_case : Type := (node * list Z * (Z * Z) * list (Z * list (Z * list Z)))%type.

Definition ms_case_ok (c : ms_case) : bool :=
  let '(t, dt, (re, rl), expected) := c in
  let img := map (fun x : Z * list (Z * list Z) => (fst x, ms_unrle (snd x))) expected in
  wf_tree t &&
  (re =? root_extent t) && (rl =? root_len t) &&
  match master dt t with Some m => ms_image_eqb m img | None => false end &&
  match read (fuel_for t) img re rl with Some v => ms_rnode_eqb v (view t) | None => false end &&
  ms_layout_agrees t.

Fixpoint bad_master_cases (k : nat) (cs : list ms_case) : list nat :=
  match cs with
  | [] => []
  | c :: r => if ms_case_ok c then bad_master_cases (S k) r else k :: bad_master_cases (S k) r
  end.
