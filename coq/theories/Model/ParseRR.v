(* C02 / C05 / C08 -- what PyCdlib.open reconstructs from an ISO9660 image WITH Rock Ridge: the directory walk of
   Model/ParseCore.v extended by the branch that file leaves out (`PUnsupported 1` on a record with System Use bytes):
   the Rock Ridge object of every record (dr_entries, ce_entries, inferred version, bytes_to_skip, ce_block), the
   continuation areas read through the CE entries, the continuation-block table of the PVD (pvd.rr_ce_blocks) rebuilt
   by track_rr_ce_entry, rr_children, the Rock Ridge version of the ISO.

   Sources modelled statement by statement (/repo/pycdlib):
     pycdlib.py   _walk_directories: deque of directory records, 'Overlapping directories', seek + read, the record
                  loop (ParseCore.ps_scan REUSED), new_record.parse, the CE branch (seek to bl_cont_area * 2048 +
                  offset_cont_area, read len_cont_area, rock_ridge.parse(.., continuation=True),
                  `if not (dir_record.is_root and new_record.is_dot())`: pvd.track_rr_ce_entry + update_ce_block,
                  rr = rock_ridge.rr_version), _set_rock_ridge ('Inconsistent Rock Ridge versions'), dirs.append,
                  track_child with the duplicate retry                         -> prr_record, prr_walk, parse_rr
     dr.py        DirectoryRecord.parse: Codec.parse_dr (REUSED), XARecord.parse at offsets 0 and even(len_fi) of the
                  bytes after the identifier ('Unused fields should be 0' | an XA record: outside the fragment) --
                  [xafix = true], the code after commit ac63ee2 (a repair this model triggered): the probe is skipped
                  when the area opens with one of the 15 SUSP signatures; [xafix = false], the code before it: a Rock
                  Ridge name with b'XA' at bytes 6..7 of the area made open raise (ParseRRRefuted) --, the
                  15 signatures that make a RockRidge object, is_first_dir_record_of_root, bytes_to_skip from
                  parent.children[0].rock_ridge / parent.rock_ridge (three raises)    -> prr_xa, prr_skip_for
                  _add_child (check_overflow = False): bisect_left by __lt__ (ParseCore.ps_bisect / ps_lt REUSED), the
                  duplicate test with its RR_MOVED exception, children.insert, the rr_children bisection on name()
                                                                                     -> prr_track, prr_rr_insert
     rockridge.py RockRidge.parse = RRWalk.rr_parse (REUSED: entry loop, 'Only single .. record', which list the
                  entries go to, the version inference with the `continuation and self.rr_version` branch);
                  name() = _full_name (join of ALL NM pieces, dr then ce); RockRidgeContinuationBlock.track_entry =
                  CeAlloc.track_entry (REUSED)
     headervd.py  track_rr_ce_entry: first block whose extent matches, else a new block appended -> prr_track_ce

   Answers: POk graph | PInvalid n (the library raises: 2 parse_dr, 4 duplicate name, 9 overlapping directories,
   1 short data, 6 padding, 10 'Unused fields should be 0', 11 'Parent has no dot child', 12 'Dot child does not have
   Rock Ridge', 13 'Parent does not have Rock Ridge', 14 RockRidge.parse of the record's area raised, 15 .. of the
   continuation area, 16 track_entry raised (overlap / no room), 17 inconsistent versions) | PUnsupported n (outside the
   fragment: 1 an XA record, 2 multi-extent file, 3 a block the image does not describe, 4 CL / PL / RE entries).
   NOT repeated here (they are Model/ParseCore.v's and do not interact with Rock Ridge in the fragment): Inodes and
   lastbyte (a symlink / empty file gets a zero-length Inode), extent_to_ptr (KeyError), interchange level, the cached
   index_in_parent / extents_to_here / offset_to_here; the clip of a directory's block range by the length of the file
   (the image is a finite map of directory extents and continuation blocks, Master.image: long enough by construction).
   Definitions only; the writer side (graph_of, state_of) and the harness are in Model/ParseRRSpec.v. *)
From Coq Require Import ZArith List Bool.
From PV.Base Require Import Prim.
From PV.Gen Require Import GenConst GenFun.
From PV.Model Require Import Codec Pack CeAlloc RREntries RRWalk.
From PV.Model Require Master Account LongNames RRPlace AccountRR.
From PV.Model Require Import ParseCore.
Import ListNotations.
Local Open Scope Z_scope.

Notation image := Master.image.
Definition PBS : Z := 2048.                      (* pvd.log_block_size = RockRidgeContinuationBlock._max_block_size *)

(* ---- the parsed objects --------------------------------------------------------------------------------- *)
(* a RockRidge object: dr_entries, ce_entries, rr_version, bytes_to_skip, ce_block (index in pvd.rr_ce_blocks) *)
Record rrd := mk_rrd { rd_dr : rr_entries; rd_ce : rr_entries; rd_ver : rrv; rd_skip : Z; rd_blk : option nat }.
(* a DirectoryRecord: parsed fields, dr_len (byte 0), len_fi (byte 32), the directory it heads, rock_ridge *)
Record qrec := mk_qrec { q_rec : drec; q_drlen : Z; q_lenfi : Z; q_dir : option nat; q_rr : option rrd }.
(* a walked directory: children, rr_children as (name(), file_ident) *)
Record pdir := mk_pdir { d_kids : list qrec; d_rrk : list (list Z * list Z) }.
Record rgraph := mk_rgraph {
  g_dirs : list pdir;                    (* in the order the walk pops them; 0 = the root *)
  g_blocks : list (Z * block);           (* pvd.rr_ce_blocks: (extent_location(), [(offset, length)] as _entries) *)
  g_ver : rrv }.                         (* PyCdlib.rock_ridge: '' | '1.09' | '1.10' | '1.12' *)

(* a directory record waiting in `dirs`: extent_location(), get_data_length(), is_root, file_ident,
   rock_ridge.bytes_to_skip (None: rock_ridge is None) *)
Record qdir := mk_qdir { qd_ext : Z; qd_len : Z; qd_root : bool; qd_name : list Z; qd_rr : option Z }.

Record wstate := mk_wst {
  w_dirs : list pdir; w_cur : list qrec; w_rrk : list (list Z * list Z); w_queue : list qdir;
  w_seen : list Z; w_blocks : list (Z * block); w_ver : rrv }.

(* ---- what a RockRidge object answers ------------------------------------------------------------------------ *)
Definition prr_nms (d : rrd) : list nm_rec := nm_records (rd_dr d) ++ nm_records (rd_ce d).
Definition prr_sls (d : rrd) : list sl_rec := sl_records (rd_dr d) ++ sl_records (rd_ce d).
(* name(): b''.join of every NM piece, or the directory record's printable name when there is none *)
Definition prr_full_name (d : rrd) (dr_name : list Z) : list Z :=
  match prr_nms d with [] => dr_name | l => concat (map nm_name l) end.
(* the same pieces read as RRIP 4.1.4 says (stop after the first piece without CONTINUE) *)
Definition prr_rrip_name (d : rrd) : list Z :=
  LongNames.nm_join (map (fun n => (nm_flags n, nm_name n)) (prr_nms d)).
Definition prr_px (d : rrd) : option px_rec :=
  match px_record (rd_dr d) with Some p => Some p | None => px_record (rd_ce d) end.
Definition prr_mode (d : rrd) : Z := match prr_px d with Some p => px_mode p | None => 0 end.
Definition prr_links (d : rrd) : Z := match prr_px d with Some p => px_links p | None => 0 end.
(* the symlink target an RRIP reader assembles from the SL records, dr then ce *)
Definition prr_target (d : rrd) : list Z := LongNames.sl_reassemble (map RRPlace.sl_view (prr_sls d)).
(* dr_entries.ce_record as (bl_cont_area, offset_cont_area, len_cont_area) *)
Definition prr_ce (d : rrd) : option (Z * Z * Z) :=
  match ce_record (rd_dr d) with Some c => Some (ce_bl c, ce_off c, ce_len c) | None => None end.
Definition prr_reloc (d : rrd) : bool :=
  is_some (cl_record (rd_dr d)) || is_some (cl_record (rd_ce d)) || is_some (pl_record (rd_dr d))
  || is_some (pl_record (rd_ce d)) || re_record (rd_dr d) || re_record (rd_ce d).

(* ---- DirectoryRecord.parse: XA detection, Rock Ridge detection --------------------------------------------- *)
Inductive xa_res := XaNo | XaYes | XaBad.
(* one turn of `for offset in (0, even_size)`: None = `continue` *)
Definition prr_xa_at (s : list Z) : option xa_res :=
  if zlen s <? 14 then Some XaNo
  else if ps_xa_sig s
       then Some (if zlist_eqb (firstn 5 (skipn 9 s)) [0; 0; 0; 0; 0] then XaYes else XaBad)
       else None.
Definition prr_xa (su : list Z) (len_fi : Z) : xa_res :=
  match prr_xa_at su with
  | Some r => r
  | None => match prr_xa_at (skipn (Z.to_nat (len_fi + len_fi mod 2)) su) with
            | Some r => r
            | None => XaNo
            end
  end.
Definition prr_has_rr (su : list Z) : bool :=
  match su with
  | a :: b :: _ => existsb (fun s => (fst s =? a) && (snd s =? b)) ps_rr_sigs
  | _ => false
  end.
(* `if record[record_offset:record_offset + 2] not in susp_signatures and xa_rec.parse(...)` *)
Definition prr_xa_probe (xafix : bool) (su : list Z) (len_fi : Z) : xa_res :=
  if xafix && prr_has_rr su then XaNo else prr_xa su len_fi.

(* (is_first_dir_record_of_root, bytes_to_skip) *)
Definition prr_skip_for (d : qdir) (cur : list qrec) (r : drec) : presult (bool * Z) :=
  if qd_root d then
    if ps_is_dot r then POk (true, 0)
    else match cur with
         | [] => PInvalid 11
         | c0 :: _ => match q_rr c0 with Some x => POk (false, rd_skip x) | None => PInvalid 12 end
         end
  else match qd_rr d with Some k => POk (false, k) | None => PInvalid 13 end.

(* ---- headervd.track_rr_ce_entry: (index of the block, new rr_ce_blocks); None = track_entry raised ---------- *)
Fixpoint prr_track_ce (bs : list (Z * block)) (e off len : Z) : option (nat * list (Z * block)) :=
  match bs with
  | [] => match track_entry PBS [] off len with Some es => Some (O, [(e, es)]) | None => None end
  | (e0, es0) :: tl =>
      if e0 =? e
      then match track_entry PBS es0 off len with Some es => Some (O, (e0, es) :: tl) | None => None end
      else match prr_track_ce tl e off len with Some (k, tl') => Some (S k, (e0, es0) :: tl') | None => None end
  end.

(* _seek_to_extent(bl); seek(off, SEEK_CUR); read(len) *)
Definition prr_read_at (img : image) (bl off len : Z) : option (list Z) :=
  match Master.ms_img_read img bl (off + len) with
  | Some d => Some (skipn (Z.to_nat off) d)
  | None => None
  end.

(* the RockRidge object of a record and the rr_ce_blocks after it *)
Definition prr_rock (img : image) (d : qdir) (cur : list qrec) (blocks : list (Z * block)) (r : drec)
  : presult (option rrd * list (Z * block)) :=
  if negb (prr_has_rr (sysuse r)) then POk (None, blocks) else
  match prr_skip_for d cur r with
  | POk (first, skip) =>
      match rr_parse (sysuse r) first skip false (empty_entries, empty_entries, V_unset) with
      | None => PInvalid 14
      | Some (dr, ce0, v0) =>
          match ce_record dr with
          | None => POk (Some (mk_rrd dr ce0 v0 skip None), blocks)
          | Some c =>
              match prr_read_at img (ce_bl c) (ce_off c) (ce_len c) with
              | None => PUnsupported 3
              | Some con =>
                  match rr_parse con false skip true (dr, ce0, v0) with
                  | None => PInvalid 15
                  | Some (dr1, ce1, v1) =>
                      if qd_root d && ps_is_dot r
                      then POk (Some (mk_rrd dr1 ce1 v1 skip None), blocks)     (* the ER sector is not tracked *)
                      else match prr_track_ce blocks (ce_bl c) (ce_off c) (ce_len c) with
                           | Some (k, bs') => POk (Some (mk_rrd dr1 ce1 v1 skip (Some k)), bs')
                           | None => PInvalid 16
                           end
                  end
              end
          end
      end
  | PInvalid w => PInvalid w
  | PUnsupported w => PUnsupported w
  | PFuel => PFuel
  end.

(* _set_rock_ridge(rr): None = 'Inconsistent Rock Ridge versions on the ISO!' *)
Definition prr_rrv_eqb (a b : rrv) : bool := rrv_code a =? rrv_code b.
Definition prr_set_ver (cur rr : rrv) : option rrv :=
  match cur with
  | V_unset => Some rr
  | _ => match rr with
         | V_unset => Some cur
         | _ => if prr_rrv_eqb rr cur then Some cur else None
         end
  end.

(* ---- _add_child ------------------------------------------------------------------------------------------- *)
Definition prr_prec (c : qrec) : prec := mk_prec (q_rec c) (q_drlen c) (q_lenfi c) 0 None None 0 0 0.

(* the `while lo < hi` loop over rr_children *)
Fixpoint prr_rr_bisect (fuel : nat) (nm : list Z) (l : list (list Z * list Z)) (lo hi : nat) : nat :=
  match fuel with
  | O => lo
  | S f =>
      if (lo <? hi)%nat then
        let mid := ((lo + hi) / 2)%nat in
        match nth_error l mid with
        | Some a => if Account.bytes_ltb (fst a) nm then prr_rr_bisect f nm l (S mid) hi
                    else prr_rr_bisect f nm l lo mid
        | None => lo
        end
      else lo
  end.
Definition prr_rr_insert (x : list Z * list Z) (l : list (list Z * list Z)) : list (list Z * list Z) :=
  insert_at (prr_rr_bisect (S (length l)) (fst x) l 0 (length l)) x l.

Definition prr_is_dots (r : drec) : bool := ps_is_dot r || ps_is_dotdot r.
Definition prr_rrk_add (child : qrec) (rrk : list (list Z * list Z)) : list (list Z * list Z) :=
  match q_rr child with
  | Some x => if prr_is_dots (q_rec child) then rrk
              else prr_rr_insert (prr_full_name x (ps_printable (q_rec child)), Codec.ident (q_rec child)) rrk
  | None => rrk
  end.

(* parent.track_child(new_record) with the retry of _walk_directories *)
Definition prr_track (d : qdir) (cur : list qrec) (child : qrec) (last : option (list Z)) : presult (list qrec) :=
  let nm := Codec.ident (q_rec child) in
  let index := ps_bisect (S (length cur)) (fun a => ps_lt (Codec.ident (p_rec a)) nm) (map prr_prec cur)
                         0 (length cur) in
  let dup := match nth_error cur index with
             | Some c => zlist_eqb (Codec.ident (q_rec c)) nm && negb (ps_is_assoc (q_rec c))
                         && negb (ps_is_assoc (q_rec child))
                         && negb (is_some (qd_rr d) && zlist_eqb (qd_name d) AccountRR.RR_MOVED)
             | None => false
             end in
  if dup then
    if ps_is_dir (q_rec child)
       || match last with
          | None => true
          | Some l => negb (zlist_eqb l (ps_printable (q_rec child)))
          end
    then PInvalid 4
    else PUnsupported 2
  else POk (insert_at index child cur).

(* ---- one record ------------------------------------------------------------------------------------------------ *)
Definition prr_record_gen (xafix : bool) (img : image) (d : qdir) (sl : wstate * option (list Z))
           (record : list Z) : presult (wstate * option (list Z)) :=
  let '(st, last) := sl in
  match parse_dr record with
  | None => PInvalid 2
  | Some r =>
      match prr_xa_probe xafix (sysuse r) (znth 32 record) with
      | XaBad => PInvalid 10
      | XaYes => PUnsupported 1
      | XaNo =>
          match prr_rock img d (w_cur st) (w_blocks st) r with
          | POk (rr, blocks1) =>
              if match rr with Some x => prr_reloc x | None => false end then PUnsupported 4 else
              match prr_set_ver (w_ver st) (match rr with Some x => rd_ver x | None => V_unset end) with
              | None => PInvalid 17
              | Some ver1 =>
                  let queued := ps_is_dir r && negb (prr_is_dots r) in
                  let dirid := if queued then Some (length (w_dirs st) + 1 + length (w_queue st))%nat else None in
                  let queue1 :=
                    if queued
                    then w_queue st ++ [mk_qdir (extent r) (data_len r) false (Codec.ident r)
                                                (match rr with Some x => Some (rd_skip x) | None => None end)]
                    else w_queue st in
                  let child := mk_qrec r (znth 0 record) (znth 32 record) dirid rr in
                  match prr_track d (w_cur st) child last with
                  | POk cur1 =>
                      POk (mk_wst (w_dirs st) cur1 (prr_rrk_add child (w_rrk st)) queue1 (w_seen st) blocks1 ver1,
                           Some (ps_printable r))
                  | PInvalid w => PInvalid w
                  | PUnsupported w => PUnsupported w
                  | PFuel => PFuel
                  end
              end
          | PInvalid w => PInvalid w
          | PUnsupported w => PUnsupported w
          | PFuel => PFuel
          end
      end
  end.

Definition prr_record := prr_record_gen true.

(* ---- the walk ---------------------------------------------------------------------------------------------------- *)
(* dir_block_range, not clipped by the length of the file (see the header) *)
Definition prr_range (ext len : Z) : list Z :=
  map (fun k => ext + Z.of_nat k) (seq 0 (Z.to_nat (Z.max (ceiling_div len PBS) 1))).
Definition prr_enter (seen : list Z) (ext len : Z) : option (list Z) :=
  let r := prr_range ext len in
  if existsb (fun b => ps_mem b seen) r then None else Some (r ++ seen).

Definition prr_begin_dir (st : wstate) (q : list qdir) (seen : list Z) : wstate :=
  mk_wst (w_dirs st) [] [] q seen (w_blocks st) (w_ver st).
Definition prr_end_dir (st : wstate) : wstate :=
  mk_wst (w_dirs st ++ [mk_pdir (w_cur st) (w_rrk st)]) [] [] (w_queue st) (w_seen st) (w_blocks st) (w_ver st).

Fixpoint prr_walk_gen (xafix : bool) (fuel : nat) (img : image) (st : wstate) : presult wstate :=
  match fuel with
  | O => PFuel
  | S f =>
      match w_queue st with
      | [] => POk st
      | d :: q =>
          match prr_enter (w_seen st) (qd_ext d) (qd_len d) with
          | None => PInvalid 9
          | Some seen =>
              match Master.ms_img_read img (qd_ext d) (qd_len d) with
              | None => PUnsupported 3
              | Some data =>
                  match ps_scan (prr_record_gen xafix img d) (S (length data)) data 0 (qd_len d)
                                (prr_begin_dir st q seen, None) with
                  | POk (st', _) => prr_walk_gen xafix f img (prr_end_dir st')
                  | PInvalid w => PInvalid w
                  | PUnsupported w => PUnsupported w
                  | PFuel => PFuel
                  end
              end
          end
      end
  end.

Definition prr_walk := prr_walk_gen true.

Definition prr_init (root_ext root_len : Z) : wstate :=
  mk_wst [] [] [] [mk_qdir root_ext root_len true [0] None] [] [] V_unset.
Definition prr_graph (st : wstate) : rgraph := mk_rgraph (w_dirs st) (w_blocks st) (w_ver st).

(* PyCdlib._open_fp -> _walk_directories(self.pvd, ..) on the medium [img], the root record taken from the PVD *)
Definition parse_rr_gen (xafix : bool) (fuel : nat) (img : image) (root_ext root_len : Z) : presult rgraph :=
  match prr_walk_gen xafix fuel img (prr_init root_ext root_len) with
  | POk st => POk (prr_graph st)
  | PInvalid w => PInvalid w
  | PUnsupported w => PUnsupported w
  | PFuel => PFuel
  end.
(* the code as it is in /repo *)
Definition parse_rr := parse_rr_gen true.
