(* Byte-level models of the System Use (SUSP / Rock Ridge) entry codecs of /repo/pycdlib/rockridge.py:
   for every entry class its record() (enc_* raw bytes, rec_* with the struct.pack range checks),
   its parse() (parse_*: exactly the length / check-byte / both-endian checks the code performs) and
   its static length().  Definitions only; proofs are in Proofs/RREntriesProofs.v.  The dispatcher
   (RockRidge.parse) and the recorder (RockRidge._record) are in Model/RRWalk.v.

     RRSPRecord RRRRRecord RRCERecord RRPXRecord RRERRecord RRESRecord RRPNRecord
     RRSLRecord(+Component) RRALRecord(+Component) RRNMRecord RRCLRecord RRPLRecord RRTFRecord
     RRSFRecord RRRERecord RRSTRecord RRPDRecord

   Conventions.  bytes = list Z (0..255).  Every parse() receives [rrstr] = the WHOLE remainder of
   the System Use area starting at the entry (recslice = record[offset:]), as in the code.
   struct.unpack_from(fmt, rrstr[:lim], off) is [unpack_from widths rrstr lim off]; the format
   widths are written out next to the FMT string they come from (GenConst.v has no RR formats).
   An exception (struct.error, IndexError, PyCdlibInvalidISO, PyCdlibInternalError) is [None].
   The `_initialized` guards are not modelled (every object is parsed / created once).
   TF: the 7- or 17-byte date objects are modelled by the bytes their record() returns (for a 7-byte
   DirectoryRecordDate parse-then-record is the identity on any 7 bytes, CodecProofs.date7_reencode;
   a 17-byte VolumeDescriptorDate that time.strptime rejects is re-recorded as '0'*16+'\0': not
   modelled here, see Model/Dates.v).  SL name(): `outlist[-1] += name` on an empty outlist
   (IndexError) cannot be reached (continued is only true after an append); it is modelled as an append. *)
From Coq Require Import ZArith List Bool.
From PV.Base Require Import Prim.
From PV.Model Require Import Codec.
From PV.Model Require LongNames.
Import ListNotations.
Local Open Scope Z_scope.

(* ---- helpers ------------------------------------------------------------------------------- *)

(* struct.unpack_from(fmt, rrstr[:lim], off) *)
Definition unpack_from (ws : list nat) (rrstr : list Z) (lim off : nat) : option (list (list Z)) :=
  match split_widths ws (skipn off (firstn lim rrstr)) with
  | Some (fs, _) => Some fs
  | None => None
  end.

(* `le != utils.swab_32bit(be)` -> raise ; else the value is the little-endian copy *)
Definition dboth32 (fle fbe : list Z) : option Z :=
  if dle32 fle =? swab32 (dle32 fbe) then Some (dle32 fle) else None.

Definition mem_z (x : Z) (l : list Z) : bool := existsb (Z.eqb x) l.

Fixpoint concat_opt (l : list (option (list Z))) : option (list Z) :=
  match l with
  | [] => Some []
  | Some b :: r => match concat_opt r with Some t => Some (b ++ t) | None => None end
  | None :: _ => None
  end.

Definition SU_ENTRY_VERSION : Z := 1.
Definition sig_SP : list Z := [83; 80].   Definition sig_RR : list Z := [82; 82].
Definition sig_CE : list Z := [67; 69].   Definition sig_PX : list Z := [80; 88].
Definition sig_ER : list Z := [69; 82].   Definition sig_ES : list Z := [69; 83].
Definition sig_PN : list Z := [80; 78].   Definition sig_SL : list Z := [83; 76].
Definition sig_NM : list Z := [78; 77].   Definition sig_CL : list Z := [67; 76].
Definition sig_PL : list Z := [80; 76].   Definition sig_RE : list Z := [82; 69].
Definition sig_TF : list Z := [84; 70].   Definition sig_SF : list Z := [83; 70].
Definition sig_ST : list Z := [83; 84].   Definition sig_PD : list Z := [80; 68].
Definition sig_AL : list Z := [65; 76].

(* RockRidge.rr_version: '' | '1.09' | '1.10' | '1.12' *)
Inductive rrv : Type := V_unset | V109 | V110 | V112.

(* ---- SP  FMT '=BBBBB' --------------------------------------------------------------------- *)
Definition len_sp : Z := 7.
Definition sp_fields (skip : Z) : list (list Z) := [[len_sp]; [SU_ENTRY_VERSION]; [190]; [239]; [skip]].
Definition enc_sp (skip : Z) : list Z := sig_SP ++ concat (sp_fields skip).
Definition rec_sp (skip : Z) : option (list Z) := if u8_ok skip then Some (enc_sp skip) else None.
Definition parse_sp (rrstr : list Z) : option Z :=
  match unpack_from [1; 1; 1; 1; 1]%nat rrstr 7 2 with
  | Some [f0; f1; f2; f3; f4] =>
      if negb (d8 f0 =? len_sp) then None
      else if negb (d8 f2 =? 190) || negb (d8 f3 =? 239) then None
      else Some (d8 f4)
  | _ => None
  end.

(* ---- RR  FMT '=BBB' ; ES FMT '=BBB' ------------------------------------------------------- *)
Definition len_rr : Z := 5.
Definition enc_rr (fl : Z) : list Z := sig_RR ++ concat [[len_rr]; [SU_ENTRY_VERSION]; [fl]].
Definition rec_rr (fl : Z) : option (list Z) := if u8_ok fl then Some (enc_rr fl) else None.
Definition parse_rr (rrstr : list Z) : option Z :=
  match unpack_from [1; 1; 1]%nat rrstr 5 2 with
  | Some [f0; f1; f2] => if negb (d8 f0 =? len_rr) then None else Some (d8 f2)
  | _ => None
  end.
(* append_field: rr_flags |= 1 << {PX:0,PN:1,SL:2,NM:3,CL:4,PL:5,RE:6,TF:7}[name] *)
Definition rr_append_field (fl bitno : Z) : Z := Z.lor fl (Z.shiftl 1 bitno).

Definition len_es : Z := 5.
Definition enc_es (sq : Z) : list Z := sig_ES ++ concat [[len_es]; [SU_ENTRY_VERSION]; [sq]].
Definition rec_es (sq : Z) : option (list Z) := if u8_ok sq then Some (enc_es sq) else None.
Definition parse_es (rrstr : list Z) : option Z :=
  match unpack_from [1; 1; 1]%nat rrstr 5 2 with
  | Some [f0; f1; f2] => if negb (d8 f0 =? len_es) then None else Some (d8 f2)
  | _ => None
  end.

(* ---- CE  FMT '<BBLLLLLL' ------------------------------------------------------------------ *)
Record ce_rec := mk_ce { ce_bl : Z; ce_off : Z; ce_len : Z }.
Definition len_ce : Z := 28.
Definition ce_fields (c : ce_rec) : list (list Z) :=
  [[len_ce]; [SU_ENTRY_VERSION]; le32 (ce_bl c); le32 (swab32 (ce_bl c));
   le32 (ce_off c); le32 (swab32 (ce_off c)); le32 (ce_len c); le32 (swab32 (ce_len c))].
Definition enc_ce (c : ce_rec) : list Z := sig_CE ++ concat (ce_fields c).
Definition rec_ce (c : ce_rec) : option (list Z) :=
  if u32_ok (ce_bl c) && u32_ok (ce_off c) && u32_ok (ce_len c) then Some (enc_ce c) else None.
Definition parse_ce (rrstr : list Z) : option ce_rec :=
  match unpack_from [1; 1; 4; 4; 4; 4; 4; 4]%nat rrstr 28 2 with
  | Some [f0; f1; b1; b2; o1; o2; l1; l2] =>
      if negb (d8 f0 =? len_ce) then None else
      match dboth32 b1 b2, dboth32 o1 o2, dboth32 l1 l2 with
      | Some b, Some o, Some l => Some (mk_ce b o l)
      | _, _, _ => None
      end
  | _ => None
  end.

(* ---- PX  FMT '<BBLLLLLLLL' (+ '<LL' serial number for 1.12) ------------------------------- *)
Record px_rec := mk_px { px_mode : Z; px_links : Z; px_uid : Z; px_gid : Z; px_serial : Z }.
(* RRPXRecord.length(rr_version); None = PyCdlibInternalError('Invalid rr_version') *)
Definition len_px (v : rrv) : option Z :=
  match v with V109 | V110 => Some 36 | V112 => Some 44 | V_unset => None end.
Definition px_fields (l : Z) (p : px_rec) : list (list Z) :=
  [[l]; [SU_ENTRY_VERSION]; le32 (px_mode p); le32 (swab32 (px_mode p));
   le32 (px_links p); le32 (swab32 (px_links p)); le32 (px_uid p); le32 (swab32 (px_uid p));
   le32 (px_gid p); le32 (swab32 (px_gid p))].
Definition px_serial_fields (p : px_rec) : list (list Z) :=
  [le32 (px_serial p); le32 (swab32 (px_serial p))].
Definition is_v112 (v : rrv) : bool := match v with V112 => true | _ => false end.
Definition enc_px (l : Z) (v : rrv) (p : px_rec) : list Z :=
  sig_PX ++ concat (px_fields l p) ++ (if is_v112 v then concat (px_serial_fields p) else []).
Definition rec_px (v : rrv) (p : px_rec) : option (list Z) :=
  match len_px v with
  | None => None
  | Some l =>
      if u32_ok (px_mode p) && u32_ok (px_links p) && u32_ok (px_uid p) && u32_ok (px_gid p)
         && (negb (is_v112 v) || u32_ok (px_serial p))
      then Some (enc_px l v p) else None
  end.
(* parse returns the record and su_len *)
Definition parse_px (rrstr : list Z) : option (px_rec * Z) :=
  match unpack_from [1; 1; 4; 4; 4; 4; 4; 4; 4; 4]%nat rrstr 38 2 with
  | Some [f0; f1; m1; m2; l1; l2; u1; u2; g1; g2] =>
      match dboth32 m1 m2, dboth32 l1 l2, dboth32 u1 u2, dboth32 g1 g2 with
      | Some mode, Some links, Some uid, Some gid =>
          let su_len := d8 f0 in
          if su_len =? 36 then Some (mk_px mode links uid gid 0, su_len)
          else if su_len =? 44 then
            match unpack_from [4; 4]%nat rrstr 44 36 with
            | Some [s1; s2] =>
                match dboth32 s1 s2 with
                | Some ser => Some (mk_px mode links uid gid ser, su_len)
                | None => None
                end
            | _ => None
            end
          else None
      | _, _, _, _ => None
      end
  | _ => None
  end.

(* ---- ER  FMT '=BBBBBB' + ext_id + ext_des + ext_src --------------------------------------- *)
Record er_rec := mk_er { er_id : list Z; er_des : list Z; er_src : list Z; er_ver : Z }.
Definition len_er (id des src : list Z) : Z := 8 + zlen id + zlen des + zlen src.
Definition er_fields (e : er_rec) : list (list Z) :=
  [[len_er (er_id e) (er_des e) (er_src e)]; [SU_ENTRY_VERSION]; [zlen (er_id e)]; [zlen (er_des e)];
   [zlen (er_src e)]; [er_ver e]].
Definition enc_er (e : er_rec) : list Z :=
  (sig_ER ++ concat (er_fields e)) ++ er_id e ++ er_des e ++ er_src e.
Definition rec_er (e : er_rec) : option (list Z) :=
  if u8_ok (len_er (er_id e) (er_des e) (er_src e)) && u8_ok (zlen (er_id e)) && u8_ok (zlen (er_des e))
     && u8_ok (zlen (er_src e)) && u8_ok (er_ver e)
  then Some (enc_er e) else None.
Definition parse_er (rrstr : list Z) : option er_rec :=
  match unpack_from [1; 1; 1; 1; 1; 1]%nat rrstr 8 2 with
  | Some [f0; f1; f2; f3; f4; f5] =>
      let su_len := d8 f0 in
      let len_id := d8 f2 in let len_des := d8 f3 in let len_src := d8 f4 in
      if zlen rrstr <? su_len then None else
      let total_length := len_id + len_des + len_src in
      if su_len <? total_length then None else
      (* struct.unpack_from('=%ds%ds%ds' % (len_id, len_des, len_src), rrstr, 8) *)
      match split_widths [Z.to_nat len_id; Z.to_nat len_des; Z.to_nat len_src] (skipn 8 rrstr) with
      | Some ([a; b; c], _) => Some (mk_er a b c (d8 f5))
      | _ => None
      end
  | _ => None
  end.
(* the identifiers RockRidge.new() / parse() know *)
Definition EXT_ID_109 : list Z := [82; 82; 73; 80; 95; 49; 57; 57; 49; 65].      (* RRIP_1991A *)
Definition EXT_ID_112 : list Z := [73; 69; 69; 69; 95; 80; 49; 50; 56; 50].      (* IEEE_P1282 *)

(* ---- PN  FMT '<BBLLLL' ; CL / PL FMT '<BBLL' ---------------------------------------------- *)
Record pn_rec := mk_pn { pn_high : Z; pn_low : Z }.
Definition len_pn : Z := 20.
Definition pn_fields (p : pn_rec) : list (list Z) :=
  [[len_pn]; [SU_ENTRY_VERSION]; le32 (pn_high p); le32 (swab32 (pn_high p));
   le32 (pn_low p); le32 (swab32 (pn_low p))].
Definition enc_pn (p : pn_rec) : list Z := sig_PN ++ concat (pn_fields p).
Definition rec_pn (p : pn_rec) : option (list Z) :=
  if u32_ok (pn_high p) && u32_ok (pn_low p) then Some (enc_pn p) else None.
Definition parse_pn (rrstr : list Z) : option pn_rec :=
  match unpack_from [1; 1; 4; 4; 4; 4]%nat rrstr 20 2 with
  | Some [f0; f1; h1; h2; l1; l2] =>
      if negb (d8 f0 =? len_pn) then None else
      match dboth32 h1 h2, dboth32 l1 l2 with
      | Some h, Some l => Some (mk_pn h l)
      | _, _ => None
      end
  | _ => None
  end.

Definition len_link : Z := 12.     (* RRCLRecord.length() = RRPLRecord.length() *)
Definition link_fields (bl : Z) : list (list Z) :=
  [[len_link]; [SU_ENTRY_VERSION]; le32 bl; le32 (swab32 bl)].
Definition enc_link (sg : list Z) (bl : Z) : list Z := sg ++ concat (link_fields bl).
Definition rec_link (sg : list Z) (bl : Z) : option (list Z) :=
  if u32_ok bl then Some (enc_link sg bl) else None.
Definition parse_link (rrstr : list Z) : option Z :=
  match unpack_from [1; 1; 4; 4]%nat rrstr 12 2 with
  | Some [f0; f1; b1; b2] => if negb (d8 f0 =? len_link) then None else dboth32 b1 b2
  | _ => None
  end.

(* ---- RE / ST  FMT '=BB' ; PD FMT '=BB' + padding ------------------------------------------ *)
Definition len_re : Z := 4.
Definition enc_bare (sg : list Z) : list Z := sg ++ concat [[len_re]; [SU_ENTRY_VERSION]].
Definition parse_bare (rrstr : list Z) : option unit :=
  match unpack_from [1; 1]%nat rrstr 4 2 with
  | Some [f0; f1] => if negb (d8 f0 =? 4) then None else Some tt
  | _ => None
  end.

Definition len_pd (padding : list Z) : Z := 4 + zlen padding.
Definition enc_pd (padding : list Z) : list Z :=
  (sig_PD ++ concat [[len_pd padding]; [SU_ENTRY_VERSION]]) ++ padding.
Definition rec_pd (padding : list Z) : option (list Z) :=
  if u8_ok (len_pd padding) then Some (enc_pd padding) else None.
(* self.padding = rrstr[4:]  -- everything that follows, NOT su_len - 4 bytes *)
Definition parse_pd (rrstr : list Z) : option (list Z) :=
  match unpack_from [1; 1]%nat rrstr 4 2 with
  | Some [f0; f1] => Some (skipn 4 rrstr)
  | _ => None
  end.

(* ---- NM  FMT '=BBB' + name ---------------------------------------------------------------- *)
Record nm_rec := mk_nm { nm_flags : Z; nm_name : list Z }.
Definition len_nm (name : list Z) : Z := 5 + zlen name.
Definition enc_nm (n : nm_rec) : list Z :=
  (sig_NM ++ concat [[len_nm (nm_name n)]; [SU_ENTRY_VERSION]; [nm_flags n]]) ++ nm_name n.
Definition rec_nm (n : nm_rec) : option (list Z) :=
  if u8_ok (len_nm (nm_name n)) && u8_ok (nm_flags n) then Some (enc_nm n) else None.
Definition nm_flags_valid (fl : Z) : bool := mem_z (Z.land fl 7) [0; 1; 2; 4].
Definition nm_flags_noname (fl : Z) : bool := flag_set fl 1 || flag_set fl 2 || flag_set fl 5.
Definition parse_nm (rrstr : list Z) : option nm_rec :=
  match unpack_from [1; 1; 1]%nat rrstr 5 2 with
  | Some [f0; f1; f2] =>
      let su_len := d8 f0 in let fl := d8 f2 in
      let name_len := su_len - 5 in
      if negb (nm_flags_valid fl) then None
      else if negb (name_len =? 0) then
        if nm_flags_noname fl then None else Some (mk_nm fl (slice 5 (5 + name_len) rrstr))
      else Some (mk_nm fl [])
  | _ => None
  end.
Definition nm_set_continued (n : nm_rec) : nm_rec := mk_nm (Z.lor (nm_flags n) 1) (nm_name n).

(* ---- SL / AL components -------------------------------------------------------------------- *)
Record comp := mk_comp { c_flags : Z; c_len : Z; c_data : list Z }.

Definition s_dot : list Z := [46].   Definition s_dotdot : list Z := [46; 46].
Definition s_slash : list Z := [47].
Definition is_special (s : list Z) : bool :=
  zlist_eqb s s_dot || zlist_eqb s s_dotdot || zlist_eqb s s_slash.

(* RRSLRecord.Component.__init__ checks *)
Definition sl_comp_init_ok (fl ln : Z) : bool :=
  mem_z fl [0; 1; 2; 4; 8] &&
  negb ((flag_set fl 1 || flag_set fl 2 || flag_set fl 3) && negb (ln =? 0)).
(* RRALRecord.Component.__init__ check *)
Definition al_comp_init_ok (fl ln : Z) : bool := mem_z fl [0; 1].

(* Component.name() *)
Definition comp_name (c : comp) : list Z :=
  if flag_set (c_flags c) 1 then s_dot else if flag_set (c_flags c) 2 then s_dotdot
  else if flag_set (c_flags c) 3 then s_slash else c_data c.
Definition comp_is_continued (c : comp) : bool := flag_set (c_flags c) 0.
Definition comp_set_continued (c : comp) : comp := mk_comp (Z.lor (c_flags c) 1) (c_len c) (c_data c).
(* Component.length(name) (static) *)
Definition sl_comp_length (name : list Z) : Z := if is_special name then 2 else 2 + zlen name.
(* Component.record() *)
Definition sl_comp_enc (c : comp) : list Z :=
  if flag_set (c_flags c) 1 then [2; 0] else if flag_set (c_flags c) 2 then [4; 0]
  else if flag_set (c_flags c) 3 then [8; 0] else [c_flags c; c_len c] ++ c_data c.
Definition sl_comp_packable (c : comp) : bool :=
  flag_set (c_flags c) 1 || flag_set (c_flags c) 2 || flag_set (c_flags c) 3
  || (u8_ok (c_flags c) && u8_ok (c_len c)).
(* Component.factory(name) = factory(name, literal=False) *)
Definition sl_factory (name : list Z) : comp :=
  if zlist_eqb name s_dot then mk_comp 2 0 name
  else if zlist_eqb name s_dotdot then mk_comp 4 0 name
  else if zlist_eqb name s_slash then mk_comp 8 0 name
  else mk_comp 0 (zlen name) name.
(* Component.factory(name, literal=True): a piece of a longer name, '.', '..', '/' mean nothing *)
Definition sl_factory_lit (name : list Z) : comp := mk_comp 0 (zlen name) name.
Definition sl_factory_gen (literal : bool) (name : list Z) : comp :=
  if literal then sl_factory_lit name else sl_factory name.
(* Component.recorded_length() *)
Definition comp_recorded_length (c : comp) : Z :=
  if flag_set (c_flags c) 1 || flag_set (c_flags c) 2 || flag_set (c_flags c) 3 then 2 else 2 + c_len c.

Definition al_comp_enc (c : comp) : list Z := [c_flags c; c_len c] ++ c_data c.
Definition al_comp_packable (c : comp) : bool := u8_ok (c_flags c) && u8_ok (c_len c).
Definition al_factory (d : list Z) : comp := mk_comp 0 (zlen d) d.

(* the `while data_len > 0` loop shared by RRSLRecord.parse and RRALRecord.parse; [ok] is the
   Component constructor check.  data_len decreases by >= 2 per turn. *)
Fixpoint parse_comps (ok : Z -> Z -> bool) (fuel : nat) (rrstr : list Z) (cr_offset data_len : Z)
  : option (list comp) :=
  match fuel with
  | O => None
  | S f =>
      if 0 <? data_len then
        match skipn (Z.to_nat cr_offset) (firstn (Z.to_nat (cr_offset + 2)) rrstr) with
        | cr_flags :: len_cp :: _ =>
            if ok cr_flags len_cp then
              let data := slice (cr_offset + 2) (cr_offset + 2 + len_cp) rrstr in
              match parse_comps ok f rrstr (cr_offset + 2 + len_cp) (data_len - 2 - len_cp) with
              | Some cs => Some (mk_comp cr_flags len_cp data :: cs)
              | None => None
              end
            else None
        | _ => None
        end
      else Some []
  end.

(* ---- SL  '=BBB' + components -------------------------------------------------------------- *)
Record sl_rec := mk_sl { sl_flags : Z; sl_comps : list comp }.
(* RRSLRecord.length(names) *)
Definition len_sl (names : list (list Z)) : Z := fold_left (fun l n => l + sl_comp_length n) names 5.
(* RRSLRecord.current_length(): header_length() + the recorded_length() of every component *)
Definition sl_current_length (s : sl_rec) : Z :=
  fold_left (fun l c => l + comp_recorded_length c) (sl_comps s) 5.
Definition enc_sl (s : sl_rec) : list Z :=
  (sig_SL ++ concat [[sl_current_length s]; [SU_ENTRY_VERSION]; [sl_flags s]])
  ++ concat (map sl_comp_enc (sl_comps s)).
Definition rec_sl (s : sl_rec) : option (list Z) :=
  if u8_ok (sl_current_length s) && u8_ok (sl_flags s) && forallb sl_comp_packable (sl_comps s)
  then Some (enc_sl s) else None.
Definition parse_sl (rrstr : list Z) : option sl_rec :=
  match unpack_from [1; 1; 1]%nat rrstr 5 2 with
  | Some [f0; f1; f2] =>
      let su_len := d8 f0 in
      match parse_comps sl_comp_init_ok (S (Z.to_nat su_len)) rrstr 5 (su_len - 5) with
      | Some cs => Some (mk_sl (d8 f2) cs)
      | None => None
      end
  | _ => None
  end.
(* add_component(name, literal): None = PyCdlibInvalidInput('Symlink would be longer than 255') *)
Definition sl_add_component (s : sl_rec) (name : list Z) (literal : bool) : option sl_rec :=
  let c := sl_factory_gen literal name in
  if 255 <? sl_current_length s + comp_recorded_length c then None
  else Some (mk_sl (sl_flags s) (sl_comps s ++ [c])).
Definition sl_set_continued (s : sl_rec) : sl_rec := mk_sl (Z.lor (sl_flags s) 1) (sl_comps s).

(* RRSLRecord.name() *)
Definition append_last (out : list (list Z)) (name : list Z) : list (list Z) :=
  match rev out with
  | last :: r => rev r ++ [last ++ name]
  | [] => [name]          (* IndexError in Python; unreachable, see the header *)
  end.
Definition sl_name_step (st : list (list Z) * bool) (c : comp) : list (list Z) * bool :=
  let '(outlist, continued) := st in
  let name0 := comp_name c in
  let isroot := zlist_eqb name0 s_slash in
  let outlist1 := if isroot then [] else outlist in
  let continued1 := if isroot then false else continued in
  let name := if isroot then [] else name0 in
  ((if negb continued1 then outlist1 ++ [name] else append_last outlist1 name), comp_is_continued c).
Definition sl_name (cs : list comp) : list Z :=
  LongNames.join_slash (fst (fold_left sl_name_step cs ([], false))).

(* the components _new_symlink hands to add_component for a target that needs no cutting:
   for index, comp in enumerate(symlink_path.split(b'/')): if index == 0 and comp == b'': comp = b'/' ;
   '/', '.', '..' go through factory(comp), every other piece through factory(comp, literal=True), which for
   a piece that is none of the three is the same component *)
Definition components_of_target (t : list Z) : list comp :=
  match LongNames.split_slash t with
  | [] => []
  | p :: ps => sl_factory (match p with [] => s_slash | _ => p end) :: map sl_factory ps
  end.

(* ---- AL  '=BBB' + components -------------------------------------------------------------- *)
Record al_rec := mk_al { al_flags : Z; al_comps : list comp }.
Definition len_al (attrs : list (list Z)) : Z := fold_left (fun l a => l + (2 + zlen a)) attrs 5.
Definition al_current_length (a : al_rec) : Z := len_al (map c_data (al_comps a)).
Definition enc_al (a : al_rec) : list Z :=
  (sig_AL ++ concat [[al_current_length a]; [SU_ENTRY_VERSION]; [al_flags a]])
  ++ concat (map al_comp_enc (al_comps a)).
Definition rec_al (a : al_rec) : option (list Z) :=
  if u8_ok (al_current_length a) && u8_ok (al_flags a) && forallb al_comp_packable (al_comps a)
  then Some (enc_al a) else None.
Definition parse_al (rrstr : list Z) : option al_rec :=
  match unpack_from [1; 1; 1]%nat rrstr 5 2 with
  | Some [f0; f1; f2] =>
      let su_len := d8 f0 in
      match parse_comps al_comp_init_ok (S (Z.to_nat su_len)) rrstr 5 (su_len - 5) with
      | Some cs => Some (mk_al (d8 f2) cs)
      | None => None
      end
  | _ => None
  end.

(* ---- TF  '=BBB' + dates -------------------------------------------------------------------- *)
(* tf_fields: the 7 attributes FIELDNAMES in order; None = attribute is None; Some b = b is what the
   date object's record() returns *)
Record tf_rec := mk_tf { tf_flags : Z; tf_fields : list (option (list Z)) }.
Definition tf_indices : list Z := [0; 1; 2; 3; 4; 5; 6].
Definition tf_each (fl : Z) : Z := if flag_set fl 7 then 17 else 7.
(* `while time_flags: time_flags &= time_flags - 1; tf_num += 1` on a value < 128 *)
Fixpoint popcount_loop (fuel : nat) (f : Z) : Z :=
  match fuel with
  | O => 0
  | S k => if f =? 0 then 0 else 1 + popcount_loop k (Z.land f (f - 1))
  end.
Definition len_tf (fl : Z) : Z := 5 + tf_each fl * popcount_loop 8 (Z.land fl 127).
Definition tf_present (fs : list (option (list Z))) : list (list Z) :=
  flat_map (fun o => match o with Some b => [b] | None => [] end) fs.
Definition enc_tf (t : tf_rec) : list Z :=
  (sig_TF ++ concat [[len_tf (tf_flags t)]; [SU_ENTRY_VERSION]; [tf_flags t]])
  ++ concat (tf_present (tf_fields t)).
Definition rec_tf (t : tf_rec) : option (list Z) :=
  if u8_ok (len_tf (tf_flags t)) && u8_ok (tf_flags t) then Some (enc_tf t) else None.
(* the for loop of parse; DirectoryRecordDate.parse needs 7 bytes, VolumeDescriptorDate.parse 17 *)
Fixpoint tf_parse_fields (idxs : list Z) (fl tflen : Z) (rrstr : list Z) (offset : Z)
  : option (list (option (list Z))) :=
  match idxs with
  | [] => Some []
  | i :: r =>
      if flag_set fl i then
        let d := slice offset (offset + tflen) rrstr in
        if zlen d =? tflen then
          match tf_parse_fields r fl tflen rrstr (offset + tflen) with
          | Some fs => Some (Some d :: fs)
          | None => None
          end
        else None
      else match tf_parse_fields r fl tflen rrstr offset with
           | Some fs => Some (None :: fs)
           | None => None
           end
  end.
Definition parse_tf (rrstr : list Z) : option tf_rec :=
  match unpack_from [1; 1; 1]%nat rrstr 5 2 with
  | Some [f0; f1; f2] =>
      if d8 f0 <? 5 then None else
      match tf_parse_fields tf_indices (d8 f2) (tf_each (d8 f2)) rrstr 5 with
      | Some fs => Some (mk_tf (d8 f2) fs)
      | None => None
      end
  | _ => None
  end.

(* ---- SF  '=BB' + '<LL' | '<LLLLB' --------------------------------------------------------- *)
Record sf_rec := mk_sf { sf_high : option Z; sf_low : Z; sf_depth : option Z }.
(* RRSFRecord.length(rr_version) *)
Definition len_sf (v : rrv) : option Z :=
  match v with V110 => Some 12 | V112 => Some 21 | _ => None end.
Definition sf_len_byte (s : sf_rec) : Z := match sf_high s with Some _ => 21 | None => 12 end.
Definition enc_sf (s : sf_rec) : list Z :=
  (sig_SF ++ concat [[sf_len_byte s]; [SU_ENTRY_VERSION]]) ++
  match sf_high s, sf_depth s with
  | Some h, Some d => concat [le32 h; le32 (swab32 h); le32 (sf_low s); le32 (swab32 (sf_low s)); [d]]
  | _, _ => concat [le32 (sf_low s); le32 (swab32 (sf_low s))]
  end.
Definition rec_sf (s : sf_rec) : option (list Z) :=
  match sf_high s, sf_depth s with
  | Some h, Some d => if u32_ok h && u32_ok (sf_low s) && u8_ok d then Some (enc_sf s) else None
  | _, _ => if u32_ok (sf_low s) then Some (enc_sf s) else None
  end.
Definition parse_sf (rrstr : list Z) : option sf_rec :=
  match unpack_from [1; 1]%nat rrstr 4 2 with
  | Some [f0; f1] =>
      let su_len := d8 f0 in
      if su_len =? 12 then
        match unpack_from [4; 4]%nat rrstr 12 4 with
        | Some [l1; l2] =>
            match dboth32 l1 l2 with Some l => Some (mk_sf None l None) | None => None end
        | _ => None
        end
      else if su_len =? 21 then
        match unpack_from [4; 4; 4; 4; 1]%nat rrstr 21 4 with
        | Some [h1; h2; l1; l2; td] =>
            match dboth32 h1 h2, dboth32 l1 l2 with
            | Some h, Some l => Some (mk_sf (Some h) l (Some (d8 td)))
            | _, _ => None
            end
        | _ => None
        end
      else None
  | _ => None
  end.

(* ---- one System Use entry ------------------------------------------------------------------ *)
Inductive su_entry : Type :=
| E_SP (skip : Z) | E_RR (fl : Z) | E_CE (c : ce_rec) | E_PX (p : px_rec) | E_ER (e : er_rec)
| E_ES (sq : Z) | E_PN (p : pn_rec) | E_SL (s : sl_rec) | E_NM (n : nm_rec) | E_CL (bl : Z)
| E_PL (bl : Z) | E_RE | E_ST | E_TF (t : tf_rec) | E_SF (s : sf_rec) | E_PD (padding : list Z)
| E_AL (a : al_rec).

Definition sig_of (e : su_entry) : list Z :=
  match e with
  | E_SP _ => sig_SP | E_RR _ => sig_RR | E_CE _ => sig_CE | E_PX _ => sig_PX | E_ER _ => sig_ER
  | E_ES _ => sig_ES | E_PN _ => sig_PN | E_SL _ => sig_SL | E_NM _ => sig_NM | E_CL _ => sig_CL
  | E_PL _ => sig_PL | E_RE => sig_RE | E_ST => sig_ST | E_TF _ => sig_TF | E_SF _ => sig_SF
  | E_PD _ => sig_PD | E_AL _ => sig_AL
  end.

(* <entry>.record()  (PX: record(self.rr_version)) *)
Definition rec_entry (v : rrv) (e : su_entry) : option (list Z) :=
  match e with
  | E_SP x => rec_sp x | E_RR x => rec_rr x | E_CE c => rec_ce c | E_PX p => rec_px v p
  | E_ER x => rec_er x | E_ES x => rec_es x | E_PN p => rec_pn p | E_SL s => rec_sl s
  | E_NM n => rec_nm n | E_CL b => rec_link sig_CL b | E_PL b => rec_link sig_PL b
  | E_RE => Some (enc_bare sig_RE) | E_ST => Some (enc_bare sig_ST) | E_TF t => rec_tf t
  | E_SF s => rec_sf s | E_PD p => rec_pd p | E_AL a => rec_al a
  end.

Definition opt_map {A B} (f : A -> B) (o : option A) : option B :=
  match o with Some a => Some (f a) | None => None end.

(* the if/elif chain of RockRidge.parse on rtype: the entry and su_len as the PX parser returns it
   (0 for the other kinds); None also for 'Unknown SUSP record' *)
Definition parse_entry (rtype recslice : list Z) : option (su_entry * Z) :=
  let z {A} (f : A -> su_entry) (o : option A) := opt_map (fun a => (f a, 0)) o in
  if zlist_eqb rtype sig_SP then z E_SP (parse_sp recslice)
  else if zlist_eqb rtype sig_RR then z E_RR (parse_rr recslice)
  else if zlist_eqb rtype sig_CE then z E_CE (parse_ce recslice)
  else if zlist_eqb rtype sig_PX then opt_map (fun pl => (E_PX (fst pl), snd pl)) (parse_px recslice)
  else if zlist_eqb rtype sig_PD then z E_PD (parse_pd recslice)
  else if zlist_eqb rtype sig_ST then z (fun _ => E_ST) (parse_bare recslice)
  else if zlist_eqb rtype sig_ER then z E_ER (parse_er recslice)
  else if zlist_eqb rtype sig_ES then z E_ES (parse_es recslice)
  else if zlist_eqb rtype sig_PN then z E_PN (parse_pn recslice)
  else if zlist_eqb rtype sig_SL then z E_SL (parse_sl recslice)
  else if zlist_eqb rtype sig_NM then z E_NM (parse_nm recslice)
  else if zlist_eqb rtype sig_CL then z E_CL (parse_link recslice)
  else if zlist_eqb rtype sig_PL then z E_PL (parse_link recslice)
  else if zlist_eqb rtype sig_RE then z (fun _ => E_RE) (parse_bare recslice)
  else if zlist_eqb rtype sig_TF then z E_TF (parse_tf recslice)
  else if zlist_eqb rtype sig_SF then z E_SF (parse_sf recslice)
  else if zlist_eqb rtype sig_AL then z E_AL (parse_al recslice)
  else None.

(* the static length() of the entry's class, with the arguments the callers pass (SL: current_length()) *)
Definition static_len (v : rrv) (e : su_entry) : option Z :=
  match e with
  | E_SP _ => Some len_sp | E_RR _ => Some len_rr | E_CE _ => Some len_ce | E_PX _ => len_px v
  | E_ER x => Some (len_er (er_id x) (er_des x) (er_src x)) | E_ES _ => Some len_es
  | E_PN _ => Some len_pn | E_SL s => Some (sl_current_length s)
  | E_NM n => Some (len_nm (nm_name n)) | E_CL _ | E_PL _ => Some len_link
  | E_RE | E_ST => Some len_re | E_TF t => Some (len_tf (tf_flags t)) | E_SF _ => len_sf v
  | E_PD p => Some (len_pd p) | E_AL a => Some (len_al (map c_data (al_comps a)))
  end.

(* ---- range predicates under which parse (record x) = x (Proofs/RREntriesProofs.v) ---------- *)
Definition bytes_ok (l : list Z) : bool := forallb u8_ok l.

(* a component as it is after parse(): ./../root have no data; a plain one may spell anything (a slice "." of
   a longer name is a plain component: recorded_length() counts what record() writes) *)
Definition sl_comp_ok (c : comp) : bool :=
  (mem_z (c_flags c) [2; 4; 8] && (c_len c =? 0) && match c_data c with [] => true | _ => false end)
  || (mem_z (c_flags c) [0; 1] && (c_len c =? zlen (c_data c)) && u8_ok (c_len c)).
Definition al_comp_ok (c : comp) : bool :=
  mem_z (c_flags c) [0; 1] && (c_len c =? zlen (c_data c)) && u8_ok (c_len c).
Definition sl_ok (s : sl_rec) : bool :=
  u8_ok (sl_flags s) && forallb sl_comp_ok (sl_comps s) && (sl_current_length s <=? 255).
Definition al_ok (a : al_rec) : bool :=
  u8_ok (al_flags a) && forallb al_comp_ok (al_comps a) && (al_current_length a <=? 255).
Definition nm_ok (n : nm_rec) : bool :=
  u8_ok (nm_flags n) && (len_nm (nm_name n) <=? 255) && nm_flags_valid (nm_flags n)
  && (match nm_name n with [] => true | _ => negb (nm_flags_noname (nm_flags n)) end).
Fixpoint tf_fields_ok (idxs : list Z) (fl : Z) (fs : list (option (list Z))) : bool :=
  match idxs, fs with
  | [], [] => true
  | i :: r, Some b :: fs' => flag_set fl i && (zlen b =? tf_each fl) && tf_fields_ok r fl fs'
  | i :: r, None :: fs' => negb (flag_set fl i) && tf_fields_ok r fl fs'
  | _, _ => false
  end.
Definition tf_ok (t : tf_rec) : bool := u8_ok (tf_flags t) && tf_fields_ok tf_indices (tf_flags t) (tf_fields t).
Definition sf_ok (s : sf_rec) : bool :=
  match sf_high s, sf_depth s with
  | Some h, Some d => u32_ok h && u32_ok (sf_low s) && u8_ok d
  | None, None => u32_ok (sf_low s)
  | _, _ => false
  end.
Definition px_ok (v : rrv) (p : px_rec) : bool :=
  u32_ok (px_mode p) && u32_ok (px_links p) && u32_ok (px_uid p) && u32_ok (px_gid p) &&
  match v with V112 => u32_ok (px_serial p) | V109 | V110 => px_serial p =? 0 | V_unset => false end.
Definition er_ok (e : er_rec) : bool :=
  (len_er (er_id e) (er_des e) (er_src e) <=? 255) && u8_ok (er_ver e).

Definition entry_ok (v : rrv) (e : su_entry) : bool :=
  match e with
  | E_SP x | E_RR x | E_ES x => u8_ok x
  | E_CE c => u32_ok (ce_bl c) && u32_ok (ce_off c) && u32_ok (ce_len c)
  | E_PX p => px_ok v p
  | E_ER x => er_ok x
  | E_PN p => u32_ok (pn_high p) && u32_ok (pn_low p)
  | E_SL s => sl_ok s
  | E_NM n => nm_ok n
  | E_CL b | E_PL b => u32_ok b
  | E_RE | E_ST => true
  | E_TF t => tf_ok t
  | E_SF s => sf_ok s
  | E_PD p => len_pd p <=? 255
  | E_AL a => al_ok a
  end.
