(* The System Use area walker and recorder of /repo/pycdlib/rockridge.py on top of Model/RREntries.v:
     RockRidgeEntries                       -> rr_entries
     RockRidge.parse (the while loop)       -> su_header / dispatch / su_loop (faithful, interleaved)
                                               walk_su + ins_all (the same loop split into a stateless
                                               walk and the classification; equal by RRWalkProofs.su_loop_split)
     RockRidge.parse (version inference)    -> infer_version ; rr_parse = loop + inference
     RockRidge._record / record_dr_entries / record_ce_entries -> entries_list / record_entries
   and the executable checkers for the external differential harness (bottom of the file).
   Definitions only; proofs are in Proofs/RRWalkProofs.v.

   Not modelled: _full_name (the NM join is LongNames.nm_join), the `_initialized` flags, negative
   bytes_to_skip.  `getattr(entries, name)` truthiness: a record object is always truthy, so
   "slot is not None".  re_record / st_record carry no data: bool = "is not None".

   TUPLE FORMATS of the checkers (expected = [] stands for "the Python call raised"):
     check_su_area  : list Z -> bool          bytes of record_dr_entries() / record_ce_entries() or of a
                                              System Use field read from an image (trailing zeros allowed)
     check_px_case  : vcode (109|110|112) -> (mode, links, uid, gid, serial) -> expected -> bool
     check_sl_case  : sl flags -> [(comp flags, comp curr_length, comp data)] -> expected -> bool
     check_nm_case  : (flags, name) -> expected -> bool
     check_tf_case  : (time_flags, [bytes of field i or [] when the field is None] (7 items)) -> expected -> bool
     check_parse_case : area -> is_first_dir_record_of_root -> (vcode after parse or 0 when parse raised,
                        record_dr_entries() of the parsed object) -> bool
                        (RockRidge().parse(area, first, 0, False, _) on a fresh object)
     bad_*_cases k cases : indices (from k) of the failing cases. *)
From Coq Require Import ZArith List Bool.
From PV.Base Require Import Prim.
From PV.Model Require Import Codec RREntries.
Import ListNotations.
Local Open Scope Z_scope.

Record rr_entries := mk_entries {
  sp_record : option Z; rr_record : option Z; ce_record : option ce_rec; px_record : option px_rec;
  er_record : option er_rec; es_records : list Z; pn_record : option pn_rec;
  sl_records : list sl_rec; nm_records : list nm_rec; cl_record : option Z; pl_record : option Z;
  tf_record : option tf_rec; sf_record : option sf_rec; re_record : bool; st_record : bool;
  pd_records : list (list Z); al_records : list al_rec }.

Definition empty_entries : rr_entries :=
  mk_entries None None None None None [] None [] [] None None None None false false [] [].

Definition is_some {A} (o : option A) : bool := match o with Some _ => true | None => false end.

(* `if rtype in (b'SP', b'RR', b'CE', b'PX', b'ST', b'ER', b'PN', b'CL', b'PL', b'RE', b'TF', b'SF'):
      getattr(entries, rtype.lower() + '_record')` ; false for the list-valued kinds *)
Definition slot_filled (E : rr_entries) (rtype : list Z) : bool :=
  if zlist_eqb rtype sig_SP then is_some (sp_record E)
  else if zlist_eqb rtype sig_RR then is_some (rr_record E)
  else if zlist_eqb rtype sig_CE then is_some (ce_record E)
  else if zlist_eqb rtype sig_PX then is_some (px_record E)
  else if zlist_eqb rtype sig_ST then st_record E
  else if zlist_eqb rtype sig_ER then is_some (er_record E)
  else if zlist_eqb rtype sig_PN then is_some (pn_record E)
  else if zlist_eqb rtype sig_CL then is_some (cl_record E)
  else if zlist_eqb rtype sig_PL then is_some (pl_record E)
  else if zlist_eqb rtype sig_RE then re_record E
  else if zlist_eqb rtype sig_TF then is_some (tf_record E)
  else if zlist_eqb rtype sig_SF then is_some (sf_record E)
  else false.

(* entry_list.<x>_record = ... / entry_list.<x>_records.append(...) *)
Definition insert (e : su_entry) (E : rr_entries) : rr_entries :=
  let '(mk_entries sp rr ce px er es pn sl nm cl pl tf sf re st pd al) := E in
  match e with
  | E_SP x => mk_entries (Some x) rr ce px er es pn sl nm cl pl tf sf re st pd al
  | E_RR x => mk_entries sp (Some x) ce px er es pn sl nm cl pl tf sf re st pd al
  | E_CE x => mk_entries sp rr (Some x) px er es pn sl nm cl pl tf sf re st pd al
  | E_PX x => mk_entries sp rr ce (Some x) er es pn sl nm cl pl tf sf re st pd al
  | E_ER x => mk_entries sp rr ce px (Some x) es pn sl nm cl pl tf sf re st pd al
  | E_ES x => mk_entries sp rr ce px er (es ++ [x]) pn sl nm cl pl tf sf re st pd al
  | E_PN x => mk_entries sp rr ce px er es (Some x) sl nm cl pl tf sf re st pd al
  | E_SL x => mk_entries sp rr ce px er es pn (sl ++ [x]) nm cl pl tf sf re st pd al
  | E_NM x => mk_entries sp rr ce px er es pn sl (nm ++ [x]) cl pl tf sf re st pd al
  | E_CL x => mk_entries sp rr ce px er es pn sl nm (Some x) pl tf sf re st pd al
  | E_PL x => mk_entries sp rr ce px er es pn sl nm cl (Some x) tf sf re st pd al
  | E_TF x => mk_entries sp rr ce px er es pn sl nm cl pl (Some x) sf re st pd al
  | E_SF x => mk_entries sp rr ce px er es pn sl nm cl pl tf (Some x) re st pd al
  | E_RE => mk_entries sp rr ce px er es pn sl nm cl pl tf sf true st pd al
  | E_ST => mk_entries sp rr ce px er es pn sl nm cl pl tf sf re true pd al
  | E_PD x => mk_entries sp rr ce px er es pn sl nm cl pl tf sf re st (pd ++ [x]) al
  | E_AL x => mk_entries sp rr ce px er es pn sl nm cl pl tf sf re st pd (al ++ [x])
  end.

(* px_record_length, has_es_record, sf_record_length, er_id *)
Record vinfo := mk_vi { vi_px_len : option Z; vi_has_es : bool; vi_sf_len : option Z;
                        vi_er_id : option (list Z) }.
Definition vi0 : vinfo := mk_vi None false None None.
(* aux = what RRPXRecord.parse returned ; slice_len = len(recslice) *)
Definition vi_update (e : su_entry) (aux slice_len : Z) (vi : vinfo) : vinfo :=
  match e with
  | E_PX _ => mk_vi (Some aux) (vi_has_es vi) (vi_sf_len vi) (vi_er_id vi)
  | E_ES _ => mk_vi (vi_px_len vi) true (vi_sf_len vi) (vi_er_id vi)
  | E_SF _ => mk_vi (vi_px_len vi) (vi_has_es vi) (Some slice_len) (vi_er_id vi)
  | E_ER x => mk_vi (vi_px_len vi) (vi_has_es vi) (vi_sf_len vi) (Some (er_id x))
  | _ => vi
  end.

(* head of one turn of `while True`: the three `left` tests, the '=2sBB' header, version and zero
   length tests.  R_entry rtype su_len recslice *)
Inductive step_res : Type := R_end | R_err | R_entry (rtype : list Z) (su_len : Z) (recslice : list Z).
Definition su_header (record : list Z) (offset left : Z) : step_res :=
  if left =? 0 then R_end
  else if left =? 1 then
    match skipn (Z.to_nat offset) record with            (* record[offset]; IndexError -> R_err *)
    | b :: _ => if b =? 0 then R_end else R_err
    | [] => R_err
    end
  else if left <? 4 then R_err
  else match skipn (Z.to_nat offset) (firstn (Z.to_nat (offset + 4)) record) with
       | [t0; t1; su_len; su_entry_version] =>
           if negb (su_entry_version =? SU_ENTRY_VERSION) then R_err
           else if su_len =? 0 then R_err
           else R_entry [t0; t1] su_len (skipn (Z.to_nat offset) record)
       | _ => R_err                                      (* struct.error *)
       end.

(* the if/elif chain; SP: `if left < 7 or not is_first_dir_record_of_root: raise` *)
Definition dispatch (first : bool) (left : Z) (rtype recslice : list Z) : option (su_entry * Z) :=
  if zlist_eqb rtype sig_SP && ((left <? 7) || negb first) then None
  else parse_entry rtype recslice.

(* RockRidge.parse, the loop: [acc] = entry_list, [other] = the other of dr_entries / ce_entries.
   Every turn consumes su_len >= 1 of [left]; fuel = len(record) + 1 is enough. *)
Fixpoint su_loop (fuel : nat) (first : bool) (other : rr_entries) (record : list Z)
                 (offset left : Z) (acc : rr_entries) (vi : vinfo) : option (rr_entries * vinfo) :=
  match fuel with
  | O => None
  | S f =>
      match su_header record offset left with
      | R_end => Some (acc, vi)
      | R_err => None
      | R_entry rtype su_len recslice =>
          if slot_filled acc rtype || slot_filled other rtype then None
          else match dispatch first left rtype recslice with
               | Some (e, aux) =>
                   su_loop f first other record (offset + su_len) (left - su_len) (insert e acc)
                           (vi_update e aux (zlen recslice) vi)
               | None => None
               end
      end
  end.

Definition parse_su (first : bool) (skip : Z) (other cur : rr_entries) (record : list Z)
  : option (rr_entries * vinfo) :=
  su_loop (S (length record)) first other record skip (zlen record) cur vi0.

Definition opt_is (o : option Z) (v : Z) : bool := match o with Some x => x =? v | None => false end.
Definition infer_version (continuation : bool) (prev : rrv) (vi : vinfo) : rrv :=
  if opt_is (vi_px_len vi) 44 || opt_is (vi_sf_len vi) 21 || vi_has_es vi
     || match vi_er_id vi with Some i => zlist_eqb i EXT_ID_112 | None => false end
  then V112
  else if continuation && match prev with V_unset => false | _ => true end then prev
  else if opt_is (vi_sf_len vi) 12 then V110 else V109.
(* the repaired inference (fixes 2755ef8 and its follow-up): entries without an RR record are 1.10; an RR record found in
   the continuation area (self.ce_entries.rr_record) makes a 1.10 record 1.09 *)
Definition infer_version2 (continuation : bool) (prev : rrv) (vi : vinfo) (has_rr has_ce_rr : bool) : rrv :=
  if opt_is (vi_px_len vi) 44 || opt_is (vi_sf_len vi) 21 || vi_has_es vi
     || match vi_er_id vi with Some i => zlist_eqb i EXT_ID_112 | None => false end
  then V112
  else if continuation && match prev with V_unset => false | _ => true end
       then match prev with V110 => if has_ce_rr then V109 else prev | _ => prev end
  else if opt_is (vi_sf_len vi) 12 || negb has_rr then V110 else V109.

(* RockRidge.parse(record, is_first_dir_record_of_root, bytes_to_skip, continuation, _) on an object
   whose state is (dr_entries, ce_entries, rr_version) *)
Definition rr_parse (record : list Z) (first : bool) (skip : Z) (continuation : bool)
                    (st : rr_entries * rr_entries * rrv) : option (rr_entries * rr_entries * rrv) :=
  let '(dr, ce, prev) := st in
  match parse_su first skip (if continuation then dr else ce) (if continuation then ce else dr) record with
  | Some (cur, vi) =>
      Some (if continuation then (dr, cur, infer_version2 continuation prev vi (is_some (rr_record dr) || is_some (rr_record cur)) (is_some (rr_record cur)))
            else (cur, ce, infer_version2 continuation prev vi (is_some (rr_record cur) || is_some (rr_record ce)) (is_some (rr_record ce))))
  | None => None
  end.

(* the same loop without the object state: entries in area order with (aux, len(recslice)) *)
Fixpoint walk_su (fuel : nat) (first : bool) (record : list Z) (offset left : Z)
  : option (list (su_entry * Z * Z)) :=
  match fuel with
  | O => None
  | S f =>
      match su_header record offset left with
      | R_end => Some []
      | R_err => None
      | R_entry rtype su_len recslice =>
          match dispatch first left rtype recslice with
          | Some (e, aux) =>
              match walk_su f first record (offset + su_len) (left - su_len) with
              | Some es => Some ((e, aux, zlen recslice) :: es)
              | None => None
              end
          | None => None
          end
      end
  end.
(* ... and the state-dependent part: 'Only single %s record supported', insertion, version hints *)
Fixpoint ins_all (other : rr_entries) (es : list (su_entry * Z * Z)) (acc : rr_entries) (vi : vinfo)
  : option (rr_entries * vinfo) :=
  match es with
  | [] => Some (acc, vi)
  | (e, aux, sl) :: r =>
      if slot_filled acc (sig_of e) || slot_filled other (sig_of e) then None
      else ins_all other r (insert e acc) (vi_update e aux sl vi)
  end.

(* ---- RockRidge._record(entries) ------------------------------------------------------------ *)
Definition opt_list {A} (f : A -> su_entry) (o : option A) : list su_entry :=
  match o with Some a => [f a] | None => [] end.
Definition flag_list (e : su_entry) (b : bool) : list su_entry := if b then [e] else [].
(* the order of the appends to outlist.  NOTE: pn_record is never recorded. *)
Definition entries_list (E : rr_entries) : list su_entry :=
  opt_list E_SP (sp_record E) ++ opt_list E_RR (rr_record E) ++ map E_NM (nm_records E)
  ++ opt_list E_PX (px_record E) ++ map E_SL (sl_records E) ++ opt_list E_TF (tf_record E)
  ++ opt_list E_CL (cl_record E) ++ opt_list E_PL (pl_record E) ++ flag_list E_RE (re_record E)
  ++ map E_ES (es_records E) ++ opt_list E_ER (er_record E) ++ map E_AL (al_records E)
  ++ opt_list E_CE (ce_record E) ++ map E_PD (pd_records E) ++ flag_list E_ST (st_record E)
  ++ opt_list E_SF (sf_record E).
Definition record_list (v : rrv) (es : list su_entry) : option (list Z) :=
  concat_opt (map (rec_entry v) es).
Definition record_entries (v : rrv) (E : rr_entries) : option (list Z) :=
  record_list v (entries_list E).

(* ---- executable checkers for the external differential harness ------------------------------ *)
Definition all_zero (l : list Z) : bool := forallb (Z.eqb 0) l.
(* a = b ++ zeros *)
Fixpoint eq_upto_zeros (a b : list Z) : bool :=
  match a, b with
  | _, [] => all_zero a
  | x :: a', y :: b' => (x =? y) && eq_upto_zeros a' b'
  | [], _ :: _ => false
  end.
Definition rerecord (x : su_entry * Z * Z) : option (list Z) :=
  let '(e, aux, _) := x in rec_entry (if aux =? 44 then V112 else V109) e.

(* the area is walked exactly as the code does (at most ONE pad byte) and every entry re-recorded *)
Definition check_su_exact (b : list Z) : bool :=
  match walk_su (S (length b)) true b 0 (zlen b) with
  | Some es => match concat_opt (map rerecord es) with
               | Some out => eq_upto_zeros b out
               | None => false
               end
  | None => false
  end.
(* further trailing zero bytes (unused tail of a System Use field read from an image) are cut one
   at a time until the exact check passes *)
Fixpoint check_su_strip (fuel : nat) (b : list Z) : bool :=
  check_su_exact b ||
  match fuel with
  | O => false
  | S f => match rev b with 0 :: r => check_su_strip f (rev r) | _ => false end
  end.
Definition check_su_area (bytes : list Z) : bool := check_su_strip (length bytes) bytes.

Definition vcode (c : Z) : rrv :=
  if c =? 109 then V109 else if c =? 110 then V110 else if c =? 112 then V112 else V_unset.
Definition px_tuple : Type := (Z * Z * Z * Z * Z)%type.
Definition check_px_case (c : Z) (t : px_tuple) (expected : list Z) : bool :=
  let '(mode, links, uid, gid, serial) := t in
  opt_bytes_eqb (rec_px (vcode c) (mk_px mode links uid gid serial)) expected &&
  match expected with
  | [] => true
  | _ => match parse_px expected with
         | Some (p, l) =>
             (px_mode p =? mode) && (px_links p =? links) && (px_uid p =? uid) && (px_gid p =? gid)
             && (px_serial p =? (if c =? 112 then serial else 0)) && (l =? zlen expected)
         | None => false
         end
  end.

Definition comp_tuple : Type := (Z * Z * list Z)%type.
Definition comp_of_tuple (t : comp_tuple) : comp := let '(f, l, d) := t in mk_comp f l d.
(* record() of the given object = expected; expected parses, and the parsed object records to expected *)
Definition check_sl_case (fl : Z) (comps : list comp_tuple) (expected : list Z) : bool :=
  opt_bytes_eqb (rec_sl (mk_sl fl (map comp_of_tuple comps))) expected &&
  match expected with
  | [] => true
  | _ => match parse_sl expected with
         | Some s => opt_bytes_eqb (rec_sl s) expected &&
                     zlist_eqb (sl_name (sl_comps s)) (sl_name (map comp_of_tuple comps))
         | None => false
         end
  end.
Definition check_nm_case (t : Z * list Z) (expected : list Z) : bool :=
  opt_bytes_eqb (rec_nm (mk_nm (fst t) (snd t))) expected &&
  match expected with
  | [] => true
  | _ => match parse_nm expected with
         | Some n => (nm_flags n =? fst t) && zlist_eqb (nm_name n) (snd t)
         | None => false
         end
  end.
Definition tf_of_tuple (t : Z * list (list Z)) : tf_rec :=
  mk_tf (fst t) (map (fun b => match b with [] => None | _ => Some b end) (snd t)).
Definition check_tf_case (t : Z * list (list Z)) (expected : list Z) : bool :=
  opt_bytes_eqb (rec_tf (tf_of_tuple t)) expected &&
  match expected with
  | [] => true
  | _ => match parse_tf expected with
         | Some r => opt_bytes_eqb (rec_tf r) expected && (tf_flags r =? fst t)
                     && (zlen expected =? len_tf (fst t))
         | None => false
         end
  end.

Definition rrv_code (v : rrv) : Z :=
  match v with V_unset => 0 | V109 => 109 | V110 => 110 | V112 => 112 end.
Definition check_parse_case (area : list Z) (first : bool) (expected : Z * list Z) : bool :=
  match rr_parse area first 0 false (empty_entries, empty_entries, V_unset) with
  | Some (dr, _, v) => (rrv_code v =? fst expected) && opt_bytes_eqb (record_entries v dr) (snd expected)
  | None => fst expected =? 0
  end.

Fixpoint bad_cases {A} (chk : A -> bool) (k : nat) (cs : list A) : list nat :=
  match cs with
  | [] => []
  | c :: r => if chk c then bad_cases chk (S k) r else k :: bad_cases chk (S k) r
  end.
Definition bad_px_cases (k : nat) (cs : list (Z * px_tuple * list Z)) : list nat :=
  bad_cases (fun c => let '(v, t, e) := c in check_px_case v t e) k cs.
Definition bad_sl_cases (k : nat) (cs : list (Z * list comp_tuple * list Z)) : list nat :=
  bad_cases (fun c => let '(f, t, e) := c in check_sl_case f t e) k cs.
Definition bad_nm_cases (k : nat) (cs : list ((Z * list Z) * list Z)) : list nat :=
  bad_cases (fun c => check_nm_case (fst c) (snd c)) k cs.
Definition bad_tf_cases (k : nat) (cs : list ((Z * list (list Z)) * list Z)) : list nat :=
  bad_cases (fun c => check_tf_case (fst c) (snd c)) k cs.
Definition bad_parse_cases (k : nat) (cs : list (list Z * bool * (Z * list Z))) : list nat :=
  bad_cases (fun c => let '(a, f, e) := c in check_parse_case a f e) k cs.
Definition bad_su_areas (k : nat) (cs : list (list Z)) : list nat := bad_cases check_su_area k cs.
